#!/bin/bash
# developer aid: confirm + collect several seeds of a round, three at a time.
#   usage: roundcollect.sh <seeddir> <listfile>     list lines: Cxx <name> <demo command...>
export SEEDDIR=$1
cd /verif
i=0
while read -r id name cmd; do
  [ -z "$id" ] && continue
  ( ./seed2_collect.sh $id $name $cmd ) &
  i=$((i+1)); if [ $((i%3)) -eq 0 ]; then wait; fi
done < $2
wait
echo collected

#!/bin/bash
# developer aid (round 2): confirm one sub-agent seed in its scratch worktree.
#   usage: confirm2.sh <worktree> <demo command...>
#  with the patch: workspace builds, the repository's tests pass, the demonstration FAILS
#  without it:     the demonstration PASSES
export CARGO_NET_OFFLINE=true
wt=$1; shift
cd "$wt" || exit 2
git reset -q 2>/dev/null; git checkout -q -- . ; git clean -fdq compiler/*/tests compiler/*/src docs 2>/dev/null
git apply --whitespace=nowarn _out/patch.diff || { echo "$wt: patch does not apply"; exit 2; }
(cd compiler && cargo build --offline -q 2>/dev/null)
t=$(cd compiler && cargo test --workspace --no-fail-fast --offline 2>&1 | awk '/^test result:/{ if ($3=="ok.") ok++; else bad++; p+=$4; f+=$6 } END{printf "suites_ok=%d suites_failed=%d passed=%d failed=%d", ok,bad,p,f}')
"$@" >"$wt/_out/confirm_with.log" 2>&1; with=$?
git clean -fdq compiler/*/tests 2>/dev/null
git apply -R --whitespace=nowarn _out/patch.diff
(cd compiler && cargo build --offline -q 2>/dev/null)
"$@" >"$wt/_out/confirm_without.log" 2>&1; without=$?
git clean -fdq compiler/*/tests 2>/dev/null
echo "$(basename $wt): tests_with_change[$t] demo_with_change_exit=$with demo_without_change_exit=$without"

#!/bin/bash
# developer aid (never used by a check): an isolated copy of /repo and /verif for experiments that
# change ironplc (seeded changes, reverted fixes) without touching /repo or the /verif build.
#   usage: mkbox.sh <dir> [verif-commit]   creates <dir>/repo (detached worktree of /repo HEAD) and
#          <dir>/verif (copy of the working tree, or of the given /verif commit: a frozen harness)
# Remove with:  git -C /repo worktree remove --force <dir>/repo; rm -rf <dir>
set -e
B=$1
mkdir -p "$B"
[ -d "$B/repo" ] || git -C /repo worktree add --detach "$B/repo" HEAD >/dev/null   # re-run to refresh <dir>/verif only
if [ -n "$2" ]; then
  rm -rf "$B/src"; mkdir -p "$B/src" "$B/verif"
  git -C /verif archive "$2" | tar -x -C "$B/src"
  rsync -a --delete --exclude .build --exclude replays "$B/src/" "$B/verif/"; rm -rf "$B/src"
else
  rsync -a --exclude .build --exclude .git --exclude replays /verif/ "$B/verif/"
fi
mkdir -p "$B/verif/replays"
grep -rl '/repo' "$B/verif/harness/Cargo.toml" "$B/verif/fuzz/Cargo.toml" "$B/verif/build.sh" "$B/verif/harness/src" "$B/verif/fuzz/fuzz_targets" | xargs sed -i "s#/repo/#$B/repo/#g; s#\"/repo\"#\"$B/repo\"#g"
sed -i "s#/verif#$B/verif#g; s#git -C /repo#git -C $B/repo#g" "$B/verif/seedtest.py"
echo "box ready: $B (run $B/verif/build.sh first)"

#!/usr/bin/env python3
# developer aid: regenerates MANIFEST.json from the table below
import json
ALL=[f"C{i:02d}" for i in range(1,16)]
T="property-based testing over choice tapes (proptest TestRunner, sharded, VERIF_SEED) "
F=" Thorough tier adds a coverage-guided libFuzzer campaign over choice tapes (fuzz/tapes) with the same oracle inside the target."
CHECKS={
 "C01": dict(cat="exploration", technique=T+"+ exhaustive operator grid, declaration grid and text-first census grid: AST-first generator, independent printer, oracle = expected library; text-first cells: every identifier written is an Id of the library"+F+"",
   text="Generated programs of the reference grammar (every production the parser implements, alternative spellings of the same meaning, lists up to 33 entries, strings up to 70 000 characters and with $ escapes in either faithful reading, contextual words as names) must parse to exactly the library the generator built; all 225 operator pairs x both association shapes and 225 triples enumerated. Finds dropped / reordered / re-associated / renamed constructs; cannot prove absence.",
   note="Trusted: the harness' printer and AST generator (second implementation of IEC Annex B) and the dsl's derived PartialEq (spans ignored; identifier case checked separately by a visitor walk). Information the dsl types cannot represent is not judged.", ref="DESIGN.md §3 C01"),
 "C02": dict(cat="fault_enumeration", technique=T+": valid-by-construction generator + generation-time fault planter (16 rule kinds, every site), oracle = expected verdict / code"+F+"",
   text="Valid units must analyse Ok; the same unit with exactly one planted documented Fails shape (every applicable site for small units) must fail with the rule's published code (substitution and insertion faults, names that exist elsewhere, a third of the units in random letter case per occurrence; every elementary type but the strings, derived types as array elements, variable types and function results, names local to a configuration reused by a second one, instances handed in by the caller); double faults must fail; the binary agrees.",
   note="Trusted: the harness' model of which programs satisfy the documented rules (conservative: P9999 constructs avoided). P9999-only outcomes are trivial, not successes.", ref="DESIGN.md §3 C02"),
 "C03": dict(cat="fault_enumeration", technique=T+": faulty unit x companion files, all file orders, same-name companions; oracle = set must fail"+F+"",
   text="Every placement of a file that does not tokenize / parse or holds a self-contained planted fault alone and among 0-4 companions (valid ones, ones that re-declare the faulty name, not-implemented declarations, comment headers with OSCAT markers) in every file order must make Project::semantic and `ironplcc check` fail; a 20-cell cure grid states which companions may cure an undeclared name and which never (also: a plain global next to a constant one, a TYPE named like a standard function block).",
   note="Trusted: F alone fails (verified per case). Faults whose diagnosis needs other declarations are exempt as in the property.", ref="DESIGN.md §3 C03"),
 "C04": dict(cat="exploration", technique=T+"in worker processes + libFuzzer target (thorough): bytes, token soup, token-mutated programs, extreme literals; oracle = no panic / abort / CPU overrun",
   text="Inputs <= 64 KiB / nesting <= 12 run through tokenize, parse, analyze, render, re-parse in worker processes: a panic, a death by signal (4 GiB of address space per worker) or > 20 CPU s (3/3 reproduction) is a violation; the extra re-parse of the rendering runs only within the nesting bound. Thorough adds a coverage-guided libFuzzer campaign over the same in-target oracle.",
   note="Hangs that need more CPU than the budget or inputs beyond the stated bounds are out of reach. Budget is CPU time measured by the worker, never wall clock.", ref="DESIGN.md §3 C04"),
 "C05": dict(cat="exploration", technique=T+": harness-printed texts with known lexeme table; oracle = recomputed line/column, source[span]==text, marker positions of planted faults"+F+"",
   text="Tokens must tile the source with recomputed line/column; every Id must carry file id and the span of its own spelling and coincide with the harness' lexeme table; primary labels of planted faults must cover the marker the planter wrote; the file:L:C shown by check / echo / tokenize and the LSP range.start for a sample of planted faults, syntax errors and lexical errors must be the recomputed position of the label start; for every diagnostic met (planted faults, name clashes over 49 pairs of declaration forms, alias chains that end nowhere) every label names a file of the set, lies in it on character and word boundaries, and a one-word primary label is the name the description states.",
   note="Column unit is free (bytes, chars or UTF-16) but must be one per file. Form feed excluded. P9999 / file-level labels exempt.", ref="DESIGN.md §3 C05"),
 "C06": dict(cat="exploration", technique=T+"+ exhaustive permutations / partitions: metamorphic oracle (same verdict, codes, location modulo placement)"+F+"",
   text="Units of <= 5 declarations: all permutations, all partitions into <= 3 files x all file orders must give the canonical verdict (single-fault units: same codes and same (chunk, offset) locations); sets of 6..30 declarations with one file each in random orders; chunks that declare nothing; exhaustive 108-cell scope-leak grid and 240-cell statement-context grid; single-fault units next to a not-implemented declaration (verdict only); Project::semantic on fresh projects and `ironplcc check` (files, file + directory) in fresh processes sampled.",
   note="Hash seeds of child processes cannot be chosen; explicit order enumeration at analyze() is the deciding search.", ref="DESIGN.md §3 C06"),
 "C07": dict(cat="exploration", technique="exhaustive enumeration of all digraphs on <= 4 nodes + "+T+"for random graphs <= 12 nodes and large graphs on 40/120/400 nodes (through the binary); oracle = reference DFS cycle test",
   text="All 66066 digraphs on <= 4 nodes, random ones on 5..12 and large ones on 40/120/400 nodes (chains, fans, layered, sparse), realised as FB instance graphs, type graphs (aliases plain / initialised / of structures, structure elements) and mixed graphs, with bystander declarations, bodies and instance names like declarations: recursion codes (P0010/P0013) exactly when the reference cycle test finds a cycle - for the unit as one source and dealt out over two or three sources.",
   note="Edges through ARRAY OF are soft (a cycle only through them is not judged); VAR_IN_OUT edges are not generated.", ref="DESIGN.md §3 C07"),
 "C08": dict(cat="exploration", technique=T+": metamorphic (canonical vs re-spelled layout of the same lexeme stream)"+F+"",
   text="Same lexeme stream laid out canonically and with random case per keyword / identifier occurrence and random trivia (blanks, tabs, LF, CRLF, comments incl. multi-line / nested-looking / non-ASCII, // comments) at every joint, or no white space at all where two lexemes cannot run together: equal libraries and equal analyze() codes.",
   note="Trivia never goes inside literals (IEC forbids white space there). C01 ties the canonical spelling to the expected AST.", ref="DESIGN.md §3 C08"),
 "C09": dict(cat="exploration", technique=T+"+ fixed boundary grid: text-first literal generator with exact reference evaluator"+F+"",
   text="Structured literal space (integers in 4 bases with boundary magnitudes, reals, durations, dates, times, strings, addresses, booleans; 22 malformed shapes, later-edition and foreign duration units, random digit strings beyond 128 bits): accepted with exactly the reference value, or rejected when unrepresentable / malformed.",
   note="f64 reference = std's correctly rounded decimal conversion. Taste bands (year 0 / >= 10000, typed literal beyond its type's range, unit counts beyond 64 bits): reject or exact both pass.", ref="DESIGN.md §3 C09"),
 "C10": dict(cat="exploration", technique=T+": round trip parse -> render -> parse, fixed point"+F+"",
   text="For generated programs the parser accepts: write_to_string output must parse to an equal library (and identical identifier spellings) and re-rendering must be a fixed point.",
   note="Of the 26 renderer defects found on the pinned tree, 19 entries are repaired in /repo (fix: commits, regression witnesses); 7 stay known (scope own: six are pinned by expected files of the repository's rendered-output tests, one needs a dsl field) and the strict oracle runs on the sub-language whose gates are on.", ref="DESIGN.md §3 C10"),
 "C11": dict(cat="exploration", technique="exhaustive enumeration of notification histories (<= 3/4) + "+T+"for random histories <= 40; oracle = fresh-server reference and CLI agreement",
   text="Over `ironplcc lsp --stdio`: one publishDiagnostics per didOpen/didChange with its URI and version; the last publication equals a fresh server's for the same current contents and carries the (code, line, column) `ironplcc check <dir>` prints; a fixed family of 72 histories over diagnostics that relate two documents.",
   note="Diagnostics compared as multisets; P0030 excluded. Random histories include close and reopen, strided version numbers, moved / trimmed / degenerate texts, cross-document name clashes, documents with hundreds of diagnostics, names that need percent-encoding.", ref="DESIGN.md §3 C11"),
 "C12": dict(cat="exploration", technique=T+": random JSON-RPC scripts against the real server binary; oracle = request/response ledger evaluated after exit",
   text="Random scripts of <= 60 well-formed messages (17 URIs, every id shape, omitted params, client responses with 17 error codes, cancel of ids in flight, didClose, all 64 client-to-server method names of LSP 3.17 with and without id, a repeated initialize, content changes with ranges) after a handshake whose initialize names no / an existing / a missing / a non-file workspace folder, with and without verbosity flags, then shutdown/exit: every request answered exactly once, no spurious responses or notifications, clean protocol stream, exit status 0.",
   note="Malformed parameters are outside the property. A server still running 90 s after stdin closed is run again with a 300 s limit; only if it again leaves requests unanswered is that a violation (server-stopped-responding), otherwise inconclusive.", ref="DESIGN.md §3 C12"),
 "C13": dict(cat="exploration", technique=T+": generated file sets presented as files / directory / mixture to the real binary; oracle = agreement of exit status, OK line, coded diagnostics",
   text="Generated file sets (names with other / no extensions, blanks, non-ASCII, comma, hash; cross-file diagnostics; fault kinds uniform over the rules; with and without verbosity flags): exit 0 <=> OK line <=> no coded diagnostic of any severity; codes are published codes; same exit for every argument order; directory == file list; echo / tokenize exit 0 <=> all files parse / tokenize (in-process reference); split sets (some files named, the others in a directory); 255..512 diagnostics; fixed cases for missing paths, empty directory, unreadable file; directories whose entries are symbolic links or cannot be loaded; unmatched text of every length at the end of a file.",
   note="Judges channel agreement only, not the verdict.", ref="DESIGN.md §3 C13"),
 "C14": dict(cat="exploration", technique=T+"+ exhaustive byte insertion (256 x 4): metamorphic across 5 encodings; positions inside the decoded text",
   text="Programs with non-ASCII comments / strings written in UTF-8, UTF-8+BOM, UTF-16LE/BE+BOM, Windows-1252 (named or reached through a directory, inside mixed-encoding sets, 5 KiB..2 MiB large, with BOM-like sequences as first non-ASCII text, UTF-8-looking runs of Windows-1252 characters, edge code points) give identical exit status, (code, line, column) and token listing; every byte value at 4 positions, random binaries, byte-order marks followed by malformed content: never the panic status, positions inside the decoded text.",
   note="Decoding cascade re-implemented with encoding_rs as reference.", ref="DESIGN.md §3 C14"),
 "C15": dict(cat="exploration", technique=T+": harness-printed documents through edit histories; oracle = own lexeme table under the LSP relative encoding",
   text="semanticTokens/full decoded under the relative encoding: strictly increasing, each range exactly one lexeme of the current text (UTF-16 units), compatible legend entry, every identifier / comment / address / keyword / operator lexeme reported; documents after 1..4 versions with a request after any of them (close and reopen, truncated, blank, OSCAT headers also non-ASCII, // comments, positions beyond 65 535) and 20 hand-written texts whose lexemes touch; null whenever the current text holds generated junk.",
   note="Words the lexer cannot distinguish from identifiers may be variable or keyword; '..' may be keyword.", ref="DESIGN.md §3 C15"),
}
checks=[]
for pid,c in CHECKS.items():
    checks.append({
      "property_id":pid,
      "quick_cmd":f"./check {pid} --tier quick",
      "thorough_cmd":f"./check {pid} --tier thorough",
      "evidence_file":f"/verif/evidence/{pid}.json",
      "replay_cmd_template":f"./check {pid} --replay {{path}}",
      "engine":"vcheck",
      "level_claimed":{"category":c["cat"],"text":c["text"],"design_ref":c["ref"]},
      "level_note":c["note"],
      "technique":c["technique"],
    })
m={
 "version":1,
 "setup_cmd":"./build.sh",
 "hooks":{"guard":"ironplc_verif","enable":"none needed: every observation point is public (path dependencies on /repo/compiler + the ironplcc binary built from the working tree)","baseline_off_cmd":"cd /repo/compiler && cargo test --workspace --no-fail-fast --offline","source_commits":[],"add_only":True},
 "engines":[{"name":"vcheck","path":"/verif/harness","serves_properties":sorted(CHECKS),"kind_free_text":"Rust harness: proptest TestRunner over choice tapes (sharded, seeded by VERIF_SEED), exhaustive enumerators, worker processes, subprocess drivers for ironplcc, cargo-fuzz/libFuzzer targets fuzz/total (C04) and fuzz/tapes (thorough tier of C01 C02 C03 C05 C06 C08 C09 C10)"}],
 "checks":checks,
 "notes":"See DESIGN.md. known_findings.json lists genuine defects of the pinned tree (known / fixed).",
 "not_applicable":[{"property_id":p,"reason":"check not built yet (see DESIGN.md)"} for p in ALL if p not in CHECKS],
}
json.dump(m,open('/verif/MANIFEST.json','w'),indent=1)

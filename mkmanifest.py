#!/usr/bin/env python3
# developer aid: regenerates MANIFEST.json from the table below
import json
ALL=[f"C{i:02d}" for i in range(1,16)]
CHECKS={
 "C01": dict(cat="exploration", technique="property-based testing (proptest over choice tapes): AST-first generator + independent printer, oracle = expected library built by the generator; exhaustive operator-pair grid",
   text="Generated programs of the reference grammar (every production the parser implements, alternative spellings of the same meaning) must parse to exactly the library the generator built; all 225 operator pairs x both association shapes enumerated. Finds dropped / reordered / re-associated / renamed constructs; cannot prove absence.",
   note="Trusted: the harness' printer and AST generator (a second implementation of the grammar, IEC Annex B) and the dsl's derived PartialEq (spans ignored, identifiers compared case-insensitively, then case-sensitively by a visitor walk). Information the dsl types cannot represent is not judged.", ref="DESIGN.md §3 C01"),
}
checks=[]
for pid,c in CHECKS.items():
    checks.append({
      "property_id":pid,
      "quick_cmd":f"./check {pid} --tier quick",
      "thorough_cmd":f"./check {pid} --tier thorough",
      "evidence_file":f"/verif/evidence/{pid}.json",
      "replay_cmd_template":f"./check {pid} --replay {{path}}",
      "engine":"vcheck",
      "level_claimed":{"category":c["cat"],"text":c["text"],"design_ref":c["ref"]},
      "level_note":c["note"],
      "technique":c["technique"],
    })
m={
 "version":1,
 "setup_cmd":"./build.sh",
 "hooks":{"guard":"ironplc_verif","enable":"none needed: every observation point is public (path dependencies on /repo/compiler + the ironplcc binary built from the working tree)","baseline_off_cmd":"cd /repo/compiler && cargo test --workspace --no-fail-fast --offline","source_commits":[],"add_only":True},
 "engines":[{"name":"vcheck","path":"/verif/harness","serves_properties":sorted(CHECKS),"kind_free_text":"Rust harness: proptest TestRunner over choice tapes (sharded, seeded by VERIF_SEED), exhaustive enumerators, subprocess drivers for ironplcc"}],
 "checks":checks,
 "notes":"See DESIGN.md. known_findings.json lists genuine defects of the pinned tree (known / fixed).",
 "not_applicable":[{"property_id":p,"reason":"check not built yet in this session (work in progress, see DESIGN.md §6 order)"} for p in ALL if p not in CHECKS],
}
json.dump(m,open('/verif/MANIFEST.json','w'),indent=1)

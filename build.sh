#!/bin/bash
# Builds the harness and the ironplcc binary from /repo's current working tree, offline.
set -e
cd "$(dirname "$0")"; ROOT="$(pwd)"
export CARGO_NET_OFFLINE=true
mkdir -p .build
# one build at a time (checks may be started concurrently)
exec 9>.build/lock
flock 9
(cd harness && cargo build --offline --quiet 2>&1)
(cd /repo/compiler && cargo build --offline --quiet -p ironplcc --bin ironplcc --target-dir "$ROOT/.build/t" 2>&1)

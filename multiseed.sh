#!/bin/bash
# developer aid: run every quick check with several seeds on the unchanged tree; any VIOLATION or
# non-zero exit is printed.  usage: multiseed.sh "2 3 4" [tier]
cd "$(dirname "$0")"
./build.sh || exit 2
for s in ${1:-2 3 4 5 6}; do
  for p in C01 C02 C03 C04 C05 C06 C07 C08 C09 C10 C11 C12 C13 C14 C15; do
    out=$(VERIF_SEED=$s VERIF_NO_FUZZ=1 .build/h/debug/vcheck $p --tier ${2:-quick} 2>&1); rc=$?
    echo "seed=$s $p exit=$rc $(echo "$out" | grep "^\[$p\] tier" | sed 's/.*evaluations/evaluations/')"
    if [ $rc -ne 0 ]; then echo "$out" | grep -v KNOWN | head -20; fi
  done
done

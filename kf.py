#!/usr/bin/env python3
# developer aid: add/update an entry of known_findings.json (never used by a check)
import json,sys
p='/verif/known_findings.json'
d=json.load(open(p))
id_,prop,gates,what=sys.argv[1:5]
wit=json.loads(sys.argv[5]) if len(sys.argv)>5 and sys.argv[5] else None
e={"id":id_,"property":prop,"status":"known","what":what,"gates":[g for g in gates.split(',') if g],"witness":wit}
if len(sys.argv)>6:
    e["status"]="fixed"; e["commit"]=sys.argv[6]; e["gates"]=[]
    e["line"]="fixed: property=%s %s %s"%(prop,sys.argv[6],what)
if len(sys.argv)>7:
    e["scope"]=sys.argv[7]
import os
if any(f['id']==id_ for f in d['findings']) and not os.environ.get('KF_OVERWRITE'):
    sys.exit('refusing to overwrite existing entry %s (set KF_OVERWRITE=1 to update it)'%id_)
d['findings']=[f for f in d['findings'] if f['id']!=id_]+[e]
d['findings'].sort(key=lambda f:f['id'])
json.dump(d,open(p,'w'),indent=1,ensure_ascii=False)

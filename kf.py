#!/usr/bin/env python3
# developer aid: add/update an entry of known_findings.json (never used by a check)
import json,sys
p='/verif/known_findings.json'
d=json.load(open(p))
id_,prop,gates,what=sys.argv[1:5]
wit=json.loads(sys.argv[5]) if len(sys.argv)>5 else None
e={"id":id_,"property":prop,"status":"known","what":what,"gates":[g for g in gates.split(',') if g],"witness":wit}
d['findings']=[f for f in d['findings'] if f['id']!=id_]+[e]
d['findings'].sort(key=lambda f:f['id'])
json.dump(d,open(p,'w'),indent=1,ensure_ascii=False)

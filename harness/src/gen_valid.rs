//! Valid-by-construction program generator with a built-in fault planter.
//!
//! `gen_unit` produces a compilation unit (as the dsl library a faithful parser
//! returns for its text) that satisfies every documented semantic rule and
//! avoids every construct the analyzer answers with P9999 (DESIGN Appendix A).
//! With `fault = Some((kind, k))` the k-th applicable site of that rule's
//! documented "Fails" shape is planted instead; the site counters of a
//! fault-free run tell how many sites each kind has.  Tape consumption does not
//! depend on the fault, so the same tape yields the same program with exactly
//! one difference.

use crate::gates::Gates;
use crate::gen_syntax::{id, sint, uint};
use crate::names::Names;
use crate::tape::Tape;
use ironplc_dsl::common::*;
use ironplc_dsl::configuration::*;
use ironplc_dsl::core::SourceSpan;
use ironplc_dsl::sfc::*;
use ironplc_dsl::textual::*;
use ironplc_dsl::time::DurationLiteral;

#[derive(Clone, Copy, Debug, PartialEq, Eq, Hash, PartialOrd, Ord)]
pub enum FaultKind {
    DupStructElem,    // P0003
    SubrangeLimits,   // P0004
    DupEnumValue,     // P0005
    CallMixed,        // P0006
    CallBadFormal,    // P0007
    CallArgCount,     // P0008
    CallBadOutput,    // P0009
    CallNotInstance,  // P0021
    TaskUndefined,    // P0011
    EnumInitNotMember, // P0014
    UndeclaredVar,    // P0015
    ConstNoInit,      // P0016
    ConstFb,          // P0017
    ExternalNotConst, // P0018
    UnknownType,      // P0022
    StdFbType,        // P0029
}

pub const ALL_FAULTS: [FaultKind; 16] = [
    FaultKind::DupStructElem,
    FaultKind::SubrangeLimits,
    FaultKind::DupEnumValue,
    FaultKind::CallMixed,
    FaultKind::CallBadFormal,
    FaultKind::CallArgCount,
    FaultKind::CallBadOutput,
    FaultKind::CallNotInstance,
    FaultKind::TaskUndefined,
    FaultKind::EnumInitNotMember,
    FaultKind::UndeclaredVar,
    FaultKind::ConstNoInit,
    FaultKind::ConstFb,
    FaultKind::ExternalNotConst,
    FaultKind::UnknownType,
    FaultKind::StdFbType,
];

impl FaultKind {
    pub fn code(&self) -> &'static str {
        match self {
            FaultKind::DupStructElem => "P0003",
            FaultKind::SubrangeLimits => "P0004",
            FaultKind::DupEnumValue => "P0005",
            FaultKind::CallMixed => "P0006",
            FaultKind::CallBadFormal => "P0007",
            FaultKind::CallArgCount => "P0008",
            FaultKind::CallBadOutput => "P0009",
            FaultKind::CallNotInstance => "P0021",
            FaultKind::TaskUndefined => "P0011",
            FaultKind::EnumInitNotMember => "P0014",
            FaultKind::UndeclaredVar => "P0015",
            FaultKind::ConstNoInit => "P0016",
            FaultKind::ConstFb => "P0017",
            FaultKind::ExternalNotConst => "P0018",
            FaultKind::UnknownType => "P0022",
            FaultKind::StdFbType => "P0029",
        }
    }
    pub fn index(&self) -> usize {
        ALL_FAULTS.iter().position(|k| k == self).unwrap()
    }
    /// the fault needs no other declaration to manifest and to be diagnosed (C03)
    pub fn self_contained(&self) -> bool {
        !matches!(self, FaultKind::UnknownType | FaultKind::CallNotInstance | FaultKind::ExternalNotConst)
    }
}

#[derive(Clone, Debug)]
pub struct Planted {
    pub kind: FaultKind,
    pub site: usize,
    /// where the fault sits ("type", "fb.var", "prog.body.if", ...)
    pub site_class: String,
    /// unique spelling that occurs in the text exactly where the diagnostic must point (if any)
    pub marker: Option<String>,
    /// index of the top-level declaration that contains the fault
    pub decl_index: usize,
}

#[derive(Clone, Debug)]
pub struct Profile {
    pub max_types: usize,
    pub max_fbs: usize,
    pub max_funcs: usize,
    pub max_progs: usize,
    pub config: bool,
    pub max_stmts: usize,
    pub sfc: bool,
    /// name prefix (keeps independently generated units disjoint)
    pub prefix: String,
    /// upper bound on the number of top-level declarations (0 = none)
    pub max_decls: usize,
    /// also write comparisons of an enumeration variable with one of its values (`c = green`).
    /// While that is a known false rejection (KF-C02-04) the unit is marked `tainted`: its own
    /// verdict is not judged, its single-fault mutants are
    pub enum_compare: bool,
}

impl Default for Profile {
    fn default() -> Self {
        Profile { max_types: 4, max_fbs: 3, max_funcs: 2, max_progs: 2, config: true, max_stmts: 6, sfc: true, prefix: String::new(), max_decls: 0, enum_compare: false }
    }
}

#[derive(Clone, Debug, PartialEq)]
enum VKind {
    /// elementary, declared as Simple by the parser (assignable from any expression)
    Simple(ElementaryTypeName),
    /// elementary but declared in VAR_IN_OUT / late resolved: readable, not an assignment target
    SimpleRo(ElementaryTypeName),
    EnumInit(usize),
    EnumNoInit(usize),
    Struct(usize),
    ArrayInline,
    ArrayT,
    Str,
    Fb(usize),
}

#[derive(Clone, Debug)]
struct VarInfo {
    name: String,
    kind: VKind,
}

#[derive(Clone, Debug)]
struct EnumInfo {
    name: String,
    /// index of the root enum (with the value list)
    values: Vec<String>,
}
#[derive(Clone, Debug)]
struct StructInfo {
    name: String,
    fields: Vec<(String, ElementaryTypeName)>,
}
#[derive(Clone, Debug)]
struct FbInfo {
    name: String,
    inputs: Vec<(String, ElementaryTypeName)>,
    inouts: Vec<String>,
    outputs: Vec<(String, ElementaryTypeName)>,
}
#[derive(Clone, Debug)]
struct FuncInfo {
    name: String,
    inputs: usize,
}
#[derive(Clone, Debug)]
struct GlobalInfo {
    name: String,
    ty: ElementaryTypeName,
    constant: bool,
    /// declared in the RESOURCE's VAR_GLOBAL block instead of the CONFIGURATION's
    at_resource: bool,
}

pub struct Unit {
    pub lib: Library,
    pub sites: [usize; 16],
    pub planted: Option<Planted>,
    pub planted_all: Vec<Planted>,
    /// number of reference edges between top-level declarations (types used, FBs instantiated ...)
    pub ref_edges: usize,
    /// contains a construct that the pinned tree is known to reject wrongly (see Profile::enum_compare)
    pub tainted: bool,
}

pub struct VGen<'a, 't, 'g> {
    t: &'a mut Tape<'t>,
    g: &'g Gates,
    p: Profile,
    names: Names,
    fault: Vec<(FaultKind, usize)>,
    sites: [usize; 16],
    planted: Option<Planted>,
    planted_all: Vec<Planted>,
    enums: Vec<EnumInfo>,
    structs: Vec<StructInfo>,
    array_types: Vec<String>,
    string_types: Vec<String>,
    fbs: Vec<FbInfo>,
    funcs: Vec<FuncInfo>,
    globals: Vec<GlobalInfo>,
    progs: Vec<String>,
    /// per program type: its function block instances (instance name, index of the block)
    prog_insts: Vec<(String, Vec<(String, usize)>)>,
    cur_decl: usize,
    cur_class: String,
    ref_edges: usize,
    marker_n: usize,
    /// external names declared by the POU being generated
    cur_scope_names: Vec<String>,
    /// names declared by the POU being generated / by earlier POUs and globals (reusable elsewhere)
    cur_locals: Vec<String>,
    local_pool: Vec<String>,
    /// function block instances seen so far: (instance name, index of its type, declaration index)
    seen_insts: Vec<(String, usize, usize)>,
    tainted: bool,
}

const NUM_TYPES: [ElementaryTypeName; 6] = [
    ElementaryTypeName::INT,
    ElementaryTypeName::DINT,
    ElementaryTypeName::UINT,
    ElementaryTypeName::SINT,
    ElementaryTypeName::LINT,
    ElementaryTypeName::REAL,
];

/// the other elementary types, strings excepted (assigning to a string variable is "not implemented";
/// the analyzer checks names, not types: any of them may stand where a number does; a table of type names that lost an entry shows only for that entry)
const MORE_TYPES: [ElementaryTypeName; 12] = [
    ElementaryTypeName::USINT,
    ElementaryTypeName::UDINT,
    ElementaryTypeName::ULINT,
    ElementaryTypeName::LREAL,
    ElementaryTypeName::BYTE,
    ElementaryTypeName::WORD,
    ElementaryTypeName::DWORD,
    ElementaryTypeName::LWORD,
    ElementaryTypeName::TIME,
    ElementaryTypeName::DATE,
    ElementaryTypeName::TimeOfDay,
    ElementaryTypeName::DateAndTime,
];
fn int_like(t: &ElementaryTypeName) -> bool {
    matches!(
        t,
        ElementaryTypeName::SINT | ElementaryTypeName::INT | ElementaryTypeName::DINT | ElementaryTypeName::LINT | ElementaryTypeName::USINT | ElementaryTypeName::UINT | ElementaryTypeName::UDINT | ElementaryTypeName::ULINT
    )
}

fn lb(n: &str) -> ExprKind {
    ExprKind::LateBound(LateBound { name: id(n) })
}
fn int_const(v: u128) -> ExprKind {
    ExprKind::Const(ConstantKind::IntegerLiteral(IntegerLiteral { value: sint(v, false), data_type: None }))
}
fn simple(t: Type, init: Option<ConstantKind>) -> InitialValueAssignmentKind {
    InitialValueAssignmentKind::Simple(SimpleInitializer { type_name: t, initial_value: init })
}
fn vd(name: &str, vt: VariableType, q: DeclarationQualifier, init: InitialValueAssignmentKind) -> VarDecl {
    VarDecl { identifier: VariableIdentifier::Symbol(id(name)), var_type: vt, qualifier: q, initializer: init }
}

impl<'a, 't, 'g> VGen<'a, 't, 'g> {
    fn fresh(&mut self) -> String {
        self.names.fresh(self.t)
    }
    /// a name for a variable of the POU being generated: usually fresh, sometimes the name of a
    /// variable of an *earlier* POU or of a global variable that this POU does not import -
    /// scopes are separate, so the unit stays valid (and a rule that leaks names between scopes
    /// shows)
    fn fresh_local(&mut self) -> String {
        if !self.local_pool.is_empty() && self.t.ratio(1, 5) && self.g.want("LOCAL_NAME_REUSED_IN_ANOTHER_SCOPE") {
            let cand = self.local_pool[self.t.below(self.local_pool.len())].clone();
            if !self.cur_locals.iter().any(|n| n.eq_ignore_ascii_case(&cand)) && !self.cur_scope_names.iter().any(|n| n.eq_ignore_ascii_case(&cand)) {
                self.cur_locals.push(cand.clone());
                return cand;
            }
        }
        let n = self.fresh();
        self.cur_locals.push(n.clone());
        n
    }
    /// start of a new POU scope
    fn new_scope(&mut self) {
        self.cur_scope_names.clear();
        let done: Vec<String> = self.cur_locals.drain(..).collect();
        for n in done {
            if !self.local_pool.contains(&n) {
                self.local_pool.push(n);
            }
        }
    }
    /// a name that is guaranteed not to be declared anywhere (does not touch the tape)
    fn marker(&mut self, stem: &str) -> String {
        self.marker_n += 1;
        let s = format!("{}_zq{}", stem, self.marker_n);
        self.names.reserve(&s);
        s
    }
    /// one applicable site of `kind`; true when the fault must be planted here
    fn site(&mut self, kind: FaultKind) -> bool {
        let i = kind.index();
        let n = self.sites[i];
        self.sites[i] += 1;
        if self.fault.contains(&(kind, n)) {
            if let Some(p) = self.planted.take() {
                self.planted_all.push(p);
            }
            self.planted = Some(Planted { kind, site: n, site_class: self.cur_class.clone(), marker: None, decl_index: self.cur_decl });
            true
        } else {
            false
        }
    }
    fn set_marker(&mut self, m: &str) {
        if let Some(p) = &mut self.planted {
            p.marker = Some(m.to_string());
        }
    }

    fn elem_const(&mut self, t: &ElementaryTypeName) -> ConstantKind {
        match t {
            ElementaryTypeName::BOOL => ConstantKind::Boolean(BooleanLiteral::new(if self.t.flag() { Boolean::True } else { Boolean::False })),
            ElementaryTypeName::REAL | ElementaryTypeName::LREAL => {
                let v = self.t.below(1000) as f64 + 0.5;
                ConstantKind::RealLiteral(RealLiteral { value: v, data_type: None })
            }
            ElementaryTypeName::TIME => {
                let ms = self.t.below(5000) as i64;
                ConstantKind::Duration(DurationLiteral { span: SourceSpan::default(), interval: time::Duration::milliseconds(ms) })
            }
            ElementaryTypeName::STRING | ElementaryTypeName::WSTRING => ConstantKind::CharacterString(CharacterStringLiteral::new("abc".chars().collect())),
            ElementaryTypeName::DATE => ConstantKind::Date(ironplc_dsl::time::DateLiteral::new(time::Date::from_calendar_date(2000 + self.t.below(30) as i32, time::Month::March, 1 + self.t.below(28) as u8).unwrap())),
            ElementaryTypeName::TimeOfDay => ConstantKind::TimeOfDay(ironplc_dsl::time::TimeOfDayLiteral::new(time::Time::from_hms(self.t.below(24) as u8, self.t.below(60) as u8, self.t.below(60) as u8).unwrap())),
            ElementaryTypeName::DateAndTime => ConstantKind::DateAndTime(ironplc_dsl::time::DateAndTimeLiteral::new(time::PrimitiveDateTime::new(
                time::Date::from_calendar_date(2000 + self.t.below(30) as i32, time::Month::July, 1 + self.t.below(28) as u8).unwrap(),
                time::Time::from_hms(self.t.below(24) as u8, self.t.below(60) as u8, self.t.below(60) as u8).unwrap(),
            ))),
            _ => ConstantKind::IntegerLiteral(IntegerLiteral { value: sint(self.t.below(100) as u128, false), data_type: None }),
        }
    }
    fn num_type(&mut self) -> ElementaryTypeName {
        if self.t.ratio(1, 4) {
            ElementaryTypeName::BOOL
        } else {
            let t = self.t.pick(&NUM_TYPES).clone();
            // (a further choice, drawn only when wanted, so that the tape keeps its meaning)
            if self.t.ratio(1, 3) {
                self.t.pick(&MORE_TYPES).clone()
            } else {
                t
            }
        }
    }
    /// lo < hi, small
    fn good_subrange(&mut self) -> Subrange {
        let lo = self.t.below(10) as i64 - 3;
        let hi = lo + 1 + self.t.below(20) as i64;
        let mut sr = Subrange { start: sint(lo.unsigned_abs() as u128, lo < 0), end: sint(hi.unsigned_abs() as u128, hi < 0) };
        if self.site(FaultKind::SubrangeLimits) {
            // documented Fails shape: minimum not strictly less than maximum
            if self.t_free_flag() {
                std::mem::swap(&mut sr.start, &mut sr.end);
            } else {
                sr.end = sr.start.clone();
            }
        }
        sr
    }
    /// deterministic pseudo choice that does not consume tape (depends on site counters only)
    fn t_free_flag(&self) -> bool {
        self.sites.iter().sum::<usize>() % 2 == 0
    }

    // ------------------------------------------------------------------ types
    fn gen_types(&mut self, out: &mut Vec<LibraryElementKind>) {
        let n = self.t.count(0, self.p.max_types);
        for _ in 0..n {
            self.cur_decl = out.len();
            self.cur_class = "type".into();
            let name = self.fresh();
            let d = match self.t.below(8) {
                0 | 1 => {
                    let k = 1 + self.t.count(1, 4);
                    let mut values: Vec<String> = (0..k).map(|_| self.fresh()).collect();
                    let default = if self.t.flag() { Some(EnumeratedValue::new(&values[self.t.below(values.len())].clone())) } else { None };
                    let info_values = values.clone();
                    let info_values_len = info_values.len();
                    if values.len() >= 2 && self.site(FaultKind::DupEnumValue) {
                        // (appended, not substituted: every declared value stays declared, so the unit
                        // has exactly this one fault)
                        let dup = values[0].clone();
                        values.push(dup);
                        let m = values[0].clone();
                        self.set_marker(&m);
                    }
                    self.enums.push(EnumInfo { name: name.clone(), values: info_values });
                    let planted_dup = values.len() > info_values_len;
                    let mut evs: Vec<EnumeratedValue> = values.iter().map(|v| EnumeratedValue::new(v)).collect();
                    // (the duplicate may be written with the type's own name in front - `T#v` is the same
                    // value as `v` inside the declaration of T - or the first occurrence may)
                    if planted_dup && self.g.want("DUPLICATE_ENUM_VALUE_WITH_TYPE_PREFIX") {
                        match self.t_free_pick(&[0usize, 1, 2, 3]) {
                            1 => evs.last_mut().unwrap().type_name = Some(Type::from(&name)),
                            2 => evs[0].type_name = Some(Type::from(&name)),
                            _ => {}
                        }
                    }
                    DataTypeDeclarationKind::Enumeration(EnumerationDeclaration {
                        type_name: Type::from(&name),
                        spec_init: EnumeratedSpecificationInit { spec: EnumeratedSpecificationKind::values(evs), default },
                    })
                }
                2 if !self.enums.is_empty() => {
                    // alias of an enumeration (`a : b;`), chains allowed
                    let base = self.t.below(self.enums.len());
                    let e = self.enums[base].clone();
                    self.ref_edges += 1;
                    self.enums.push(EnumInfo { name: name.clone(), values: e.values.clone() });
                    if self.t.ratio(1, 3) && self.g.want("ENUM_ALIAS_WITH_DEFAULT") {
                        // `a : b := v;` - an enumeration declaration from the start (no late binding); the
                        // base is a use of a type name like any other
                        let v = e.values[self.t.below(e.values.len())].clone();
                        let base_ty = self.type_ref(&e.name);
                        DataTypeDeclarationKind::Enumeration(EnumerationDeclaration {
                            type_name: Type::from(&name),
                            spec_init: EnumeratedSpecificationInit { spec: EnumeratedSpecificationKind::TypeName(base_ty), default: Some(EnumeratedValue::new(&v)) },
                        })
                    } else {
                        DataTypeDeclarationKind::LateBound(LateBoundDeclaration { data_type_name: Type::from(&name), base_type_name: Type::from(&e.name) })
                    }
                }
                3 | 4 => {
                    let k = 1 + self.t.count(0, 4);
                    let mut fields = vec![];
                    let mut elements = vec![];
                    for _ in 0..k {
                        let fname = self.fresh();
                        let init = match self.t.below(7) {
                            0 | 1 | 2 => {
                                let ty = self.num_type();
                                fields.push((fname.clone(), ty.clone()));
                                let c = if self.t.flag() { Some(self.elem_const(&ty)) } else { None };
                                simple(ty.into(), c)
                            }
                            3 if !self.enums.is_empty() => {
                                let e = self.enums[self.t.below(self.enums.len())].clone();
                                self.ref_edges += 1;
                                if self.t.flag() {
                                    let v = e.values[self.t.below(e.values.len())].clone();
                                    InitialValueAssignmentKind::EnumeratedType(EnumeratedInitialValueAssignment {
                                        type_name: Type::from(&e.name),
                                        initial_value: Some(EnumeratedValue::new(&v)),
                                    })
                                } else {
                                    InitialValueAssignmentKind::LateResolvedType(Type::from(&e.name))
                                }
                            }
                            4 if !self.structs.is_empty() => {
                                let s = self.structs[self.t.below(self.structs.len())].clone();
                                self.ref_edges += 1;
                                InitialValueAssignmentKind::LateResolvedType(Type::from(&s.name))
                            }
                            5 => InitialValueAssignmentKind::Subrange(SubrangeSpecificationKind::Specification(SubrangeSpecification {
                                type_name: ElementaryTypeName::INT,
                                subrange: self.good_subrange(),
                            })),
                            _ => {
                                let et = self.array_elem_type(ElementaryTypeName::INT.into());
                                InitialValueAssignmentKind::Array(ArrayInitialValueAssignment {
                                    spec: ArraySpecificationKind::Subranges(ArraySubranges { ranges: vec![self.good_subrange()], type_name: et }),
                                    initial_values: vec![],
                                })
                            }
                        };
                        elements.push(StructureElementDeclaration { name: id(&fname), init });
                    }
                    if elements.len() >= 2 && self.site(FaultKind::DupStructElem) {
                        // (the second occurrence as written, in upper or in lower case - the same name
                        // all the same; it is the last element, so others stand between the two)
                        let last = elements.len() - 1;
                        let first = elements[0].name.original().clone();
                        let again = match self.t_free_pick(&[0usize, 1, 2]) {
                            1 if self.g.want("DUPLICATE_ELEMENT_IN_ANOTHER_LETTER_CASE") => first.to_ascii_uppercase(),
                            2 if self.g.want("DUPLICATE_ELEMENT_IN_ANOTHER_LETTER_CASE") => first.to_ascii_lowercase(),
                            _ => first,
                        };
                        elements[last].name = id(&again);
                        self.set_marker(&name);
                    }
                    self.structs.push(StructInfo { name: name.clone(), fields });
                    DataTypeDeclarationKind::Structure(StructureDeclaration { type_name: Type::from(&name), elements })
                }
                5 => {
                    self.array_types.push(name.clone());
                    let n = 1 + self.t.count(0, 1);
                    let et0: Type = self.num_type().into();
                    let et = self.array_elem_type(et0);
                    DataTypeDeclarationKind::Array(ArrayDeclaration {
                        type_name: Type::from(&name),
                        spec: ArraySpecificationKind::Subranges(ArraySubranges { ranges: (0..n).map(|_| self.good_subrange()).collect(), type_name: et }),
                        init: vec![],
                    })
                }
                6 => {
                    self.string_types.push(name.clone());
                    DataTypeDeclarationKind::String(StringDeclaration {
                        type_name: Type::from(&name),
                        length: uint(1 + self.t.below(80) as u128),
                        width: if self.t.ratio(1, 4) { StringType::WString } else { StringType::String },
                        init: if self.t.ratio(1, 2) && self.g.want("STRING_TYPE_WITH_DEFAULT") { Some("abc".to_string()) } else { None },
                    })
                }
                _ => DataTypeDeclarationKind::Subrange(SubrangeDeclaration {
                    type_name: Type::from(&name),
                    spec: SubrangeSpecificationKind::Specification(SubrangeSpecification { type_name: self.t.pick(&NUM_TYPES[..5]).clone(), subrange: self.good_subrange() }),
                    default: None,
                }),
            };
            out.push(LibraryElementKind::DataTypeDeclaration(d));
        }
    }

    // -------------------------------------------------------------- variables
    /// reference to a derived type in a variable declaration (site of UnknownType)
    fn type_ref(&mut self, name: &str) -> Type {
        self.ref_edges += 1;
        if self.site(FaultKind::UnknownType) {
            let m = self.marker("notype");
            self.set_marker(&m);
            Type::from(&m)
        } else {
            Type::from(name)
        }
    }
    /// element type of an array: elementary, or (a third of the time, when there is one) an
    /// enumeration or structure declared earlier - a use of a type like any other (site of UnknownType)
    fn array_elem_type(&mut self, elementary: Type) -> Type {
        if self.t.ratio(1, 3) && self.g.want("ARRAY_OF_DERIVED_TYPE") {
            let pool: Vec<String> = self.enums.iter().map(|e| e.name.clone()).chain(self.structs.iter().map(|s| s.name.clone())).collect();
            if !pool.is_empty() {
                let n = pool[self.t.below(pool.len())].clone();
                return self.type_ref(&n);
            }
        }
        elementary
    }
    fn enum_var_init(&mut self, e: usize, constant: bool) -> (InitialValueAssignmentKind, VKind) {
        let info = self.enums[e].clone();
        let with_init = constant || self.t.flag();
        if with_init {
            let v = info.values[self.t.below(info.values.len())].clone();
            let mut value = EnumeratedValue::new(&v);
            if self.t.ratio(1, 5) && self.g.want("ENUM_INITIAL_VALUE_WITH_TYPE_PREFIX") {
                // (the prefix names a type like any other use of a type name: site of UnknownType)
                value.type_name = Some(self.type_ref(&info.name));
            }
            let mut drop_init = false;
            if self.site(FaultKind::EnumInitNotMember) {
                // a value that exists nowhere - or (same rule) a value of ANOTHER enumeration, written
                // with or without that enumeration's name as prefix: still not a value of this one
                let others: Vec<(String, String)> = self
                    .enums
                    .iter()
                    .enumerate()
                    .filter(|(k, _)| *k != e)
                    .flat_map(|(_, o)| o.values.iter().filter(|v| !info.values.iter().any(|w| w.eq_ignore_ascii_case(v))).map(|v| (o.name.clone(), v.clone())).collect::<Vec<_>>())
                    .collect();
                if !others.is_empty() && self.t_free_flag() {
                    let (oname, oval) = self.t_free_pick(&others).clone();
                    self.set_marker(&oval);
                    value = EnumeratedValue::new(&oval);
                    if self.sites.iter().sum::<usize>() % 3 != 0 && self.g.want("ENUM_INITIAL_VALUE_WITH_TYPE_PREFIX") {
                        value.type_name = Some(Type::from(oname.as_str()));
                    }
                    if let Some(p) = &mut self.planted {
                        p.site_class = format!("{}.value-of-other-enumeration", p.site_class);
                    }
                } else {
                    let m = self.marker("novalue");
                    self.set_marker(&m);
                    value = EnumeratedValue::new(&m);
                }
            }
            if constant && self.site(FaultKind::ConstNoInit) {
                drop_init = true;
            }
            self.ref_edges += 1;
            if drop_init {
                // `x : E` without initial value is late resolved
                (InitialValueAssignmentKind::LateResolvedType(Type::from(&info.name)), VKind::EnumNoInit(e))
            } else {
                (
                    InitialValueAssignmentKind::EnumeratedType(EnumeratedInitialValueAssignment { type_name: Type::from(&info.name), initial_value: Some(value) }),
                    VKind::EnumInit(e),
                )
            }
        } else {
            let ty = self.type_ref(&info.name);
            (InitialValueAssignmentKind::LateResolvedType(ty), VKind::EnumNoInit(e))
        }
    }
    /// a block of local variables (VAR / VAR_INPUT / VAR_OUTPUT); returns decls + infos
    fn var_block(&mut self, vt: VariableType, allow_fb: bool, scope: &mut Vec<VarInfo>, out: &mut Vec<VarDecl>) {
        let constant = vt == VariableType::Var && self.t.ratio(1, 4);
        let q = if constant {
            DeclarationQualifier::Constant
        } else if self.t.ratio(1, 5) {
            if self.t.flag() {
                DeclarationQualifier::Retain
            } else {
                DeclarationQualifier::NonRetain
            }
        } else {
            DeclarationQualifier::Unspecified
        };
        let n = 1 + self.t.count(0, 3);
        let base = self.cur_class.clone();
        self.cur_class = format!("{}.var", base);
        // insertion site: an extra variable of a type that is declared nowhere, with an enumerated
        // initial value (`m : T := V` - the form only the enumeration rule sees).  It needs no
        // enumeration anywhere in the unit
        if self.site(FaultKind::UnknownType) {
            let tm = self.marker("notype");
            let vm = self.marker("novalue");
            self.set_marker(&tm);
            if let Some(p) = &mut self.planted {
                p.site_class = format!("{}.inserted-enum-typed-variable", p.site_class);
            }
            let vname = self.marker("extra");
            out.push(vd(
                &vname,
                vt.clone(),
                q.clone(),
                InitialValueAssignmentKind::EnumeratedType(EnumeratedInitialValueAssignment { type_name: Type::from(tm.as_str()), initial_value: Some(EnumeratedValue::new(&vm)) }),
            ));
        }
        for _ in 0..n {
            let name = self.fresh_local();
            let choice = match self.t.below(14) {
                0..=3 => 0,
                4 | 5 => 5,
                6 => 6,
                7 => 7,
                8 => 8,
                _ => 9,
            };
            let mut declared_string = false;
            let (mut init, kind) = match choice {
                0 | 1 | 2 | 3 | 4 => {
                    let ty = self.num_type();
                    let with = constant || self.t.flag();
                    let c = if with { Some(self.elem_const(&ty)) } else { None };
                    (simple(ty.clone().into(), c), VKind::Simple(ty))
                }
                5 if !self.enums.is_empty() => {
                    let e = self.t.below(self.enums.len());
                    self.enum_var_init(e, constant)
                }
                6 if !constant && !self.structs.is_empty() => {
                    let s = self.t.below(self.structs.len());
                    let nm = self.structs[s].name.clone();
                    let ty = self.type_ref(&nm);
                    let fields = self.structs[s].fields.clone();
                    if !fields.is_empty() && self.t.ratio(1, 3) && self.g.want("STRUCT_VARIABLE_WITH_INITIALISER") {
                        // `v : S := (f := 1)`: one or two elementary fields of the structure initialised
                        // (a use of the type name like any other)
                        let k = self.t.below(fields.len());
                        let mut elements_init = vec![StructureElementInit { name: id(&fields[k].0), init: StructInitialValueAssignmentKind::Constant(self.elem_const(&fields[k].1)) }];
                        if fields.len() > 1 && self.t.flag() {
                            let k2 = (k + 1) % fields.len();
                            elements_init.push(StructureElementInit { name: id(&fields[k2].0), init: StructInitialValueAssignmentKind::Constant(self.elem_const(&fields[k2].1)) });
                        }
                        (InitialValueAssignmentKind::Structure(StructureInitializationDeclaration { type_name: ty, elements_init }), VKind::Struct(s))
                    } else {
                        (InitialValueAssignmentKind::LateResolvedType(ty), VKind::Struct(s))
                    }
                }
                7 if !constant => {
                    if !self.array_types.is_empty() && self.t.flag() {
                        let a = self.array_types[self.t.below(self.array_types.len())].clone();
                        let ty = self.type_ref(&a);
                        (InitialValueAssignmentKind::LateResolvedType(ty), VKind::ArrayT)
                    } else {
                        let et = self.array_elem_type(ElementaryTypeName::INT.into());
                        (
                            InitialValueAssignmentKind::Array(ArrayInitialValueAssignment {
                                spec: ArraySpecificationKind::Subranges(ArraySubranges { ranges: vec![self.good_subrange()], type_name: et }),
                                initial_values: vec![],
                            }),
                            VKind::ArrayInline,
                        )
                    }
                }
                8 if !self.string_types.is_empty() && self.t.flag() && self.g.want("VARIABLE_OF_DECLARED_STRING_TYPE") => {
                    // a variable of a declared string type (`x : Label;`, as a constant `x : Label := 'abc';`)
                    let st = self.string_types[self.t.below(self.string_types.len())].clone();
                    let ty = self.type_ref(&st);
                    declared_string = true;
                    if constant {
                        (simple(ty, Some(ConstantKind::CharacterString(CharacterStringLiteral::new("abc".chars().collect())))), VKind::Str)
                    } else {
                        (InitialValueAssignmentKind::LateResolvedType(ty), VKind::Str)
                    }
                }
                8 => {
                    // string variable
                    let with = constant || self.t.flag();
                    (
                        InitialValueAssignmentKind::String(StringInitializer {
                            length: if self.t.flag() { Some(uint(1 + self.t.below(40) as u128)) } else { None },
                            width: StringType::String,
                            initial_value: if with { Some("text".chars().collect()) } else { None },
                            keyword_span: SourceSpan::default(),
                        }),
                        VKind::Str,
                    )
                }
                // (an instance may also be handed in by the caller: VAR_IN_OUT, VAR_INPUT, VAR_OUTPUT)
                9 if allow_fb && !constant && !self.fbs.is_empty() && (vt == VariableType::Var || ((vt == VariableType::InOut || vt == VariableType::Input || vt == VariableType::Output) && self.g.want("INSTANCE_HANDED_IN_BY_THE_CALLER"))) => {
                    let f = self.t.below(self.fbs.len());
                    let nm = self.fbs[f].name.clone();
                    let mut ty = self.type_ref(&nm);
                    if self.site(FaultKind::StdFbType) {
                        ty = Type::from(*self.t_free_pick(&["TON", "TOF", "CTU", "R_TRIG", "SR"]));
                        self.set_marker(&ty.name.original().clone());
                    }
                    (InitialValueAssignmentKind::LateResolvedType(ty), VKind::Fb(f))
                }
                _ => {
                    let ty = self.num_type();
                    let with = constant || self.t.flag();
                    let c = if with { Some(self.elem_const(&ty)) } else { None };
                    (simple(ty.clone().into(), c), VKind::Simple(ty))
                }
            };
            // CONSTANT without initial value (documented Fails shape of P0016)
            if constant && declared_string {
                // (`x : Label` without a value is written - and parsed - as a late resolved type;
                // whether the TYPE has a default of its own makes no difference to the rule)
                if self.site(FaultKind::ConstNoInit) {
                    if let InitialValueAssignmentKind::Simple(s) = &init {
                        init = InitialValueAssignmentKind::LateResolvedType(s.type_name.clone());
                    }
                    self.set_marker(&name);
                }
            } else if constant {
                match &mut init {
                    InitialValueAssignmentKind::Simple(s) => {
                        if self.site(FaultKind::ConstNoInit) {
                            s.initial_value = None;
                            self.set_marker(&name);
                        }
                    }
                    InitialValueAssignmentKind::String(s) => {
                        if self.site(FaultKind::ConstNoInit) {
                            s.initial_value = None;
                            self.set_marker(&name);
                        }
                    }
                    InitialValueAssignmentKind::LateResolvedType(_) => {
                        // enum constant whose initial value was dropped by the planter
                        if self.planted.as_ref().map(|p| p.kind == FaultKind::ConstNoInit && p.marker.is_none()).unwrap_or(false) {
                            self.set_marker(&name);
                        }
                    }
                    _ => {}
                }
            }
            let mut qq = q.clone();
            if let (VKind::Fb(_), true) = (&kind, vt == VariableType::Var) {
                if self.site(FaultKind::ConstFb) {
                    qq = DeclarationQualifier::Constant;
                    self.set_marker(&name);
                }
            }
            if let VKind::Fb(fi) = kind {
                self.seen_insts.push((name.clone(), fi, self.cur_decl));
            }
            scope.push(VarInfo { name: name.clone(), kind });
            out.push(vd(&name, vt.clone(), qq, init));
        }
        self.cur_class = base;
    }
    fn t_free_pick<'b, T>(&self, xs: &'b [T]) -> &'b T {
        &xs[self.sites.iter().sum::<usize>() % xs.len()]
    }

    // ------------------------------------------------------------ expressions
    /// a readable numeric/boolean operand built from the scope (site of UndeclaredVar)
    fn operand(&mut self, scope: &[VarInfo], depth: usize) -> ExprKind {
        let readable: Vec<&VarInfo> = scope.iter().filter(|v| matches!(v.kind, VKind::Simple(_) | VKind::SimpleRo(_))).collect();
        match self.t.below(8) {
            0 | 1 | 2 | 3 if !readable.is_empty() => {
                let v = readable[self.t.below(readable.len())].name.clone();
                let n = self.var_use(&v);
                lb(&n)
            }
            4 => {
                // structure field
                let ss: Vec<&VarInfo> = scope.iter().filter(|v| matches!(v.kind, VKind::Struct(_))).collect();
                if let Some(v) = ss.get(self.t.below(ss.len().max(1))) {
                    if let VKind::Struct(si) = v.kind {
                        let fields = self.structs[si].fields.clone();
                        if !fields.is_empty() {
                            let f = fields[self.t.below(fields.len())].0.clone();
                            let rec = self.var_use(&v.name.clone());
                            return ExprKind::Variable(Variable::Symbolic(SymbolicVariableKind::Structured(StructuredVariable {
                                record: Box::new(SymbolicVariableKind::Named(NamedVariable { name: id(&rec) })),
                                field: id(&f),
                            })));
                        }
                    }
                }
                int_const(self.t.below(50) as u128)
            }
            5 => {
                let aa: Vec<&VarInfo> = scope.iter().filter(|v| matches!(v.kind, VKind::ArrayInline | VKind::ArrayT)).collect();
                if let Some(v) = aa.get(self.t.below(aa.len().max(1))) {
                    let arr = self.var_use(&v.name.clone());
                    let idx = if depth < 2 { self.operand(scope, depth + 1) } else { int_const(1) };
                    return ExprKind::Variable(Variable::Symbolic(SymbolicVariableKind::Array(ArrayVariable {
                        subscripted_variable: Box::new(SymbolicVariableKind::Named(NamedVariable { name: id(&arr) })),
                        subscripts: vec![idx],
                    })));
                }
                int_const(self.t.below(50) as u128)
            }
            6 if !self.funcs.is_empty() && depth < 2 => {
                let f = self.funcs[self.t.below(self.funcs.len())].clone();
                let params = (0..f.inputs).map(|_| ParamAssignmentKind::positional(self.operand(scope, depth + 1))).collect();
                self.ref_edges += 1;
                ExprKind::Function(Function { name: id(&f.name), param_assignment: params })
            }
            _ => int_const(self.t.below(100) as u128),
        }
    }
    /// use of variable `v` in a body: returns the name to spell (a marker when the fault is planted here)
    fn var_use(&mut self, v: &str) -> String {
        if self.site(FaultKind::UndeclaredVar) {
            // a name that is declared nowhere - or (other documented shape of the same rule) the
            // name of a global variable that this POU does not declare as VAR_EXTERNAL
            if !self.globals.is_empty() && self.t_free_flag() && self.g.want("UNDECLARED_USE_OF_GLOBAL_NAME") {
                let g = self.globals[self.sites.iter().sum::<usize>() % self.globals.len()].name.clone();
                if !self.cur_scope_names.iter().any(|n| n.eq_ignore_ascii_case(&g)) && !self.cur_locals.iter().any(|n| n.eq_ignore_ascii_case(&g)) {
                    self.set_marker(&g);
                    if let Some(p) = &mut self.planted {
                        p.site_class = format!("{}.global-without-external", p.site_class);
                    }
                    return g;
                }
            }
            // ... or the name of a variable that some OTHER declaration declares (scopes must not leak)
            let mut foreign: Vec<String> = self
                .local_pool
                .iter()
                .filter(|n| !self.cur_locals.iter().any(|x| x.eq_ignore_ascii_case(n)) && !self.cur_scope_names.iter().any(|x| x.eq_ignore_ascii_case(n)) && !self.globals.iter().any(|g| g.name.eq_ignore_ascii_case(n)))
                .cloned()
                .collect();
            // ... or the name of a function / function block / program / type declared earlier: a
            // declaration's name is no variable of another declaration
            foreign.extend(self.funcs.iter().map(|f| f.name.clone()));
            foreign.extend(self.fbs.iter().map(|f| f.name.clone()));
            foreign.extend(self.progs.iter().cloned());
            foreign.extend(self.enums.iter().map(|e| e.name.clone()));
            if !foreign.is_empty() && self.sites.iter().sum::<usize>() % 3 == 0 {
                let f = self.t_free_pick(&foreign).clone();
                self.set_marker(&f);
                if let Some(p) = &mut self.planted {
                    p.site_class = format!("{}.variable-of-other-declaration", p.site_class);
                }
                return f;
            }
            let m = self.marker("undeclared");
            self.set_marker(&m);
            m
        } else {
            v.to_string()
        }
    }
    fn expr(&mut self, scope: &[VarInfo], depth: usize) -> ExprKind {
        if self.p.enum_compare && self.t.ratio(1, 3) {
            // an enumeration variable compared with one of its values
            let evars: Vec<(String, usize)> = scope.iter().filter_map(|v| if let VKind::EnumInit(e) = v.kind { Some((v.name.clone(), e)) } else { None }).collect();
            if !evars.is_empty() {
                let (v, e) = evars[self.t.below(evars.len())].clone();
                let vals = self.enums[e].values.clone();
                let val = vals[self.t.below(vals.len())].clone();
                if !self.g.want("ENUM_VALUE_IN_COMPARISON") {
                    self.tainted = true;
                }
                let n = self.var_use(&v);
                let op = if self.t.flag() { CompareOp::Eq } else { CompareOp::Ne };
                return ExprKind::compare(op, lb(&n), lb(&val));
            }
        }
        if depth >= 2 || self.t.ratio(1, 2) {
            return self.operand(scope, depth);
        }
        let op = self.t.below(8);
        let l = self.expr(scope, depth + 1);
        if op >= 7 {
            return ExprKind::unary(UnaryOp::Not, l);
        }
        let r = self.expr(scope, depth + 1);
        match op {
            0 => ExprKind::binary(Operator::Add, l, r),
            1 => ExprKind::binary(Operator::Sub, l, r),
            2 => ExprKind::binary(Operator::Mul, l, r),
            3 => ExprKind::compare(CompareOp::Lt, l, r),
            4 => ExprKind::compare(CompareOp::Eq, l, r),
            5 => ExprKind::compare(CompareOp::And, l, r),
            6 => ExprKind::compare(CompareOp::Or, l, r),
            _ => ExprKind::unary(UnaryOp::Not, l),
        }
    }

    // ------------------------------------------------------------- statements
    fn fb_call(&mut self, scope: &[VarInfo]) -> Option<StmtKind> {
        let insts: Vec<(String, usize)> = scope.iter().filter_map(|v| if let VKind::Fb(f) = v.kind { Some((v.name.clone(), f)) } else { None }).collect();
        if insts.is_empty() {
            return None;
        }
        let (inst, f) = insts[self.t.below(insts.len())].clone();
        let fb = self.fbs[f].clone();
        let mut params = vec![];
        let positional = self.t.ratio(1, 3);
        let mut var_name = inst.clone();
        for (n, fi) in &insts {
            if !self.seen_insts.iter().any(|(m, _, d)| m == n && *d == self.cur_decl) {
                self.seen_insts.push((n.clone(), *fi, self.cur_decl));
            }
        }
        if self.site(FaultKind::CallNotInstance) {
            // a name that is nothing at all - or (same rule: "not a variable in scope") an instance
            // of the same type that is declared in ANOTHER declaration and not here
            let foreign: Vec<String> = self
                .seen_insts
                .iter()
                .filter(|(n, fi, d)| *fi == f && *d != self.cur_decl && !scope.iter().any(|v| v.name.eq_ignore_ascii_case(n)) && !self.cur_scope_names.iter().any(|x| x.eq_ignore_ascii_case(n)))
                .map(|(n, _, _)| n.clone())
                .collect();
            if !foreign.is_empty() && self.t_free_flag() {
                let m = self.t_free_pick(&foreign).clone();
                self.set_marker(&m);
                if let Some(p) = &mut self.planted {
                    p.site_class = format!("{}.instance-of-other-declaration", p.site_class);
                }
                var_name = m;
            } else {
                let m = self.marker("noinstance");
                self.set_marker(&m);
                var_name = m;
            }
        }
        if positional {
            for _ in 0..fb.inputs.len() {
                params.push(ParamAssignmentKind::positional(self.operand(scope, 1)));
            }
            if self.site(FaultKind::CallArgCount) {
                if params.len() <= 1 || self.t_free_flag() {
                    params.push(ParamAssignmentKind::positional(int_const(1)));
                } else {
                    params.pop();
                }
                self.set_marker(&var_name.clone());
            }
        } else {
            // formal: a subset of the inputs / in-outs, any order
            let mut names: Vec<String> = fb.inputs.iter().map(|x| x.0.clone()).chain(fb.inouts.iter().cloned()).collect();
            if names.len() > 1 && self.t.flag() {
                names.reverse();
            }
            let keep = if names.is_empty() { 0 } else { 1 + self.t.below(names.len()) };
            names.truncate(keep);
            for n in names {
                let mut pname = n.clone();
                if self.site(FaultKind::CallBadFormal) {
                    pname = self.marker("noinput");
                    self.set_marker(&var_name.clone());
                }
                params.push(ParamAssignmentKind::NamedInput(NamedInput { name: id(&pname), expr: self.operand(scope, 1) }));
            }
        }
        if !fb.inputs.is_empty() && self.site(FaultKind::CallMixed) {
            // documented Fails shape: named and positional arguments in one call
            params = vec![
                ParamAssignmentKind::NamedInput(NamedInput { name: id(&fb.inputs[0].0), expr: int_const(1) }),
                ParamAssignmentKind::positional(int_const(2)),
            ];
            self.set_marker(&var_name.clone());
        }
        // outputs
        let targets: Vec<String> = scope.iter().filter(|v| matches!(v.kind, VKind::Simple(_))).map(|v| v.name.clone()).collect();
        if !fb.outputs.is_empty() && !targets.is_empty() && self.t.flag() {
            let o = fb.outputs[self.t.below(fb.outputs.len())].0.clone();
            let tgt = targets[self.t.below(targets.len())].clone();
            let mut src = o.clone();
            if self.site(FaultKind::CallBadOutput) {
                src = self.marker("nooutput");
                self.set_marker(&var_name.clone());
            }
            let tgt = self.var_use(&tgt);
            params.push(ParamAssignmentKind::Output(Output { not: false, src: id(&src), tgt: Variable::named(&tgt) }));
        }
        self.ref_edges += 0;
        Some(StmtKind::FbCall(FbCall { var_name: id(&var_name), params, position: SourceSpan::default() }))
    }
    fn assignment(&mut self, scope: &[VarInfo], ret: Option<&str>) -> StmtKind {
        let mut targets: Vec<(String, VKind)> =
            scope.iter().filter(|v| matches!(v.kind, VKind::Simple(_) | VKind::EnumInit(_) | VKind::ArrayInline)).map(|v| (v.name.clone(), v.kind.clone())).collect();
        if let Some(r) = ret {
            targets.push((r.to_string(), VKind::Simple(ElementaryTypeName::INT)));
        }
        if targets.is_empty() {
            // nothing assignable: a harmless IF with constant condition
            return StmtKind::if_then(ExprKind::Const(ConstantKind::Boolean(BooleanLiteral::new(Boolean::True))), vec![]);
        }
        let (name, kind) = targets[self.t.below(targets.len())].clone();
        let is_ret = ret == Some(name.as_str());
        let tname = if is_ret { name.clone() } else { self.var_use(&name) };
        let value = match kind {
            VKind::EnumInit(e) => {
                let vals = self.enums[e].values.clone();
                let v = vals[self.t.below(vals.len())].clone();
                // the assigned name may also be the fault: neither a variable nor a value of any enumeration
                if self.g.want("UNDECLARED_NAME_ASSIGNED_TO_ENUMERATION_VARIABLE") && self.site(FaultKind::UndeclaredVar) {
                    let m = self.marker("novalue");
                    self.set_marker(&m);
                    if let Some(p) = &mut self.planted {
                        p.site_class = format!("{}.assigned-to-enum-variable", p.site_class);
                    }
                    lb(&m)
                } else {
                    lb(&v)
                }
            }
            VKind::ArrayInline => {
                let others: Vec<String> = scope.iter().filter(|v| matches!(v.kind, VKind::ArrayInline)).map(|v| v.name.clone()).collect();
                let o = others[self.t.below(others.len())].clone();
                let o = self.var_use(&o);
                lb(&o)
            }
            _ => self.expr(scope, 0),
        };
        StmtKind::assignment(Variable::named(&tname), value)
    }
    fn stmts(&mut self, scope: &[VarInfo], ret: Option<&str>, depth: usize, min: usize) -> Vec<StmtKind> {
        let n = min + self.t.count(0, if depth == 0 { self.p.max_stmts } else { 2 });
        let base = self.cur_class.clone();
        let mut v = vec![];
        // insertion site: an invocation of something that is no function block instance.  It needs no
        // function block anywhere in the unit (a rule that only runs "when there are function blocks"
        // would miss it)
        if self.site(FaultKind::CallNotInstance) {
            let m = self.marker("nothing");
            self.set_marker(&m);
            if let Some(p) = &mut self.planted {
                p.site_class = format!("{}.inserted-call", p.site_class);
            }
            v.push(StmtKind::FbCall(FbCall { var_name: id(&m), params: vec![], position: SourceSpan::default() }));
        }
        for _ in 0..n {
            let k = if depth >= 2 { self.t.below(4) } else { self.t.below(10) };
            let k = if k == 9 { 2 } else { k };
            let s = match k {
                0 | 1 => self.assignment(scope, ret),
                2 | 3 if k == 2 || depth >= 2 => match self.fb_call(scope) {
                    Some(s) => s,
                    None => self.assignment(scope, ret),
                },
                3 | 4 => {
                    self.cur_class = format!("{}.if", base);
                    let expr = self.expr(scope, 0);
                    let body = self.stmts(scope, ret, depth + 1, 1);
                    let else_ifs = if self.t.ratio(1, 3) { vec![ElseIf { expr: self.expr(scope, 0), body: self.stmts(scope, ret, depth + 1, 1) }] } else { vec![] };
                    let else_body = if self.t.ratio(1, 3) { self.stmts(scope, ret, depth + 1, 1) } else { vec![] };
                    StmtKind::If(If { expr, body, else_ifs, else_body })
                }
                5 => {
                    self.cur_class = format!("{}.case", base);
                    let selector = self.operand(scope, 1);
                    let ng = 1 + self.t.count(0, 2);
                    let mut groups = vec![];
                    for gi in 0..ng {
                        let sel = if self.t.flag() {
                            CaseSelectionKind::SignedInteger(sint((gi * 10) as u128 + self.t.below(5) as u128, false))
                        } else {
                            CaseSelectionKind::Subrange(self.good_subrange())
                        };
                        groups.push(CaseStatementGroup { selectors: vec![sel], statements: self.stmts(scope, ret, depth + 1, 1) });
                    }
                    let else_body = if self.t.flag() { self.stmts(scope, ret, depth + 1, 1) } else { vec![] };
                    StmtKind::Case(Case { selector, statement_groups: groups, else_body })
                }
                6 => {
                    self.cur_class = format!("{}.for", base);
                    let ints: Vec<String> = scope
                        .iter()
                        .filter(|v| matches!(&v.kind, VKind::Simple(t) if int_like(t)))
                        .map(|v| v.name.clone())
                        .collect();
                    if ints.is_empty() {
                        self.assignment(scope, ret)
                    } else {
                        let c = ints[self.t.below(ints.len())].clone();
                        StmtKind::For(For {
                            control: id(&c),
                            from: int_const(0),
                            to: self.operand(scope, 1),
                            step: if self.t.flag() { Some(int_const(1 + self.t.below(3) as u128)) } else { None },
                            body: self.stmts(scope, ret, depth + 1, 1),
                        })
                    }
                }
                7 => {
                    self.cur_class = format!("{}.while", base);
                    StmtKind::While(While { condition: self.expr(scope, 0), body: self.stmts(scope, ret, depth + 1, 1) })
                }
                _ => {
                    self.cur_class = format!("{}.repeat", base);
                    StmtKind::Repeat(Repeat { until: self.expr(scope, 0), body: self.stmts(scope, ret, depth + 1, 1) })
                }
            };
            self.cur_class = base.clone();
            v.push(s);
        }
        v
    }
    fn sfc_body(&mut self, scope: &[VarInfo]) -> FunctionBlockBodyKind {
        let base = self.cur_class.clone();
        let s0 = self.fresh();
        let ns = 1 + self.t.count(0, 2);
        let mut step_names = vec![s0.clone()];
        let mut elements = vec![];
        let mut actions = vec![];
        for _ in 0..ns {
            let sn = self.fresh();
            let an = self.fresh();
            actions.push(an.clone());
            let q = match self.t.below(4) {
                0 => None,
                1 => Some(ActionQualifier::N),
                2 => Some(ActionQualifier::S),
                _ => Some(ActionQualifier::P),
            };
            elements.push(ElementKind::Step(Step { name: id(&sn), action_associations: vec![ActionAssociation { name: id(&an), qualifier: q, indicators: vec![] }] }));
            step_names.push(sn);
        }
        for i in 0..step_names.len() {
            let from = step_names[i].clone();
            let to = step_names[(i + 1) % step_names.len()].clone();
            self.cur_class = format!("{}.sfc.transition", base);
            elements.push(ElementKind::Transition(Transition { name: None, priority: None, from: vec![id(&from)], to: vec![id(&to)], condition: self.expr(scope, 1) }));
        }
        for a in actions {
            self.cur_class = format!("{}.sfc.action", base);
            elements.push(ElementKind::Action(Action { name: id(&a), body: FunctionBlockBodyKind::stmts(self.stmts(scope, None, 1, 1)) }));
        }
        self.cur_class = base;
        FunctionBlockBodyKind::Sfc(Sfc { networks: vec![Network { initial_step: Step { name: id(&s0), action_associations: vec![] }, elements }] })
    }

    // -------------------------------------------------------------------- POUs
    fn externals(&mut self, scope: &mut Vec<VarInfo>, out: &mut Vec<VarDecl>) {
        if self.globals.is_empty() || !self.t.ratio(1, 3) {
            return;
        }
        let g = self.globals[self.t.below(self.globals.len())].clone();
        if scope.iter().any(|v| v.name.eq_ignore_ascii_case(&g.name)) {
            return;
        }
        let mut q = if g.constant { DeclarationQualifier::Constant } else { DeclarationQualifier::Unspecified };
        if g.constant && self.site(FaultKind::ExternalNotConst) {
            q = DeclarationQualifier::Unspecified;
            self.set_marker(&g.name);
        }
        self.ref_edges += 1;
        self.cur_scope_names.push(g.name.clone());
        out.push(vd(&g.name, VariableType::External, q, simple(g.ty.clone().into(), None)));
        scope.push(VarInfo { name: g.name.clone(), kind: if g.constant { VKind::SimpleRo(g.ty.clone()) } else { VKind::Simple(g.ty.clone()) } });
    }
    fn gen_fb(&mut self, out: &mut Vec<LibraryElementKind>) {
        self.new_scope();
        self.cur_decl = out.len();
        self.cur_class = "fb".into();
        let name = self.fresh();
        let mut scope = vec![];
        let mut vars = vec![];
        let mut info = FbInfo { name: name.clone(), inputs: vec![], inouts: vec![], outputs: vec![] };
        // inputs
        let ni = self.t.count(0, 3);
        for _ in 0..ni {
            let n = self.fresh_local();
            let ty = self.num_type();
            let c = if self.t.flag() { Some(self.elem_const(&ty)) } else { None };
            vars.push(vd(&n, VariableType::Input, DeclarationQualifier::Unspecified, simple(ty.clone().into(), c)));
            scope.push(VarInfo { name: n.clone(), kind: VKind::Simple(ty.clone()) });
            info.inputs.push((n, ty));
        }
        if self.t.ratio(1, 4) {
            let n = self.fresh_local();
            let ty = self.num_type();
            vars.push(vd(&n, VariableType::InOut, DeclarationQualifier::Unspecified, InitialValueAssignmentKind::LateResolvedType(ty.clone().into())));
            scope.push(VarInfo { name: n.clone(), kind: VKind::SimpleRo(ty) });
            info.inouts.push(n);
        }
        let no = self.t.count(0, 2);
        for _ in 0..no {
            let n = self.fresh_local();
            let ty = self.num_type();
            vars.push(vd(&n, VariableType::Output, DeclarationQualifier::Unspecified, simple(ty.clone().into(), None)));
            scope.push(VarInfo { name: n.clone(), kind: VKind::Simple(ty.clone()) });
            info.outputs.push((n, ty));
        }
        let nb = self.t.count(0, 2);
        for _ in 0..nb {
            self.var_block(VariableType::Var, true, &mut scope, &mut vars);
        }
        self.externals(&mut scope, &mut vars);
        let mut edges = vec![];
        if self.t.ratio(1, 6) {
            // an edge input; it is only *used* in the body behind a gate
            let n = self.fresh_local();
            edges.push(EdgeVarDecl {
                identifier: id(&n),
                direction: if self.t.flag() { EdgeDirection::Rising } else { EdgeDirection::Falling },
                qualifier: DeclarationQualifier::Unspecified,
            });
            if self.g.want("EDGE_INPUT_USED_IN_BODY") {
                scope.push(VarInfo { name: n, kind: VKind::SimpleRo(ElementaryTypeName::BOOL) });
            }
        }
        self.cur_class = "fb.body".into();
        let body = if self.p.sfc && self.t.ratio(1, 6) { self.sfc_body(&scope) } else { FunctionBlockBodyKind::stmts(self.stmts(&scope, None, 0, 1)) };
        self.fbs.push(info);
        out.push(LibraryElementKind::FunctionBlockDeclaration(FunctionBlockDeclaration {
            name: id(&name),
            variables: vars,
            edge_variables: edges,
            body,
            span: SourceSpan::default(),
        }));
    }
    fn gen_func(&mut self, out: &mut Vec<LibraryElementKind>) {
        self.new_scope();
        self.cur_decl = out.len();
        self.cur_class = "func".into();
        let name = self.fresh();
        let mut scope = vec![];
        let mut vars = vec![];
        let ni = 1 + self.t.count(0, 2);
        for _ in 0..ni {
            let n = self.fresh_local();
            let ty = self.num_type();
            vars.push(vd(&n, VariableType::Input, DeclarationQualifier::Unspecified, simple(ty.clone().into(), None)));
            scope.push(VarInfo { name: n, kind: VKind::Simple(ty) });
        }
        if self.t.flag() {
            let n = self.fresh_local();
            let ty = self.num_type();
            let c = if self.t.flag() { Some(self.elem_const(&ty)) } else { None };
            vars.push(vd(&n, VariableType::Var, DeclarationQualifier::Unspecified, simple(ty.clone().into(), c)));
            scope.push(VarInfo { name: n, kind: VKind::Simple(ty) });
        }
        if !self.fbs.is_empty() && self.t.ratio(1, 2) && self.g.want("FUNCTION_WITH_FB_IN_OUT") {
            // a function may receive a function block instance by reference and invoke it
            let n = self.fresh_local();
            let f = self.t.below(self.fbs.len());
            vars.push(vd(&n, VariableType::InOut, DeclarationQualifier::Unspecified, InitialValueAssignmentKind::LateResolvedType(Type::from(self.fbs[f].name.as_str()))));
            self.seen_insts.push((n.clone(), f, self.cur_decl));
            scope.push(VarInfo { name: n, kind: VKind::Fb(f) });
            self.ref_edges += 1;
        }
        self.cur_class = "func.body".into();
        let mut body = self.stmts(&scope, Some(&name), 0, 0);
        body.push(StmtKind::assignment(Variable::named(&name), self.expr(&scope, 0)));
        let f = FuncInfo { name: name.clone(), inputs: ni };
        // the result type: elementary, or (a quarter of the time) an enumeration or structure declared
        // earlier - a use of a type like any other (site of UnknownType)
        let rt0: Type = self.num_type().into();
        let return_type = if self.g.want("FUNCTION_RESULT_OF_DERIVED_TYPE") && self.t.ratio(1, 4) {
            let pool: Vec<String> = self.enums.iter().map(|e| e.name.clone()).chain(self.structs.iter().map(|s| s.name.clone())).collect();
            if pool.is_empty() {
                rt0
            } else {
                let n = pool[self.t.below(pool.len())].clone();
                self.cur_class = "func.result".into();
                self.type_ref(&n)
            }
        } else {
            rt0
        };
        out.push(LibraryElementKind::FunctionDeclaration(FunctionDeclaration {
            name: id(&name),
            return_type,
            variables: vars,
            edge_variables: vec![],
            body,
        }));
        self.funcs.push(f);
    }
    fn gen_prog(&mut self, out: &mut Vec<LibraryElementKind>) {
        self.new_scope();
        self.cur_decl = out.len();
        self.cur_class = "prog".into();
        let name = self.fresh();
        let mut scope = vec![];
        let mut vars = vec![];
        let nb = 1 + self.t.count(0, 2);
        for _ in 0..nb {
            let vt = match self.t.below(4) {
                0 => VariableType::Input,
                1 => VariableType::Output,
                _ => VariableType::Var,
            };
            self.var_block(vt, true, &mut scope, &mut vars);
        }
        if self.t.ratio(1, 4) {
            // located variables
            let n = self.fresh_local();
            vars.push(VarDecl {
                identifier: VariableIdentifier::Direct(DirectVariableIdentifier {
                    name: Some(id(&n)),
                    address_assignment: AddressAssignment {
                        location: if self.t.flag() { LocationPrefix::I } else { LocationPrefix::Q },
                        size: SizePrefix::X,
                        address: vec![self.t.below(8) as u32, self.t.below(8) as u32],
                        position: SourceSpan::default(),
                    },
                    span: SourceSpan::default(),
                }),
                var_type: VariableType::Var,
                qualifier: DeclarationQualifier::Unspecified,
                initializer: simple(ElementaryTypeName::BOOL.into(), None),
            });
            scope.push(VarInfo { name: n, kind: VKind::Simple(ElementaryTypeName::BOOL) });
        }
        if self.t.ratio(1, 4) && self.g.want("CONSTANT_LOCATED_VARIABLE") {
            // a CONSTANT located variable, with or WITHOUT a name of its own (`AT %IX1.0 : BOOL := TRUE;`):
            // it needs its initial value like any other constant
            let anonymous = self.t.flag();
            let n = self.fresh_local();
            let ty = ElementaryTypeName::BOOL;
            let mut init = Some(self.elem_const(&ty));
            self.cur_class = "prog.located-constant".into();
            if self.site(FaultKind::ConstNoInit) {
                init = None;
                if !anonymous {
                    self.set_marker(&n);
                }
            }
            vars.push(VarDecl {
                identifier: VariableIdentifier::Direct(DirectVariableIdentifier {
                    name: if anonymous { None } else { Some(id(&n)) },
                    address_assignment: AddressAssignment {
                        location: LocationPrefix::I,
                        size: SizePrefix::X,
                        address: vec![8 + self.t.below(8) as u32, self.t.below(8) as u32],
                        position: SourceSpan::default(),
                    },
                    span: SourceSpan::default(),
                }),
                var_type: VariableType::Var,
                qualifier: DeclarationQualifier::Constant,
                initializer: simple(ty.into(), init),
            });
            self.cur_class = "prog".into();
        }
        self.externals(&mut scope, &mut vars);
        self.cur_class = "prog.body".into();
        let body = if self.p.sfc && self.t.ratio(1, 6) { self.sfc_body(&scope) } else { FunctionBlockBodyKind::stmts(self.stmts(&scope, None, 0, 1)) };
        self.progs.push(name.clone());
        self.prog_insts.push((name.clone(), scope.iter().filter_map(|v| if let VKind::Fb(f) = v.kind { Some((v.name.clone(), f)) } else { None }).collect()));
        // access paths to variables of the program (`VAR_ACCESS a : v : T READ_ONLY; END_VAR`): the type
        // is written out, a use of a type name like any other
        let mut access_variables = vec![];
        if self.t.ratio(1, 5) && self.g.want("PROGRAM_ACCESS_VARIABLES") {
            self.cur_class = "prog.access".into();
            let cands: Vec<VarInfo> = scope.iter().filter(|v| matches!(v.kind, VKind::Simple(_) | VKind::EnumInit(_) | VKind::EnumNoInit(_) | VKind::Struct(_))).cloned().collect();
            let na = if cands.is_empty() { 0 } else { 1 + self.t.count(0, 1) };
            for _ in 0..na {
                let v = cands[self.t.below(cands.len())].clone();
                let ty = match &v.kind {
                    VKind::Simple(t) => t.clone().into(),
                    VKind::EnumInit(e) | VKind::EnumNoInit(e) => {
                        let n = self.enums[*e].name.clone();
                        self.type_ref(&n)
                    }
                    VKind::Struct(si) => {
                        let n = self.structs[*si].name.clone();
                        self.type_ref(&n)
                    }
                    _ => unreachable!(),
                };
                let an = self.fresh_local();
                access_variables.push(ProgramAccessDecl {
                    access_name: id(&an),
                    symbolic_variable: SymbolicVariableKind::Named(NamedVariable { name: id(&v.name) }),
                    type_name: ty,
                    direction: match self.t.below(3) {
                        0 => None,
                        1 => Some(Direction::ReadOnly),
                        _ => Some(Direction::ReadWrite),
                    },
                });
            }
        }
        out.push(LibraryElementKind::ProgramDeclaration(ProgramDeclaration { name: id(&name), variables: vars, access_variables, body }));
    }
    fn plan_globals(&mut self) {
        if !self.p.config || !self.t.ratio(2, 3) {
            return;
        }
        let constant = self.t.flag();
        let n = 1 + self.t.count(0, 2);
        for _ in 0..n {
            let name = self.fresh();
            let ty = self.num_type();
            let at_resource = self.t.ratio(1, 3);
            self.local_pool.push(name.clone());
            self.globals.push(GlobalInfo { name, ty, constant, at_resource });
        }
    }
    fn gen_config(&mut self, out: &mut Vec<LibraryElementKind>) {
        self.cur_decl = out.len();
        self.cur_class = "config".into();
        let mut name = self.fresh();
        // a configuration may be named like a declared data type (another kind of declaration,
        // never referenced by name; letter case may differ): nothing about the unit changes
        {
            let mut tn: Vec<String> = self.enums.iter().map(|e| e.name.clone()).collect();
            tn.extend(self.structs.iter().map(|e| e.name.clone()));
            tn.extend(self.array_types.iter().cloned());
            if !tn.is_empty() && self.t.ratio(1, 4) && self.g.want("CONFIGURATION_NAMED_LIKE_A_TYPE") {
                let c = tn[self.t.below(tn.len())].clone();
                name = match self.t.below(3) {
                    0 => c.to_ascii_uppercase(),
                    1 => c.to_ascii_lowercase(),
                    _ => c,
                };
            }
        }
        let mut global_var = vec![];
        let mut resource_globals = vec![];
        for g in self.globals.clone() {
            let c = Some(self.elem_const(&g.ty));
            let dst = if g.at_resource { &mut resource_globals } else { &mut global_var };
            dst.push(vd(&g.name, VariableType::Global, if g.constant { DeclarationQualifier::Constant } else { DeclarationQualifier::Unspecified }, simple(g.ty.clone().into(), c)));
        }
        // one configuration (with its single resource - the parser has a TODO for several),
        // sometimes two; a task is local to its resource
        let nres = if self.t.ratio(1, 3) && self.g.want("SEVERAL_CONFIGURATIONS") { 2 } else { 1 };
        let mut task_names: Vec<Vec<String>> = vec![];
        // names that are local to a configuration (resource, resource type, task, program instance)
        // may be the same in both configurations: one CPU layout copied for a second line
        let reuse = nres == 2 && self.t.ratio(1, 2) && self.g.want("CONFIGURATION_LOCAL_NAMES_REUSED");
        for r in 0..nres {
            let nt = self.t.count(0, 2);
            let mut v: Vec<String> = vec![];
            for k in 0..nt {
                let first: Option<String> = if r == 1 && reuse { task_names[0].get(k).cloned() } else { None };
                match first {
                    Some(f) if self.t.ratio(2, 3) => v.push(f),
                    _ => v.push(self.fresh()),
                }
            }
            task_names.push(v);
        }
        let mut first_names: Option<(String, String, Vec<String>)> = None;
        for r in 0..nres {
            self.cur_decl = out.len();
            let tasks: Vec<TaskConfiguration> = task_names[r]
                .clone()
                .iter()
                .map(|n| TaskConfiguration {
                    name: id(n),
                    priority: self.t.below(10) as u32,
                    interval: if self.t.flag() {
                        Some(DurationLiteral { span: SourceSpan::default(), interval: time::Duration::milliseconds(10 * (1 + self.t.below(100) as i64)) })
                    } else {
                        None
                    },
                })
                .collect();
            let mut programs = vec![];
            let np = 1 + self.t.count(0, 1);
            let mut pnames_here: Vec<String> = vec![];
            for pk in 0..np {
                let reused: Option<String> = if r == 1 && reuse { first_names.as_ref().and_then(|f| f.2.get(pk).cloned()) } else { None };
                let pname = match reused {
                    Some(n) => n,
                    None => self.fresh(),
                };
                pnames_here.push(pname.clone());
                let ty = if self.progs.is_empty() { self.fresh() } else { self.progs[self.t.below(self.progs.len())].clone() };
                let mut task_name = if !tasks.is_empty() && self.t.ratio(2, 3) { Some(tasks[self.t.below(tasks.len())].name.clone()) } else { None };
                if self.site(FaultKind::TaskUndefined) {
                    // a task that exists nowhere - or (same rule) a task of the *other* resource
                    let foreign: Vec<String> = task_names.iter().enumerate().filter(|(k, _)| *k != r).flat_map(|(_, v)| v.iter().cloned()).filter(|n| !task_names[r].contains(n)).collect();
                    if !foreign.is_empty() && self.t_free_flag() {
                        let f = foreign[self.sites.iter().sum::<usize>() % foreign.len()].clone();
                        self.set_marker(&f);
                        if let Some(p) = &mut self.planted {
                            p.site_class = format!("{}.task-of-other-configuration", p.site_class);
                        }
                        task_name = Some(id(&f));
                    } else {
                        let m = self.marker("notask");
                        self.set_marker(&m);
                        task_name = Some(id(&m));
                    }
                }
                programs.push(ProgramConfiguration { name: id(&pname), storage: None, task_name, type_name: id(&ty), fb_tasks: vec![], sources: vec![], sinks: vec![] });
            }
            let (rname, ron) = match (&first_names, r == 1 && reuse) {
                (Some(f), true) => (f.0.clone(), f.1.clone()),
                _ => (self.fresh(), self.fresh()),
            };
            if r == 0 {
                first_names = Some((rname.clone(), ron.clone(), pnames_here.clone()));
            }
            // initial values for function block instances of the programs (`VAR_CONFIG res.prog.inst : FB
            // := (input := 1); END_VAR`): the block's type is written out, a use of a type name
            let mut fb_inits = vec![];
            if self.g.want("CONFIGURATION_FB_INIT") {
                for pc in programs.iter() {
                    let insts: Vec<(String, usize)> = self.prog_insts.iter().find(|(n, _)| n.eq_ignore_ascii_case(pc.type_name.original())).map(|(_, v)| v.clone()).unwrap_or_default();
                    let insts: Vec<(String, usize)> = insts.into_iter().filter(|(_, f)| !self.fbs[*f].inputs.is_empty()).collect();
                    if !insts.is_empty() && self.t.ratio(1, 3) {
                        let (inst, f) = insts[self.t.below(insts.len())].clone();
                        let fb = self.fbs[f].clone();
                        let (iname, ity) = fb.inputs[self.t.below(fb.inputs.len())].clone();
                        let ty = self.type_ref(&fb.name);
                        let c = self.elem_const(&ity);
                        fb_inits.push(FunctionBlockInit {
                            resource_name: id(&rname),
                            program_name: pc.name.clone(),
                            // (the parser keeps the whole instance path in `fb_path` and leaves `fb_name` empty)
                            fb_path: vec![id(&inst)],
                            fb_name: id(""),
                            type_name: ty,
                            initializer: vec![StructureElementInit { name: id(&iname), init: StructInitialValueAssignmentKind::Constant(c) }],
                        });
                    }
                }
            }
            let cname = if r == 0 { name.clone() } else { self.fresh() };
            out.push(LibraryElementKind::ConfigurationDeclaration(ConfigurationDeclaration {
                name: id(&cname),
                global_var: if r == 0 { std::mem::take(&mut global_var) } else { vec![] },
                resource_decl: vec![ResourceDeclaration { name: id(&rname), resource: id(&ron), global_vars: if r == 0 { std::mem::take(&mut resource_globals) } else { vec![] }, tasks, programs }],
                fb_inits,
                located_var_inits: vec![],
            }));
        }
    }
}

/// Generates one unit.  `fault`: plant the k-th site of the kind (None = valid program).
pub fn gen_unit_with(t: &mut Tape, gates: &Gates, profile: &Profile, fault: Option<(FaultKind, usize)>) -> Unit {
    gen_unit_multi(t, gates, profile, fault.into_iter().collect())
}

pub fn gen_unit_multi(t: &mut Tape, gates: &Gates, profile: &Profile, fault: Vec<(FaultKind, usize)>) -> Unit {
    let mut g = VGen {
        t,
        g: gates,
        p: profile.clone(),
        names: {
            let mut n = Names::new();
            n.prefix = profile.prefix.clone();
            n
        },
        fault,
        sites: [0; 16],
        planted: None,
        planted_all: vec![],
        enums: vec![],
        structs: vec![],
        array_types: vec![],
        string_types: vec![],
        fbs: vec![],
        funcs: vec![],
        globals: vec![],
        progs: vec![],
        prog_insts: vec![],
        cur_decl: 0,
        cur_class: String::new(),
        ref_edges: 0,
        marker_n: 0,
        cur_scope_names: vec![],
        cur_locals: vec![],
        local_pool: vec![],
        seen_insts: vec![],
        tainted: false,
    };
    let mut out = vec![];
    g.plan_globals();
    g.gen_types(&mut out);
    let cap = if profile.max_decls == 0 { usize::MAX } else { profile.max_decls };
    let want_config = !g.globals.is_empty();
    let room = |out: &Vec<LibraryElementKind>| out.len() + if want_config { 1 } else { 0 } < cap;
    let nf = g.t.count(0, profile.max_funcs);
    for _ in 0..nf {
        if room(&out) {
            g.gen_func(&mut out);
        }
    }
    let nfb = g.t.count(0, profile.max_fbs);
    for _ in 0..nfb {
        if room(&out) {
            g.gen_fb(&mut out);
        }
    }
    // sometimes one more function after the function blocks (it can take an instance by reference)
    if nfb > 0 && profile.max_funcs > 0 && room(&out) && g.t.ratio(1, 2) {
        g.gen_func(&mut out);
    }
    let np = g.t.count(if out.is_empty() { 1 } else { 0 }, profile.max_progs);
    for _ in 0..np {
        if room(&out) || out.is_empty() {
            g.gen_prog(&mut out);
        }
    }
    if want_config || (profile.config && g.t.ratio(1, 3) && out.len() < cap) {
        g.gen_config(&mut out);
    }
    let mut all = g.planted_all;
    if let Some(p) = g.planted.clone() {
        all.push(p);
    }
    Unit { lib: Library { elements: out }, sites: g.sites, planted: g.planted, planted_all: all, ref_edges: g.ref_edges, tainted: g.tainted }
}

pub fn gen_unit(t: &mut Tape, gates: &Gates, profile: &Profile) -> Unit {
    gen_unit_with(t, gates, profile, None)
}

/// A unit with one planted fault of the given kind: units are drawn from tapes derived from
/// `base` until one has a site for the kind (consumers that pick "a fault of the unit" otherwise
/// see the common kinds almost always and the rare ones almost never).
pub fn unit_with_fault_of(kind: FaultKind, base: &[u8], gates: &Gates, profile: &Profile) -> Option<Unit> {
    for attempt in 0..64u8 {
        let mut key = base.to_vec();
        key.push(attempt);
        let sub = crate::tape::derived(&key, 160);
        let unit = gen_unit(&mut Tape::new(&sub), gates, profile);
        let n = unit.sites[kind.index()];
        if n == 0 {
            continue;
        }
        let site = (crate::tape::fnv(&sub) % n as u64) as usize;
        let fu = gen_unit_with(&mut Tape::new(&sub), gates, profile, Some((kind, site)));
        if fu.planted.is_some() {
            return Some(fu);
        }
    }
    None
}

pub fn lower(u: &Unit) -> Library {
    u.lib.clone()
}

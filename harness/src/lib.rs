#![allow(dead_code)]
//! vcheck – entry point of the ironplc verification harness.
//!
//!   vcheck <ID> [--tier quick|thorough] [--replay <file>]
//!   vcheck gen [--seed N] [--wild]        print a generated program (debug aid)
//!   vcheck parse <file>                   parse a file and dump the library (debug aid)

pub mod astwalk;
pub mod drive;
pub mod fuzzrun;
pub mod gates;
pub mod gen_syntax;
pub mod gen_valid;
pub mod lexeme;
pub mod names;
pub mod panicx;
pub mod printer;
pub mod props;
pub mod report;
pub mod runner;
pub mod tape;
pub mod textgrid;

use gates::Gates;
use report::Finding;
use runner::Tier;

pub struct Ctx {
    pub seed: u64,
    pub tier: Tier,
    pub threads: usize,
    pub findings: Vec<Finding>,
    pub replay_path: Option<String>,
    pub all_gates_on: bool,
}

impl Ctx {
    pub fn gates(&self) -> Gates {
        self.gates_for("")
    }
    /// gates switched off for property `prop`: those of every `known` finding whose scope is
    /// "all" (default: a defect of a shared front-end stage is excluded from every generator)
    /// plus those of the property's own findings
    pub fn gates_for(&self, prop: &str) -> Gates {
        if self.all_gates_on {
            Gates::all_on()
        } else {
            Gates::with_off(report::gates_off(&self.findings, prop))
        }
    }
}

pub fn cli_main() {
    let args: Vec<String> = std::env::args().skip(1).collect();
    if args.is_empty() {
        eprintln!("usage: vcheck <ID>|gen|parse ...");
        std::process::exit(2);
    }
    let mut tier = match std::env::var("VERIF_TIER").ok().as_deref() {
        Some("thorough") => Tier::Thorough,
        _ => Tier::Quick,
    };
    let mut replay: Option<String> = None;
    let mut seed: u64 = std::env::var("VERIF_SEED").ok().and_then(|s| s.parse().ok()).unwrap_or(1);
    let mut rest = vec![];
    let mut all_on = std::env::var("VERIF_ALL_GATES").is_ok();
    let mut i = 1;
    while i < args.len() {
        match args[i].as_str() {
            "--tier" => {
                i += 1;
                tier = if args.get(i).map(|s| s.as_str()) == Some("thorough") { Tier::Thorough } else { Tier::Quick };
            }
            "--replay" => {
                i += 1;
                replay = args.get(i).cloned();
            }
            "--seed" => {
                i += 1;
                seed = args.get(i).and_then(|s| s.parse().ok()).unwrap_or(1);
            }
            "--all-gates" => all_on = true,
            x => rest.push(x.to_string()),
        }
        i += 1;
    }
    let threads = std::thread::available_parallelism().map(|n| n.get()).unwrap_or(8).min(16);
    let ctx = Ctx { seed, tier, threads, findings: report::load_findings(), replay_path: replay.clone(), all_gates_on: all_on };
    // panics of the code under test are caught where a property expects them; keep the default
    // hook quiet so that logs stay readable
    panicx::install_hook();
    let cmd = args[0].as_str();
    let code = match cmd {
        "worker" => props::c04::worker_main(),
        "gen" => {
            debug_gen(&ctx, rest.iter().any(|x| x == "--wild"));
            0
        }
        "faults" => {
            // debug aid: per fault kind, how often a unit with a site is found and which codes the
            // in-process analysis answers with
            let gates = ctx.gates_for("C13");
            let mut big = gen_valid::Profile::default();
            big.max_progs = 1;
            big.sfc = false;
            for kd in gen_valid::ALL_FAULTS.iter() {
                let mut found = 0;
                let mut codes: std::collections::BTreeMap<String, usize> = Default::default();
                for k in 0..200u32 {
                    if let Some(fu) = gen_valid::unit_with_fault_of(*kd, &k.to_le_bytes(), &gates, &big) {
                        found += 1;
                        let text = props::c02::spell_unit(&fu, &gates);
                        let c = match props::c02::analyze_text(&text, "x.st").0 {
                            props::c02::Verdict::Ok => "ok".to_string(),
                            props::c02::Verdict::Err(ds) => {
                                let mut v = props::c02::codes_of(&ds);
                                v.dedup();
                                v.join("+")
                            }
                            props::c02::Verdict::ParseErr(e) => format!("parse:{}", &e[..e.len().min(40)]),
                            props::c02::Verdict::Panic(_) => "panic".to_string(),
                        };
                        *codes.entry(c).or_insert(0) += 1;
                    }
                }
                println!("{:?} ({}): found {}/200 {:?}", kd, kd.code(), found, codes);
            }
            0
        }
        "parse" => {
            let text = std::fs::read_to_string(&rest[0]).expect("read");
            let r = ironplc_parser::parse_program(&text, &ironplc_dsl::core::FileId::from_string(&rest[0]), &Default::default());
            println!("{:#?}", r);
            0
        }
        "census" => {
            // debug aid: words of the text that are the span of no Id of the parsed library
            let text = std::fs::read_to_string(&rest[0]).expect("read");
            match ironplc_parser::parse_program(&text, &ironplc_dsl::core::FileId::from_string(&rest[0]), &Default::default()) {
                Err(d) => println!("rejected: {} at {}..{}", d.primary.message, d.primary.location.start, d.primary.location.end),
                Ok(lib) => {
                    let ids = astwalk::collect_ids(&lib);
                    let starts: std::collections::HashSet<usize> = ids.iter().map(|x| x.1).collect();
                    let b = text.as_bytes();
                    let mut i = 0;
                    let mut missing = vec![];
                    while i < b.len() {
                        if b[i].is_ascii_alphabetic() || b[i] == b'_' {
                            let s0 = i;
                            while i < b.len() && (b[i].is_ascii_alphanumeric() || b[i] == b'_') {
                                i += 1;
                            }
                            let w = &text[s0..i];
                            if !starts.contains(&s0) && w.chars().any(|c| c.is_ascii_lowercase()) {
                                missing.push(w.to_string());
                            }
                        } else {
                            i += 1;
                        }
                    }
                    println!("accepted; lower-case words that are no Id: {:?}", missing);
                }
            }
            0
        }
        id => {
            if let Some(path) = &replay {
                let v: serde_json::Value = serde_json::from_str(&std::fs::read_to_string(path).expect("read replay")).expect("replay json");
                props::replay(id, &ctx, &v)
            } else {
                props::run(id, &ctx)
            }
        }
    };
    std::process::exit(code);
}

fn debug_gen(ctx: &Ctx, wild: bool) {
    // deterministic pseudo-random tape from the seed (debug aid only)
    let mut tape = vec![];
    let mut z = ctx.seed;
    for _ in 0..600 {
        z = tape::mix(z);
        tape.push((z >> 24) as u8);
    }
    let gates = ctx.gates();
    let opts = if wild { lexeme::SpellOpts::wild() } else { lexeme::SpellOpts::mild() };
    let case = props::c01::build(&tape, &gates, &opts, 4);
    println!("{}", case.text);
    match props::c01::compare(&case.lib, &case.text) {
        Ok(()) => eprintln!("-- parses to the expected library"),
        Err((k, d)) => eprintln!("-- {}: {}", k, d),
    }
}

//! Lexeme stream and layout.  The harness *prints* every program it tests, so
//! it knows – without lexing anything – where each lexeme and each piece of
//! trivia is.  That knowledge is the "independent lexical classification" used
//! by C05 / C08 / C15.

use crate::tape::Tape;

#[derive(Clone, Copy, Debug, PartialEq, Eq, Hash)]
pub enum Class {
    /// keyword the lexer knows (case-insensitive in IEC 61131-3)
    Keyword,
    /// elementary type name keyword (INT, BOOL, TIME, STRING ...)
    TypeKw,
    /// word operator (AND OR XOR MOD NOT)
    WordOp,
    /// keyword the grammar matches by text (INTERVAL, PRIORITY, N, SD, d, ms, T ...)
    TextKw,
    Ident,
    Number,
    Str,
    Punct,
    /// symbolic operator (+ - * / ** = <> < > <= >= & := =>)
    Op,
    Address,
}

#[derive(Clone, Copy, Debug, PartialEq, Eq)]
pub enum Join {
    /// start of file
    First,
    /// no white space permitted by IEC 61131-3 (inside a literal)
    Glue,
    /// canonical spelling has nothing here, IEC permits white space
    Tight,
    /// canonical spelling has one blank
    Space,
    /// canonical spelling has a line break
    Line,
}

#[derive(Clone, Debug)]
pub struct Lexeme {
    pub text: String,
    pub class: Class,
    pub join: Join,
    /// marker the generator may attach (fault site, construct name ...)
    pub mark: Option<&'static str>,
}

#[derive(Clone, Debug, PartialEq, Eq)]
pub enum TriviaKind {
    Blank,
    Newline,
    Comment,
}

#[derive(Clone, Debug)]
pub struct Piece {
    pub start: usize,
    pub end: usize,
    pub line: usize,
    /// column of the start in bytes / chars / utf16 units
    pub col_bytes: usize,
    pub col_chars: usize,
    pub col_utf16: usize,
    /// Some(index into lexemes) for a lexeme, None for trivia
    pub lexeme: Option<usize>,
    pub trivia: Option<TriviaKind>,
}

#[derive(Clone, Debug, Default)]
pub struct Layout {
    pub text: String,
    pub pieces: Vec<Piece>,
}

#[derive(Clone, Debug)]
pub struct SpellOpts {
    /// respell keyword case
    pub kw_case: bool,
    /// respell text-matched keyword case (INTERVAL, N, ms, T# ...)
    pub textkw_case: bool,
    /// respell identifier case per occurrence
    pub ident_case: bool,
    /// random trivia at joints (else canonical)
    pub trivia: bool,
    pub comments: bool,
    pub crlf: bool,
    pub formfeed: bool,
    pub non_ascii: bool,
    /// trivia at joints whose canonical spelling has none
    pub tight_trivia: bool,
    /// comment bodies that end in a run of '*' before the closing ')'
    pub star_comments: bool,
    /// `// ...` comments to the end of the line (the lexer of this code base knows them)
    pub line_comments: bool,
    /// no white space at all between two lexemes that cannot run together (`S=TRUE`, `a:=b;c:=d;`)
    pub touch: bool,
    /// blanks only (no line breaks / comments) – mild C01 spelling
    pub mild: bool,
    /// comments that look like OSCAT description markers / blocks (text preprocessor): 0 = none so
    /// far (lone END markers and whole blocks with blank bodies allowed), 1 = a lone DESCRIPTION
    /// marker was written (only further lone DESCRIPTION markers are safe), 255 = feature off
    pub oscat_phase: std::cell::Cell<u8>,
}

impl SpellOpts {
    pub fn canonical() -> Self {
        SpellOpts {
            kw_case: false,
            textkw_case: false,
            ident_case: false,
            trivia: false,
            comments: false,
            crlf: false,
            formfeed: false,
            non_ascii: false,
            tight_trivia: false,
            star_comments: false,
            line_comments: false,
            touch: false,
            mild: false,
            oscat_phase: std::cell::Cell::new(255),
        }
    }
    pub fn mild() -> Self {
        SpellOpts { trivia: true, mild: true, ..Self::canonical() }
    }
    pub fn wild() -> Self {
        SpellOpts {
            kw_case: true,
            textkw_case: false,
            ident_case: true,
            trivia: true,
            comments: true,
            crlf: true,
            formfeed: false,
            non_ascii: true,
            tight_trivia: false,
            // (comments whose text ends in a run of stars: KF-C08-02, repaired)
            star_comments: true,
            line_comments: false,
            touch: false,
            mild: false,
            oscat_phase: std::cell::Cell::new(0),
        }
    }
}

fn respell_case(s: &str, t: &mut Tape) -> String {
    match t.below(4) {
        0 => s.to_string(),
        1 => s.to_ascii_lowercase(),
        2 => s.to_ascii_uppercase(),
        _ => {
            let mut out = String::with_capacity(s.len());
            let mut bits = t.u16() as u32 | 0x10000;
            for c in s.chars() {
                if bits & 1 == 1 {
                    out.push(c.to_ascii_uppercase())
                } else {
                    out.push(c.to_ascii_lowercase())
                }
                bits >>= 1;
                if bits <= 1 {
                    bits = t.u16() as u32 | 0x10000;
                }
            }
            out
        }
    }
}

const COMMENT_BODIES: &[&str] = &[
    "", " ", " c ", "x", " a comment ", " ( nested-looking ) ", " (not (* really ", " a * b ", " ** ",
    " IF x THEN ", " END_IF ", " ; ", " 'str' ", " \"s\" ", " 1..2 ", " := ", " % ", " ? ", " // ",
    // characters that mean something to other languages' preprocessors (pragmas, C comments)
    " { ", " } ", "{", "}", " {x} ", " /* ", " */ ", " # ", " @KEY@ ",
];
pub const OSCAT_OPEN_MARK: &str = "(*@KEY@:DESCRIPTION*)";
pub const OSCAT_CLOSE_MARK: &str = "(*@KEY@:END_DESCRIPTION*)";
const NON_ASCII_BODIES: &[&str] = &[" é ", " ÄÖÜ ", " €uro ", " ß→∑ ", " 漢字 ", " 😀 ", " a\u{a0}b ", " x\u{200b}y ", "\u{3000}", " \u{feff} "];

fn comment(t: &mut Tape, o: &SpellOpts) -> String {
    // comments that are OSCAT description markers (the text preprocessor blanks from the first
    // DESCRIPTION marker to the first END_DESCRIPTION marker after it): only arrangements that
    // remove no code are written - lone END markers and whole blocks with a blank body first, then
    // lone DESCRIPTION markers
    let phase = o.oscat_phase.get();
    if phase != 255 && t.ratio(1, 14) {
        if phase == 0 {
            match t.below(4) {
                0 => return OSCAT_CLOSE_MARK.to_string(),
                1 | 2 => {
                    let body = *t.pick(&["", " ", "\n", "  \n ", "(* d *)", " (* version 1 *)\n"]);
                    return format!("{}{}{}", OSCAT_OPEN_MARK, body, OSCAT_CLOSE_MARK);
                }
                _ => {
                    o.oscat_phase.set(1);
                    return OSCAT_OPEN_MARK.to_string();
                }
            }
        } else {
            return OSCAT_OPEN_MARK.to_string();
        }
    }
    let mut body = String::new();
    let n = 1 + t.below(2);
    for _ in 0..n {
        if o.non_ascii && t.ratio(1, 5) {
            body.push_str(*t.pick(NON_ASCII_BODIES));
        } else {
            body.push_str(*t.pick(COMMENT_BODIES));
        }
        if t.ratio(1, 4) {
            body.push_str(if o.crlf && t.flag() { "\r\n" } else { "\n" });
            body.push_str(*t.pick(COMMENT_BODIES));
        }
    }
    // a body must not contain the terminator; it may end in a run of stars (`(* x **)`, `(***)`)
    let mut body = body.replace("*)", "* )");
    if o.star_comments && t.ratio(1, 3) {
        let k = 1 + t.below(3);
        for _ in 0..k {
            body.push('*');
        }
    } else {
        while body.ends_with('*') {
            body.push(' ');
        }
    }
    format!("(*{}*)", body)
}

/// may `next` follow `prev` without anything between them?  Not when both ends are word-like (they
/// would be one word) and not when the two characters form a lexeme or open a comment
pub fn can_touch(prev: &str, next: &str) -> bool {
    let (a, b) = match (prev.chars().last(), next.chars().next()) {
        (Some(a), Some(b)) => (a, b),
        _ => return false,
    };
    let wordish = |c: char| c.is_alphanumeric() || matches!(c, '_' | '#' | '%' | '\'' | '"' | '$' | '.') || !c.is_ascii();
    if wordish(a) && wordish(b) {
        return false;
    }
    // a sign directly in front of a number is a different lexeme stream in some positions
    if matches!(a, '-' | '+') && b.is_ascii_digit() {
        return false;
    }
    !matches!((a, b), ('(', '*') | ('*', ')') | ('*', '*') | (':', '=') | ('=', '>') | ('<', '=') | ('<', '>') | ('>', '=') | ('.', '.') | ('/', '/') | ('/', '*') | ('*', '/') | ('&', '&') | ('=', '=') | ('{', _) | (_, '}'))
}

fn trivia(t: &mut Tape, o: &SpellOpts, canonical: &str, may_be_empty: bool) -> String {
    if !o.trivia {
        return canonical.to_string();
    }
    if o.touch && may_be_empty && !canonical.is_empty() && !o.mild && t.ratio(1, 3) {
        return String::new();
    }
    if o.mild {
        return match t.below(4) {
            0 => canonical.to_string(),
            1 => {
                if may_be_empty {
                    canonical.to_string()
                } else {
                    "  ".to_string()
                }
            }
            2 => {
                if may_be_empty {
                    canonical.to_string()
                } else {
                    "\n".to_string()
                }
            }
            _ => {
                if may_be_empty {
                    canonical.to_string()
                } else {
                    " \t ".to_string()
                }
            }
        };
    }
    let sel = t.below(10);
    if sel < 4 {
        return canonical.to_string();
    }
    let mut s = String::new();
    let n = 1 + t.below(3);
    for _ in 0..n {
        match t.below(8) {
            0 => s.push(' '),
            1 => s.push('\t'),
            2 => s.push('\n'),
            3 => {
                if o.crlf {
                    s.push_str("\r\n")
                } else {
                    s.push('\n')
                }
            }
            4 => {
                if o.formfeed {
                    s.push('\u{c}')
                } else {
                    s.push_str("  ")
                }
            }
            5 | 6 => {
                if o.comments && o.line_comments && t.ratio(1, 5) {
                    // a comment to the end of the line; its text may look like anything but a pragma
                    // or an OSCAT marker (those are the text preprocessor's business)
                    let body = if o.non_ascii && t.ratio(1, 4) { *t.pick(NON_ASCII_BODIES) } else { *t.pick(&["", " ", " note", " x := 1;", " (* not a block comment", " *) ", " 'quote", " END_IF", " // again", "/", " a * b "]) };
                    // (a blank first: directly behind the operator `/` the lexer would - rightly - read `///`)
                    s.push_str(" //");
                    s.push_str(body);
                    s.push_str(if o.crlf && t.flag() { "\r\n" } else { "\n" });
                } else if o.comments {
                    s.push_str(&comment(t, o))
                } else {
                    s.push(' ')
                }
            }
            _ => s.push_str("   "),
        }
    }
    if s.is_empty() && !may_be_empty {
        s.push(' ');
    }
    s
}

/// Lay the lexemes out as text.  `t` supplies the spelling choices.
pub fn layout(lexemes: &[Lexeme], o: &SpellOpts, t: &mut Tape) -> (Layout, Vec<String>) {
    let mut text = String::new();
    let mut spans: Vec<(usize, usize, Option<usize>)> = Vec::new();
    let mut spelled: Vec<String> = Vec::with_capacity(lexemes.len());
    for (i, lx) in lexemes.iter().enumerate() {
        let triv = match lx.join {
            Join::First | Join::Glue => String::new(),
            Join::Tight => {
                if o.tight_trivia {
                    trivia(t, o, "", true)
                } else {
                    String::new()
                }
            }
            Join::Space => trivia(t, o, " ", o.touch && i > 0 && can_touch(spelled.last().map(|s| s.as_str()).unwrap_or(""), &lx.text)),
            Join::Line => trivia(t, o, "\n", o.touch && i > 0 && can_touch(spelled.last().map(|s| s.as_str()).unwrap_or(""), &lx.text)),
        };
        if !triv.is_empty() {
            let s = text.len();
            text.push_str(&triv);
            spans.push((s, text.len(), None));
        }
        let word = match lx.class {
            Class::Keyword | Class::TypeKw | Class::WordOp if o.kw_case => respell_case(&lx.text, t),
            Class::TextKw if o.textkw_case => respell_case(&lx.text, t),
            Class::Ident if o.ident_case => respell_case(&lx.text, t),
            _ => lx.text.clone(),
        };
        let s = text.len();
        text.push_str(&word);
        spans.push((s, text.len(), Some(i)));
        spelled.push(word);
    }
    text.push('\n');
    // split trivia spans into homogeneous pieces & compute positions
    let mut pieces = Vec::new();
    let pos = PosIndex::new(&text);
    for (s, e, lx) in spans {
        if let Some(i) = lx {
            pieces.push(pos.piece(s, e, Some(i), None));
        } else {
            // split trivia into blank / newline / comment pieces
            let tv = &text[s..e];
            let b = tv.as_bytes();
            let mut k = 0;
            while k < b.len() {
                let st = k;
                let kind;
                if b[k] == b'/' {
                    // line comment: to the end of the line, the line break is a piece of its own
                    while k < b.len() && b[k] != b'\n' && b[k] != b'\r' {
                        k += 1;
                    }
                    kind = TriviaKind::Comment;
                } else if b[k] == b'(' {
                    // comment: find "*)" after "(*"
                    let close = tv[k + 2..].find("*)").map(|p| k + 2 + p + 2).unwrap_or(b.len());
                    // bodies never contain "*)", so the first "*)" is the terminator
                    k = close;
                    kind = TriviaKind::Comment;
                } else if b[k] == b'\n' {
                    k += 1;
                    kind = TriviaKind::Newline;
                } else if b[k] == b'\r' {
                    k += 2;
                    kind = TriviaKind::Newline;
                } else if b[k] == 0x0c {
                    k += 1;
                    kind = TriviaKind::Newline;
                } else {
                    while k < b.len() && (b[k] == b' ' || b[k] == b'\t') {
                        k += 1;
                    }
                    kind = TriviaKind::Blank;
                }
                pieces.push(pos.piece(s + st, s + k, None, Some(kind)));
            }
        }
    }
    (Layout { text, pieces }, spelled)
}

/// Line / column computation from the text alone.
pub struct PosIndex<'a> {
    text: &'a str,
    line_starts: Vec<usize>,
}

impl<'a> PosIndex<'a> {
    pub fn new(text: &'a str) -> Self {
        let mut line_starts = vec![0];
        for (i, b) in text.bytes().enumerate() {
            if b == b'\n' {
                line_starts.push(i + 1);
            }
        }
        PosIndex { text, line_starts }
    }
    pub fn line_of(&self, off: usize) -> usize {
        match self.line_starts.binary_search(&off) {
            Ok(i) => i,
            Err(i) => i - 1,
        }
    }
    pub fn line_start(&self, line: usize) -> usize {
        self.line_starts[line]
    }
    pub fn lines(&self) -> usize {
        self.line_starts.len()
    }
    /// (line, col_bytes, col_chars, col_utf16)
    pub fn pos(&self, off: usize) -> (usize, usize, usize, usize) {
        let line = self.line_of(off);
        let ls = self.line_starts[line];
        let seg = &self.text[ls..off];
        (line, off - ls, seg.chars().count(), seg.encode_utf16().count())
    }
    fn piece(&self, s: usize, e: usize, lexeme: Option<usize>, trivia: Option<TriviaKind>) -> Piece {
        let (line, cb, cc, cu) = self.pos(s);
        Piece { start: s, end: e, line, col_bytes: cb, col_chars: cc, col_utf16: cu, lexeme, trivia }
    }
}

/// Builder used by the printer.
#[derive(Default)]
pub struct Out {
    pub lex: Vec<Lexeme>,
    next: Option<Join>,
    mark: Option<&'static str>,
}

impl Out {
    pub fn new() -> Self {
        Out { lex: Vec::new(), next: None, mark: None }
    }
    fn push(&mut self, text: &str, class: Class, default_join: Join) {
        let join = if self.lex.is_empty() { Join::First } else { self.next.take().unwrap_or(default_join) };
        self.next = None;
        self.lex.push(Lexeme { text: text.to_string(), class, join, mark: self.mark.take() });
    }
    /// force the joint before the next lexeme
    pub fn glue(&mut self) -> &mut Self {
        self.next = Some(Join::Glue);
        self
    }
    pub fn tight(&mut self) -> &mut Self {
        self.next = Some(Join::Tight);
        self
    }
    pub fn line(&mut self) -> &mut Self {
        self.next = Some(Join::Line);
        self
    }
    pub fn space(&mut self) -> &mut Self {
        self.next = Some(Join::Space);
        self
    }
    pub fn mark(&mut self, m: &'static str) -> &mut Self {
        self.mark = Some(m);
        self
    }
    pub fn kw(&mut self, s: &str) -> &mut Self {
        self.push(s, Class::Keyword, Join::Space);
        self
    }
    pub fn tykw(&mut self, s: &str) -> &mut Self {
        self.push(s, Class::TypeKw, Join::Space);
        self
    }
    pub fn wordop(&mut self, s: &str) -> &mut Self {
        self.push(s, Class::WordOp, Join::Space);
        self
    }
    pub fn textkw(&mut self, s: &str) -> &mut Self {
        self.push(s, Class::TextKw, Join::Space);
        self
    }
    pub fn id(&mut self, s: &str) -> &mut Self {
        self.push(s, Class::Ident, Join::Space);
        self
    }
    pub fn num(&mut self, s: &str) -> &mut Self {
        self.push(s, Class::Number, Join::Space);
        self
    }
    pub fn str(&mut self, s: &str) -> &mut Self {
        self.push(s, Class::Str, Join::Space);
        self
    }
    pub fn addr(&mut self, s: &str) -> &mut Self {
        self.push(s, Class::Address, Join::Space);
        self
    }
    pub fn op(&mut self, s: &str) -> &mut Self {
        self.push(s, Class::Op, Join::Space);
        self
    }
    /// punctuation written tight against the previous lexeme: ; , ) ] . ..
    pub fn p_tight(&mut self, s: &str) -> &mut Self {
        self.push(s, Class::Punct, Join::Tight);
        self
    }
    /// punctuation with a blank before it: ( [ :
    pub fn p(&mut self, s: &str) -> &mut Self {
        self.push(s, Class::Punct, Join::Space);
        self
    }
}

/// Text that no lexer of IEC 61131-3 can match, to be put at the END of a file: a comment or a string
/// literal that is never closed (so "the unmatched text" is as long as the rest of the file), or a
/// run of characters that start no token.  The length is drawn from every scale up to a few KiB and
/// the filler is ASCII, two-, three- or four-byte characters with 0..3 ASCII characters in front, so
/// that every fixed byte offset (32, 64, 128, 256 ...) is met inside a character now and then -
/// whoever quotes, truncates or measures the unmatched text meets it at every phase.
pub fn unmatched_tail(t: &mut Tape) -> String {
    let opener = *t.pick(&["(* ", "(*", "'", "\"", "(* note: ", "'abc$", "?", "@@", ""]);
    let unit = *t.pick(&["x", "\u{e9}", "\u{20ac}", "\u{1f600}", "ab\u{e9}", "\u{fc}\u{df} ", "\u{20ac}1"]);
    let len = match t.below(6) {
        0 => t.below(8),
        1 => 20 + t.below(20),
        2 => 56 + t.below(16),
        3 => 120 + t.below(16),
        4 => 248 + t.below(16),
        _ => t.below(3000),
    };
    let mut s = String::from(opener);
    s.push_str(&"x".repeat(t.below(4)));
    while s.len() < opener.len() + len {
        s.push_str(unit);
    }
    if opener.is_empty() {
        // a run of characters that start no token
        s = s.replace('x', "?").replace('a', "~").replace('b', "`").replace('1', "@").replace(' ', "?");
    }
    if t.flag() {
        s.push('\n');
    }
    s
}

fn main() {
    ironplc_verif::cli_main();
}

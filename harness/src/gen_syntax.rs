//! Generator of `ironplc_dsl` libraries in the image of a *faithful* parser:
//! every value produced here is the AST that IEC 61131-3 (and the dsl's own
//! documentation of its representation choices) assigns to the text the
//! printer emits for it.  Used by C01 / C05 / C08 / C10 (purely syntactic
//! programs: names are not resolved, types are not checked).

use crate::gates::Gates;
use crate::names::Names;
use crate::tape::Tape;
use ironplc_dsl::common::*;
use ironplc_dsl::configuration::*;
use ironplc_dsl::core::{Id, SourceSpan};
use ironplc_dsl::sfc::*;
use ironplc_dsl::textual::*;
use ironplc_dsl::time::*;
use time::{Date, Duration, Month, PrimitiveDateTime, Time};

pub struct Gen<'a, 't> {
    pub t: Tape<'t>,
    pub g: &'a Gates,
    pub names: Names,
    /// remaining statement budget
    pub stmt_budget: usize,
    pub max_depth: usize,
    /// write the character a '$' escape denotes instead of the escape itself (the other faithful
    /// reading of a string; same tape consumption)
    pub decode_escapes: bool,
}

const INT_TYPES: [ElementaryTypeName; 8] = [
    ElementaryTypeName::INT,
    ElementaryTypeName::SINT,
    ElementaryTypeName::DINT,
    ElementaryTypeName::LINT,
    ElementaryTypeName::USINT,
    ElementaryTypeName::UINT,
    ElementaryTypeName::UDINT,
    ElementaryTypeName::ULINT,
];
const BIT_TYPES: [ElementaryTypeName; 4] =
    [ElementaryTypeName::BYTE, ElementaryTypeName::WORD, ElementaryTypeName::DWORD, ElementaryTypeName::LWORD];
const ALL_ELEM: [ElementaryTypeName; 21] = [
    ElementaryTypeName::INT,
    ElementaryTypeName::BOOL,
    ElementaryTypeName::SINT,
    ElementaryTypeName::DINT,
    ElementaryTypeName::LINT,
    ElementaryTypeName::USINT,
    ElementaryTypeName::UINT,
    ElementaryTypeName::UDINT,
    ElementaryTypeName::ULINT,
    ElementaryTypeName::REAL,
    ElementaryTypeName::LREAL,
    ElementaryTypeName::TIME,
    ElementaryTypeName::DATE,
    ElementaryTypeName::TimeOfDay,
    ElementaryTypeName::DateAndTime,
    ElementaryTypeName::BYTE,
    ElementaryTypeName::WORD,
    ElementaryTypeName::DWORD,
    ElementaryTypeName::LWORD,
    ElementaryTypeName::STRING,
    ElementaryTypeName::WSTRING,
];

pub fn id(s: &str) -> Id {
    Id::from(s)
}
pub fn ty(s: &str) -> Type {
    Type::from(s)
}
pub fn uint(v: u128) -> Integer {
    Integer { span: SourceSpan::default(), value: v }
}
pub fn sint(v: u128, neg: bool) -> SignedInteger {
    SignedInteger { value: uint(v), is_neg: neg }
}

impl<'a, 't> Gen<'a, 't> {
    pub fn new(g: &'a Gates, t: Tape<'t>) -> Self {
        Gen { t, g, names: Names::new(), stmt_budget: 30, max_depth: 4, decode_escapes: false }
    }

    /// a count like `Tape::count`, but now and then far larger than any "typical" list (9, 17,
    /// 33 more): whatever is written as a list can be long
    fn cnt(&mut self, lo: usize, hi: usize) -> usize {
        if self.t.ratio(1, 50) && self.g.want("LONG_LIST") {
            lo + *self.t.pick(&[4usize, 9, 17, 33])
        } else {
            self.t.count(lo, hi)
        }
    }
    fn fresh(&mut self) -> Id {
        let s = self.names.fresh(&mut self.t);
        id(&s)
    }
    fn name(&mut self) -> Id {
        let s = self.names.any(&mut self.t);
        id(&s)
    }
    fn type_ref(&mut self) -> Type {
        Type { name: self.name() }
    }
    /// elementary types usable in `simple_specification` positions of var_init_decl
    fn elem_nostring(&mut self) -> ElementaryTypeName {
        ALL_ELEM[self.t.below(19)].clone()
    }
    fn elem_any(&mut self) -> ElementaryTypeName {
        ALL_ELEM[self.t.below(21)].clone()
    }
    fn elem_or_ref(&mut self, allow_string: bool) -> Type {
        if self.t.ratio(1, 3) {
            self.type_ref()
        } else if allow_string {
            self.elem_any().into()
        } else {
            self.elem_nostring().into()
        }
    }

    // ------------------------------------------------------------- literals
    pub fn magnitude(&mut self) -> u128 {
        match self.t.below(10) {
            0 | 1 | 2 | 3 => self.t.below(20) as u128,
            4 => self.t.byte() as u128,
            5 => self.t.u16() as u128,
            6 => self.t.u32() as u128,
            7 => self.t.u64() as u128,
            8 => *self.t.pick(&[127u128, 128, 255, 256, 32767, 32768, 65535, 65536, 2147483647, 2147483648, 4294967295, 4294967296, 9223372036854775807, 9223372036854775808, 18446744073709551615]),
            _ => self.t.u128(),
        }
    }
    fn signed(&mut self, allow_neg: bool) -> SignedInteger {
        let v = self.magnitude();
        let neg = allow_neg && self.t.ratio(1, 4) && self.g.want("C10_NEGATIVE_INTEGER");
        sint(v, neg)
    }
    /// an integer literal of its own (initial values, typed literals): rendered as one token since /repo f4f0e68
    fn signed_literal(&mut self, allow_neg: bool) -> SignedInteger {
        let v = self.magnitude();
        let neg = allow_neg && self.t.ratio(1, 4);
        sint(v, neg)
    }
    fn small_signed(&mut self) -> SignedInteger {
        let v = self.t.below(100) as u128;
        let neg = self.t.ratio(1, 5) && self.g.want("C10_NEGATIVE_INTEGER");
        sint(v, neg)
    }
    fn real_value(&mut self) -> f64 {
        // decimal text first, value by the standard library's correctly rounded parser
        let whole = match self.t.below(4) {
            0 => self.t.below(10) as u64,
            1 => self.t.byte() as u64,
            2 => self.t.u16() as u64,
            _ => self.t.u32() as u64,
        };
        let fr_digits = self.t.below(7);
        let mut fr = String::new();
        for _ in 0..fr_digits {
            fr.push((b'0' + self.t.below(10) as u8) as char);
        }
        if fr.is_empty() {
            fr.push('0');
        }
        let exp: i32 = if self.t.ratio(1, 4) { self.t.below(41) as i32 - 20 } else { 0 };
        let s = format!("{}.{}e{}", whole, fr, exp);
        let v = s.parse::<f64>().unwrap();
        if !format!("{}", v).contains('.') && !self.g.want("C10_REAL_WITHOUT_FRACTION_DIGITS") {
            return (whole % 100000) as f64 + 0.5;
        }
        v
    }
    fn chars(&mut self) -> Vec<char> {
        // rarely a string at or beyond the sizes a length field may have
        if self.t.ratio(1, 80) && self.g.want("LONG_STRING_LITERAL") {
            let n = *self.t.pick(&[255usize, 256, 1000, 65_536, 70_000]);
            let step = 1 + self.t.below(7);
            return (0..n)
                .map(|i| {
                    let c = (33 + ((i * step + i / 89) % 90) as u8) as char;
                    if c == '\'' || c == '"' || c == '$' {
                        'q'
                    } else {
                        c
                    }
                })
                .collect();
        }
        let n = self.t.count(0, 8);
        let mut v = Vec::new();
        for _ in 0..n {
            if self.t.ratio(1, 14) && self.g.want("STRING_RAW_LINE_BREAK") {
                // the lexer accepts a line break inside the quotes: everything after it is on a new line
                v.push('\n');
                continue;
            }
            if self.t.ratio(1, 7) && self.g.want("STRING_DOLLAR_ESCAPES_IN_PROGRAMS") {
                // a '$' escape, kept verbatim (the parser keeps the text between the quotes); not
                // used by C01 itself, which would have to decide between raw and decoded
                let dec = self.decode_escapes;
                if !dec {
                    v.push('$');
                }
                match self.t.below(5) {
                    0 => v.push('$'),
                    1 => {
                        let c = *self.t.pick(&['N', 'n', 'R', 'T', 'L', 'P']);
                        v.push(if !dec {
                            c
                        } else {
                            match c {
                                'N' | 'n' | 'L' => '\n',
                                'R' => '\r',
                                'T' => '\t',
                                _ => '\u{c}',
                            }
                        })
                    }
                    2 if dec => v.push('A'),
                    2 => v.extend(['4', '1']),
                    3 => v.push('\''),
                    _ => v.push('"'),
                }
                continue;
            }
            let c = if self.t.ratio(1, 8) && self.g.want("STRING_NON_ASCII") {
                *self.t.pick(&['é', 'ß', 'Ä', '€', '漢', 'ñ', '\u{a0}', '\u{ad}', '\u{200b}', '\u{3000}', '\u{feff}'])
            } else {
                let k = 32 + self.t.below(95) as u8;
                let c = k as char;
                if c == '\'' || c == '"' || c == '$' {
                    'q'
                } else {
                    c
                }
            };
            v.push(c);
        }
        v
    }
    pub fn duration(&mut self) -> DurationLiteral {
        // value built from unit parts; total kept well inside i64 seconds
        let ns: i128 = match self.t.below(8) {
            0 => self.t.below(60) as i128 * 1_000_000_000,
            1 => self.t.below(1000) as i128 * 1_000_000,
            2 => self.t.below(48) as i128 * 3_600_000_000_000,
            3 => self.t.below(120) as i128 * 60_000_000_000,
            4 => self.t.below(400) as i128 * 86_400_000_000_000,
            5 => {
                // mixed parts
                self.t.below(30) as i128 * 86_400_000_000_000
                    + self.t.below(24) as i128 * 3_600_000_000_000
                    + self.t.below(60) as i128 * 60_000_000_000
                    + self.t.below(60) as i128 * 1_000_000_000
                    + self.t.below(1000) as i128 * 1_000_000
            }
            6 => {
                // sub-millisecond precision
                if self.g.want("DURATION_SUB_MS") && self.g.want("C10_DURATION_SUB_MILLISECOND") {
                    self.t.u32() as i128 * 1000
                } else {
                    self.t.below(1000) as i128 * 1_000_000
                }
            }
            _ => self.t.u32() as i128 * 1_000_000,
        };
        let ns = if self.t.ratio(1, 6) { -ns } else { ns };
        DurationLiteral { span: SourceSpan::default(), interval: Duration::new((ns.div_euclid(1_000_000_000)) as i64, (ns.rem_euclid(1_000_000_000)) as i32) }
    }
    fn date(&mut self) -> Date {
        let y = match self.t.below(4) {
            0 => 2000 + self.t.below(40) as i32,
            1 => 1970 + self.t.below(100) as i32,
            2 => 1 + self.t.below(9999) as i32,
            _ => *self.t.pick(&[1, 1600, 1900, 2000, 2024, 2100, 9999]),
        };
        let m = 1 + self.t.below(12) as u8;
        let month = Month::try_from(m).unwrap();
        let dim = time::util::days_in_year_month(y, month);
        let d = match self.t.below(4) {
            0 => 1,
            1 => dim,
            _ => 1 + self.t.below(dim as usize) as u8,
        };
        Date::from_calendar_date(y, month, d).unwrap()
    }
    fn time(&mut self) -> Time {
        let h = *self.t.pick(&[0u8, 12, 23, 1, 9, 10]);
        let h = if self.t.flag() { self.t.below(24) as u8 } else { h };
        let m = self.t.below(60) as u8;
        let s = self.t.below(60) as u8;
        if self.t.ratio(1, 4) && self.g.want("TOD_FRACTION") {
            // milliseconds or microseconds.  KF-C10-05 (the renderer pads the microsecond count to
            // two digits only) concerns fractions below 0.1 s: while it is known, fractions start at
            // 0.1 s - those the renderer gets right, with up to six digits
            let micro = if self.t.flag() { self.t.below(1000) as u32 * 1000 } else { self.t.below(1_000_000) as u32 };
            let micro = if self.g.want("C10_TOD_FRACTION") || micro >= 100_000 { micro } else { 100_000 + micro };
            Time::from_hms_micro(h, m, s, micro).unwrap()
        } else {
            Time::from_hms(h, m, s).unwrap()
        }
    }
    /// constant for an initializer position (`:= constant`), sign allowed
    pub fn constant(&mut self, in_expr: bool) -> ConstantKind {
        match self.t.below(12) {
            0 | 1 | 2 => {
                let data_type = if self.t.ratio(1, 4) && self.g.want("C10_TYPED_INTEGER_LITERAL") { Some(self.t.pick(&INT_TYPES).clone()) } else { None };
                let allow_neg = !in_expr || data_type.is_some();
                ConstantKind::IntegerLiteral(IntegerLiteral { value: self.signed_literal(allow_neg), data_type })
            }
            3 | 4 => {
                let data_type = if self.t.ratio(1, 4) {
                    Some(if self.t.flag() { ElementaryTypeName::REAL } else { ElementaryTypeName::LREAL })
                } else {
                    None
                };
                let mut v = self.real_value();
                if (!in_expr || data_type.is_some()) && self.t.ratio(1, 4) && v != 0.0 {
                    v = -v;
                }
                ConstantKind::RealLiteral(RealLiteral { value: v, data_type })
            }
            5 => ConstantKind::Boolean(BooleanLiteral::new(if self.t.flag() { Boolean::True } else { Boolean::False })),
            6 => ConstantKind::CharacterString(CharacterStringLiteral::new(self.chars())),
            7 => ConstantKind::Duration(self.duration()),
            8 => ConstantKind::TimeOfDay(TimeOfDayLiteral::new(self.time())),
            9 => ConstantKind::Date(DateLiteral::new(self.date())),
            10 => {
                let d = self.date();
                let t = self.time();
                ConstantKind::DateAndTime(DateAndTimeLiteral::new(PrimitiveDateTime::new(d, t)))
            }
            _ => ConstantKind::BitStringLiteral(BitStringLiteral {
                value: uint(self.magnitude()),
                data_type: Some(self.t.pick(&BIT_TYPES).clone()),
            }),
        }
    }
    pub fn address(&mut self) -> AddressAssignment {
        let location = self.t.pick(&[LocationPrefix::I, LocationPrefix::Q, LocationPrefix::M]).clone();
        let size = if self.t.ratio(1, 8) && self.g.want("ADDRESS_NO_SIZE_PREFIX") {
            SizePrefix::Nil
        } else {
            self.t.pick(&[SizePrefix::X, SizePrefix::B, SizePrefix::W, SizePrefix::D, SizePrefix::L]).clone()
        };
        let n = 1 + self.cnt(0, 2);
        let mut address = Vec::new();
        for _ in 0..n {
            let v = if self.t.ratio(1, 3) && self.g.want("ADDRESS_MULTI_DIGIT") {
                match self.t.below(3) {
                    0 => 10 + self.t.below(90) as u32,
                    1 => self.t.u16() as u32,
                    _ => self.t.u32(),
                }
            } else {
                self.t.below(10) as u32
            };
            address.push(v);
        }
        AddressAssignment { location, size, address, position: SourceSpan::default() }
    }
    fn incomplete_address(&mut self) -> AddressAssignment {
        let location = self.t.pick(&[LocationPrefix::I, LocationPrefix::Q, LocationPrefix::M]).clone();
        AddressAssignment { location, size: SizePrefix::Unspecified, address: vec![], position: SourceSpan::default() }
    }

    // ---------------------------------------------------------- type pieces
    fn enum_value(&mut self) -> EnumeratedValue {
        let type_name = if self.t.ratio(1, 5) && self.g.want("C10_ENUM_VALUE_TYPE_PREFIX") { Some(self.type_ref()) } else { None };
        EnumeratedValue { type_name, value: self.name() }
    }
    fn enum_values(&mut self) -> Vec<EnumeratedValue> {
        let n = 1 + self.cnt(0, 4);
        (0..n).map(|_| self.enum_value()).collect()
    }
    fn subrange(&mut self) -> Subrange {
        let start = self.small_signed();
        let end = if self.t.ratio(1, 6) { self.signed(true) } else { self.small_signed() };
        Subrange { start, end }
    }
    fn subrange_spec(&mut self) -> SubrangeSpecificationKind {
        SubrangeSpecificationKind::Specification(SubrangeSpecification {
            type_name: self.t.pick(&INT_TYPES).clone(),
            subrange: self.subrange(),
        })
    }
    fn array_spec(&mut self) -> ArraySpecificationKind {
        let n = 1 + self.cnt(0, 2);
        let ranges = (0..n).map(|_| self.subrange()).collect();
        let type_name = self.elem_or_ref(true);
        ArraySpecificationKind::Subranges(ArraySubranges { ranges, type_name })
    }
    fn array_init_elem(&mut self, depth: usize) -> ArrayInitialElementKind {
        match self.t.below(6) {
            0 | 1 | 2 => ArrayInitialElementKind::Constant(self.constant(false)),
            3 => ArrayInitialElementKind::EnumValue(self.enum_value()),
            _ => {
                if depth >= 2 {
                    return ArrayInitialElementKind::Constant(self.constant(false));
                }
                let size = uint(self.t.below(20) as u128);
                let inner = if self.t.ratio(1, 5) { None } else { Some(self.array_init_elem(depth + 1)) };
                // `2(3(1))` : the inner element of a repetition is a plain element in the grammar
                let inner = match inner {
                    Some(ArrayInitialElementKind::Repeated(_)) => Some(ArrayInitialElementKind::Constant(self.constant(false))),
                    x => x,
                };
                ArrayInitialElementKind::repeated(size, inner)
            }
        }
    }
    fn array_init(&mut self) -> Vec<ArrayInitialElementKind> {
        if !self.g.want("C10_ARRAY_INITIAL_VALUES") {
            return vec![];
        }
        let n = 1 + self.cnt(0, 4);
        (0..n).map(|_| self.array_init_elem(0)).collect()
    }
    fn struct_init(&mut self, depth: usize) -> Vec<StructureElementInit> {
        let n = 1 + self.cnt(0, 3);
        (0..n)
            .map(|_| {
                let name = self.name();
                let init = match self.t.below(6) {
                    0 | 1 | 2 => StructInitialValueAssignmentKind::Constant(self.constant(false)),
                    3 => StructInitialValueAssignmentKind::EnumeratedValue(self.enum_value()),
                    4 if self.g.want("C10_ARRAY_INITIAL_VALUES") => StructInitialValueAssignmentKind::Array(self.array_init()),
                    _ => {
                        if depth >= 2 || !self.g.want("C10_NESTED_STRUCTURE_INITIALIZER") {
                            StructInitialValueAssignmentKind::Constant(self.constant(false))
                        } else {
                            StructInitialValueAssignmentKind::Structure(self.struct_init(depth + 1))
                        }
                    }
                };
                StructureElementInit { name, init }
            })
            .collect()
    }
    fn string_init(&mut self, allow_len: bool) -> StringInitializer {
        let width = if self.t.ratio(1, 3) { StringType::WString } else { StringType::String };
        let length = if allow_len && self.t.flag() { Some(uint(1 + self.t.below(300) as u128)) } else { None };
        let initial_value = if self.t.ratio(1, 3) { Some(self.chars()) } else { None };
        StringInitializer { length, width, initial_value, keyword_span: SourceSpan::default() }
    }

    /// initializer kinds of the ambiguous `simple / enumerated / subrange` spec_init
    fn ambiguous_init(&mut self, allow_string_simple: bool) -> InitialValueAssignmentKind {
        match self.t.below(6) {
            0 => InitialValueAssignmentKind::Simple(SimpleInitializer {
                type_name: if allow_string_simple { self.elem_any().into() } else { self.elem_nostring().into() },
                initial_value: None,
            }),
            1 => {
                let type_name = self.elem_or_ref(allow_string_simple);
                InitialValueAssignmentKind::Simple(SimpleInitializer { type_name, initial_value: Some(self.constant(false)) })
            }
            2 => InitialValueAssignmentKind::EnumeratedType(EnumeratedInitialValueAssignment {
                type_name: self.type_ref(),
                initial_value: Some(self.enum_value()),
            }),
            3 => {
                let values = self.enum_values();
                let initial_value = if self.t.flag() { Some(self.enum_value()) } else { None };
                InitialValueAssignmentKind::EnumeratedValues(EnumeratedValuesInitializer { values, initial_value })
            }
            _ => InitialValueAssignmentKind::LateResolvedType(self.type_ref()),
        }
    }
    /// initializer kinds of `var_init_decl` (VAR / VAR_INPUT / VAR_OUTPUT of FB and PROGRAM)
    fn var_init(&mut self) -> InitialValueAssignmentKind {
        match self.t.below(9) {
            0 | 1 | 2 | 3 | 4 => self.ambiguous_init(false),
            5 => InitialValueAssignmentKind::Structure(StructureInitializationDeclaration {
                type_name: self.type_ref(),
                elements_init: self.struct_init(0),
            }),
            6 => InitialValueAssignmentKind::String(self.string_init(true)),
            _ => {
                let spec = self.array_spec();
                let initial_values = if self.t.flag() { self.array_init() } else { vec![] };
                InitialValueAssignmentKind::Array(ArrayInitialValueAssignment { spec, initial_values })
            }
        }
    }
    fn inout_init(&mut self) -> InitialValueAssignmentKind {
        match self.t.below(6) {
            0 | 1 => InitialValueAssignmentKind::LateResolvedType(self.elem_or_ref(true)),
            2 => InitialValueAssignmentKind::Subrange(self.subrange_spec()),
            3 => InitialValueAssignmentKind::EnumeratedValues(EnumeratedValuesInitializer {
                values: self.enum_values(),
                initial_value: None,
            }),
            4 => InitialValueAssignmentKind::Array(ArrayInitialValueAssignment { spec: self.array_spec(), initial_values: vec![] }),
            _ => {
                if self.g.want("INOUT_STRING_WITH_LENGTH") {
                    let mut s = self.string_init(true);
                    s.initial_value = None;
                    if s.length.is_none() {
                        s.length = Some(uint(10));
                    }
                    InitialValueAssignmentKind::String(s)
                } else {
                    InitialValueAssignmentKind::LateResolvedType(self.elem_or_ref(true))
                }
            }
        }
    }
    fn struct_elem_init(&mut self) -> InitialValueAssignmentKind {
        match self.t.below(9) {
            0 | 1 | 2 | 3 => {
                let k = self.ambiguous_init(true);
                match &k {
                    InitialValueAssignmentKind::EnumeratedValues(e) if e.initial_value.is_some() => {
                        if self.g.want("STRUCT_ELEM_ENUM_VALUES_DEFAULT") {
                            k
                        } else {
                            InitialValueAssignmentKind::EnumeratedValues(EnumeratedValuesInitializer {
                                values: e.values.clone(),
                                initial_value: None,
                            })
                        }
                    }
                    _ => k,
                }
            }
            4 => InitialValueAssignmentKind::Subrange(self.subrange_spec()),
            5 => InitialValueAssignmentKind::Structure(StructureInitializationDeclaration {
                type_name: self.type_ref(),
                elements_init: self.struct_init(0),
            }),
            _ => {
                let spec = self.array_spec();
                let initial_values = if self.t.flag() { self.array_init() } else { vec![] };
                InitialValueAssignmentKind::Array(ArrayInitialValueAssignment { spec, initial_values })
            }
        }
    }

    pub fn data_type_decl(&mut self) -> DataTypeDeclarationKind {
        let name = Type { name: self.fresh() };
        match self.t.below(9) {
            0 => {
                // enumeration with value list
                let values = self.enum_values();
                let default = if self.t.flag() { Some(self.enum_value()) } else { None };
                DataTypeDeclarationKind::Enumeration(EnumerationDeclaration {
                    type_name: name,
                    spec_init: EnumeratedSpecificationInit { spec: EnumeratedSpecificationKind::values(values), default },
                })
            }
            1 => DataTypeDeclarationKind::Enumeration(EnumerationDeclaration {
                type_name: name,
                spec_init: EnumeratedSpecificationInit {
                    spec: EnumeratedSpecificationKind::TypeName(self.type_ref()),
                    default: Some(self.enum_value()),
                },
            }),
            2 => DataTypeDeclarationKind::Subrange(SubrangeDeclaration {
                type_name: name,
                spec: self.subrange_spec(),
                default: if self.t.flag() { Some(self.small_signed()) } else { None },
            }),
            3 if self.g.want("C10_SIMPLE_TYPE_DECLARATION") => {
                let type_name = self.elem_or_ref(true);
                DataTypeDeclarationKind::Simple(SimpleDeclaration {
                    type_name: name,
                    spec_and_init: InitialValueAssignmentKind::Simple(SimpleInitializer {
                        type_name,
                        initial_value: Some(self.constant(false)),
                    }),
                })
            }
            4 => {
                let spec = self.array_spec();
                let init = if self.t.flag() { self.array_init() } else { vec![] };
                DataTypeDeclarationKind::Array(ArrayDeclaration { type_name: name, spec, init })
            }
            5 => {
                let n = 1 + self.cnt(0, 4);
                let elements = (0..n)
                    .map(|_| StructureElementDeclaration { name: self.name(), init: self.struct_elem_init() })
                    .collect();
                DataTypeDeclarationKind::Structure(StructureDeclaration { type_name: name, elements })
            }
            6 if self.g.want("C10_STRUCT_INITIALIZATION_TYPE_DECLARATION") => DataTypeDeclarationKind::StructureInitialization(StructureInitializationDeclaration {
                type_name: name,
                elements_init: self.struct_init(0),
            }),
            7 => {
                let width = if self.t.ratio(1, 3) { StringType::WString } else { StringType::String };
                let init = if self.t.flag() { Some(self.chars().into_iter().collect::<String>()) } else { None };
                DataTypeDeclarationKind::String(StringDeclaration {
                    type_name: name,
                    length: uint(1 + self.t.below(300) as u128),
                    width,
                    init,
                })
            }
            _ => DataTypeDeclarationKind::LateBound(LateBoundDeclaration { data_type_name: name, base_type_name: self.type_ref() }),
        }
    }

    // ---------------------------------------------------------- expressions
    fn sym_var_nonbare(&mut self, depth: usize) -> SymbolicVariableKind {
        // a.b / a[i] / a.b[i].c ... : at least one selector
        let mut v = SymbolicVariableKind::Named(NamedVariable { name: self.name() });
        let n = 1 + self.cnt(0, 2);
        for _ in 0..n {
            if self.t.flag() {
                v = SymbolicVariableKind::Structured(StructuredVariable { record: Box::new(v), field: self.name() });
            } else {
                let k = 1 + self.t.count(0, 1);
                let subscripts = (0..k).map(|_| self.expr(depth + 1)).collect();
                v = SymbolicVariableKind::Array(ArrayVariable { subscripted_variable: Box::new(v), subscripts });
            }
        }
        v
    }
    fn sym_var_any(&mut self, depth: usize) -> SymbolicVariableKind {
        if self.t.ratio(2, 3) {
            SymbolicVariableKind::Named(NamedVariable { name: self.name() })
        } else {
            self.sym_var_nonbare(depth)
        }
    }
    fn variable_any(&mut self, depth: usize) -> Variable {
        if self.t.ratio(1, 10) {
            Variable::Direct(self.address())
        } else {
            Variable::Symbolic(self.sym_var_any(depth))
        }
    }
    fn params(&mut self, depth: usize) -> Vec<ParamAssignmentKind> {
        let n = self.cnt(0, 3);
        (0..n)
            .map(|_| match if self.g.want("C10_NAMED_AND_OUTPUT_PARAMETERS") { self.t.below(4) } else { self.t.below(4) & 1 } {
                0 | 1 => ParamAssignmentKind::positional(self.expr(depth + 1)),
                2 => ParamAssignmentKind::NamedInput(NamedInput { name: self.name(), expr: self.expr(depth + 1) }),
                _ => {
                    let not = self.t.ratio(1, 3) && self.g.want("OUTPUT_PARAM_NOT");
                    ParamAssignmentKind::Output(Output { not, src: self.name(), tgt: self.variable_any(depth + 1) })
                }
            })
            .collect()
    }
    fn atom(&mut self, depth: usize) -> ExprKind {
        match self.t.below(8) {
            0 | 1 | 2 => ExprKind::LateBound(LateBound { name: self.name() }),
            3 | 4 => ExprKind::Const(self.constant(true)),
            5 => {
                if depth >= self.max_depth {
                    ExprKind::LateBound(LateBound { name: self.name() })
                } else {
                    ExprKind::Variable(Variable::Symbolic(self.sym_var_nonbare(depth)))
                }
            }
            6 => ExprKind::Variable(Variable::Direct(self.address())),
            _ => {
                if depth >= self.max_depth {
                    ExprKind::Const(self.constant(true))
                } else {
                    ExprKind::Function(Function { name: self.name(), param_assignment: self.params(depth) })
                }
            }
        }
    }
    pub fn binop(&mut self, k: usize, l: ExprKind, r: ExprKind) -> ExprKind {
        match k {
            0 => ExprKind::compare(CompareOp::Or, l, r),
            1 => ExprKind::compare(CompareOp::Xor, l, r),
            2 => ExprKind::compare(CompareOp::And, l, r),
            3 => ExprKind::compare(CompareOp::Eq, l, r),
            4 => ExprKind::compare(CompareOp::Ne, l, r),
            5 => ExprKind::compare(CompareOp::Lt, l, r),
            6 => ExprKind::compare(CompareOp::Gt, l, r),
            7 => ExprKind::compare(CompareOp::LtEq, l, r),
            8 => ExprKind::compare(CompareOp::GtEq, l, r),
            9 => ExprKind::binary(Operator::Add, l, r),
            10 => ExprKind::binary(Operator::Sub, l, r),
            11 => ExprKind::binary(Operator::Mul, l, r),
            12 => ExprKind::binary(Operator::Div, l, r),
            13 => ExprKind::binary(Operator::Mod, l, r),
            _ => ExprKind::binary(Operator::Pow, l, r),
        }
    }
    pub fn expr(&mut self, depth: usize) -> ExprKind {
        if depth >= self.max_depth {
            return self.atom(depth);
        }
        // now and then a long flat chain of one operator (`a1 OR a2 OR ... an`, a checksum): written
        // without a single parenthesis, but a tree as deep as the chain is long.  (Below 100 terms
        // while KF-C04-05 - stack overflow near a thousand - is known.)
        if depth == 0 && self.t.ratio(1, 60) && self.g.want("LONG_LIST") {
            let n = *self.t.pick(&[12usize, 40, 65, 66, 67, 90, 99]);
            let k = *self.t.pick(&[0usize, 1, 2, 9, 10, 11]);
            let mut e = self.atom(self.max_depth);
            for _ in 1..n {
                let r = self.atom(self.max_depth);
                e = self.binop(k, e, r);
            }
            return e;
        }
        match self.t.below(10) {
            0 | 1 | 2 | 3 => self.atom(depth),
            4 | 5 | 6 | 7 => {
                let l = self.expr(depth + 1);
                let r = self.expr(depth + 1);
                let k = self.t.below(15);
                self.binop(k, l, r)
            }
            _ => {
                let op = if self.t.flag() { UnaryOp::Not } else { UnaryOp::Neg };
                let term = self.expr(depth + 1);
                if matches!(term, ExprKind::UnaryOp(_)) && !self.g.want("C10_UNARY_OPERATOR_ON_UNARY_EXPRESSION") {
                    return term;
                }
                ExprKind::unary(op, term)
            }
        }
    }

    // ----------------------------------------------------------- statements
    pub fn stmts(&mut self, depth: usize, min: usize) -> Vec<StmtKind> {
        let min = if min == 0 && depth > 0 && !self.g.want("C10_EMPTY_STATEMENT_LIST") { 1 } else { min };
        let n = min + self.cnt(0, 3);
        let mut v = Vec::new();
        // now and then a long run of one tiny statement (a hundred timer ticks, a table of
        // assignments): whatever a front end counts, keeps or leaks per statement adds up
        if depth == 0 && self.t.ratio(1, 120) && self.g.want("LONG_LIST") && self.g.want("C10_FB_CALL_STATEMENT") {
            let reps = *self.t.pick(&[64usize, 100, 101, 130, 257]);
            let callee = self.name();
            let target = self.variable_any(0);
            let shape = self.t.below(4);
            for i in 0..reps {
                v.push(match shape {
                    0 => StmtKind::FbCall(FbCall { var_name: callee.clone(), params: vec![], position: SourceSpan::default() }),
                    1 => StmtKind::assignment(target.clone(), ExprKind::Function(Function { name: callee.clone(), param_assignment: vec![] })),
                    2 => StmtKind::assignment(target.clone(), self.atom(self.max_depth)),
                    _ => {
                        if i % 2 == 0 {
                            StmtKind::FbCall(FbCall { var_name: callee.clone(), params: vec![], position: SourceSpan::default() })
                        } else {
                            StmtKind::assignment(target.clone(), self.atom(self.max_depth))
                        }
                    }
                });
            }
            v.push(StmtKind::assignment(target, self.expr(0)));
            return v;
        }
        for _ in 0..n {
            if self.stmt_budget == 0 && v.len() >= min {
                break;
            }
            self.stmt_budget = self.stmt_budget.saturating_sub(1);
            v.push(self.stmt(depth));
        }
        v
    }
    fn stmt(&mut self, depth: usize) -> StmtKind {
        let k = if depth >= self.max_depth || self.stmt_budget == 0 { self.t.below(4) } else { self.t.below(11) };
        let k = match k {
            2 if !self.g.want("C10_FB_CALL_STATEMENT") => 0,
            3 if !self.g.want("C10_RETURN_EXIT_STATEMENTS") => 1,
            x => x,
        };
        match k {
            0 | 1 => StmtKind::assignment(self.variable_any(0), self.expr(0)),
            2 => StmtKind::FbCall(FbCall { var_name: self.name(), params: self.params(0), position: SourceSpan::default() }),
            3 => {
                if self.t.flag() {
                    StmtKind::Return
                } else {
                    StmtKind::Exit
                }
            }
            4 | 5 => {
                let expr = self.expr(0);
                let body = self.stmts(depth + 1, 0);
                let n = self.t.count(0, 2);
                let else_ifs = (0..n).map(|_| ElseIf { expr: self.expr(0), body: self.stmts(depth + 1, 0) }).collect();
                let else_body = if self.t.flag() { self.stmts(depth + 1, 1) } else { vec![] };
                StmtKind::If(If { expr, body, else_ifs, else_body })
            }
            6 | 7 => {
                let selector = self.expr(0);
                let n = self.cnt(0, 3);
                let statement_groups = (0..n)
                    .map(|_| {
                        let k = if self.g.want("C10_CASE_GROUP_WITH_SEVERAL_SELECTORS") { 1 + self.t.count(0, 2) } else { 1 };
                        let selectors = (0..k)
                            .map(|_| match self.t.below(3) {
                                0 => CaseSelectionKind::SignedInteger(self.small_signed()),
                                1 => CaseSelectionKind::Subrange(self.subrange()),
                                _ => CaseSelectionKind::EnumeratedValue(self.enum_value()),
                            })
                            .collect();
                        CaseStatementGroup { selectors, statements: self.stmts(depth + 1, 0) }
                    })
                    .collect();
                let else_body = if self.t.flag() { self.stmts(depth + 1, 1) } else { vec![] };
                StmtKind::Case(Case { selector, statement_groups, else_body })
            }
            8 => StmtKind::For(For {
                control: self.name(),
                from: self.expr(1),
                to: self.expr(1),
                step: if self.t.flag() { Some(self.expr(1)) } else { None },
                body: self.stmts(depth + 1, 0),
            }),
            9 => StmtKind::While(While { condition: self.expr(0), body: self.stmts(depth + 1, 0) }),
            _ => StmtKind::Repeat(Repeat { until: self.expr(0), body: self.stmts(depth + 1, 0) }),
        }
    }

    // ------------------------------------------------------------ variables
    fn qualifier(&mut self, allowed: &[DeclarationQualifier]) -> DeclarationQualifier {
        if self.t.ratio(1, 2) {
            DeclarationQualifier::Unspecified
        } else {
            self.t.pick(allowed).clone()
        }
    }
    fn var_group(
        &mut self,
        out: &mut Vec<VarDecl>,
        var_type: VariableType,
        qualifier: DeclarationQualifier,
        mut init: impl FnMut(&mut Self) -> InitialValueAssignmentKind,
    ) {
        let n = 1 + self.cnt(0, 3);
        let mut i = 0;
        while i < n {
            let k = init(self);
            // a, b : T  -> the same initializer for several names
            let lists = var_type != VariableType::External;
            let m = 1 + if lists && self.t.ratio(1, 4) { self.cnt(0, 2) } else { 0 };
            for _ in 0..m {
                out.push(VarDecl {
                    identifier: VariableIdentifier::Symbol(self.fresh()),
                    var_type: var_type.clone(),
                    qualifier: qualifier.clone(),
                    initializer: k.clone(),
                });
                i += 1;
            }
        }
    }
    /// variable blocks of a FUNCTION_BLOCK (in_program=false) or PROGRAM
    fn pou_vars(&mut self, in_program: bool) -> (Vec<VarDecl>, Vec<EdgeVarDecl>) {
        use DeclarationQualifier::*;
        let mut vars = Vec::new();
        let mut edges = Vec::new();
        let blocks = self.t.count(0, 5);
        for _ in 0..blocks {
            let kinds = if in_program { 9 } else { 8 };
            match self.t.below(kinds) {
                0 => {
                    let q = self.qualifier(&[Constant, Retain, NonRetain]);
                    self.var_group(&mut vars, VariableType::Var, q, |s| s.var_init());
                }
                1 => {
                    let q = self.qualifier(&[Retain, NonRetain]);
                    self.var_group(&mut vars, VariableType::Input, q, |s| s.var_init());
                }
                2 => {
                    let q = self.qualifier(&[Retain, NonRetain]);
                    self.var_group(&mut vars, VariableType::Output, q, |s| s.var_init());
                }
                3 => {
                    self.var_group(&mut vars, VariableType::InOut, Unspecified, |s| s.inout_init());
                }
                4 => {
                    let q = self.qualifier(&[Constant]);
                    self.var_group(&mut vars, VariableType::External, q, |s| {
                        InitialValueAssignmentKind::Simple(SimpleInitializer { type_name: s.elem_or_ref(true), initial_value: None })
                    });
                }
                5 => {
                    // edge inputs (function blocks only: a PROGRAM has no place for them in the AST)
                    if !in_program && self.g.want("C10_FUNCTION_BLOCK_EDGE_INPUTS") {
                        let q = self.qualifier(&[Retain, NonRetain]);
                        let n = 1 + self.cnt(0, 2);
                        for _ in 0..n {
                            edges.push(EdgeVarDecl {
                                identifier: self.fresh(),
                                direction: if self.t.flag() { EdgeDirection::Falling } else { EdgeDirection::Rising },
                                qualifier: q.clone(),
                            });
                        }
                    }
                }
                6 | 7 => {
                    // incompletely located
                    let q = self.qualifier(&[Retain, NonRetain]);
                    let n = 1 + self.cnt(0, 2);
                    for _ in 0..n {
                        let init = match self.t.below(7) {
                            0 | 1 => InitialValueAssignmentKind::Simple(SimpleInitializer { type_name: self.elem_nostring().into(), initial_value: None }),
                            2 => InitialValueAssignmentKind::Subrange(self.subrange_spec()),
                            3 => InitialValueAssignmentKind::EnumeratedValues(EnumeratedValuesInitializer { values: self.enum_values(), initial_value: None }),
                            4 => InitialValueAssignmentKind::EnumeratedType(EnumeratedInitialValueAssignment { type_name: self.type_ref(), initial_value: None }),
                            5 => InitialValueAssignmentKind::Array(ArrayInitialValueAssignment { spec: self.array_spec(), initial_values: vec![] }),
                            _ => {
                                let mut s = self.string_init(true);
                                s.initial_value = None;
                                if s.width == StringType::WString && !self.g.want("INCOMPLETE_LOCATED_WSTRING") {
                                    s.width = StringType::String;
                                }
                                InitialValueAssignmentKind::String(s)
                            }
                        };
                        vars.push(VarDecl {
                            identifier: VariableIdentifier::Direct(DirectVariableIdentifier {
                                name: Some(self.fresh()),
                                address_assignment: self.incomplete_address(),
                                span: SourceSpan::default(),
                            }),
                            var_type: VariableType::Var,
                            qualifier: q.clone(),
                            initializer: init,
                        });
                    }
                }
                _ => {
                    // located (PROGRAM only)
                    let q = self.qualifier(&[Constant, Retain, NonRetain]);
                    let n = 1 + self.cnt(0, 2);
                    for _ in 0..n {
                        let name = if self.t.ratio(1, 4) { None } else { Some(self.fresh()) };
                        let type_name = self.elem_or_ref(true);
                        let initial_value = if self.t.flag() { Some(self.constant(false)) } else { None };
                        vars.push(VarDecl {
                            identifier: VariableIdentifier::Direct(DirectVariableIdentifier {
                                name,
                                address_assignment: self.address(),
                                span: SourceSpan::default(),
                            }),
                            var_type: VariableType::Var,
                            qualifier: q.clone(),
                            initializer: InitialValueAssignmentKind::Simple(SimpleInitializer { type_name, initial_value }),
                        });
                    }
                }
            }
        }
        (vars, edges)
    }
    fn function_vars(&mut self) -> (Vec<VarDecl>, Vec<EdgeVarDecl>) {
        use DeclarationQualifier::*;
        let mut vars = Vec::new();
        let mut edges = Vec::new();
        let blocks = self.t.count(0, 4);
        for _ in 0..blocks {
            match self.t.below(5) {
                0 => {
                    let q = self.qualifier(&[Constant]);
                    self.var_group(&mut vars, VariableType::Var, q, |s| s.ambiguous_init(true));
                }
                1 => {
                    let q = self.qualifier(&[Retain, NonRetain]);
                    self.var_group(&mut vars, VariableType::Input, q, |s| s.var_init());
                }
                2 => {
                    let q = self.qualifier(&[Retain, NonRetain]);
                    self.var_group(&mut vars, VariableType::Output, q, |s| s.var_init());
                }
                3 => self.var_group(&mut vars, VariableType::InOut, Unspecified, |s| s.inout_init()),
                _ => {
                    let q = self.qualifier(&[Retain, NonRetain]);
                    edges.push(EdgeVarDecl {
                        identifier: self.fresh(),
                        direction: if self.t.flag() { EdgeDirection::Falling } else { EdgeDirection::Rising },
                        qualifier: q,
                    });
                }
            }
        }
        (vars, edges)
    }

    // ------------------------------------------------------------------ SFC
    fn action_time(&mut self) -> ActionTimeKind {
        if self.t.flag() {
            ActionTimeKind::Duration(self.duration())
        } else {
            ActionTimeKind::VariableName(self.name())
        }
    }
    fn assoc(&mut self) -> ActionAssociation {
        let qualifier = match if self.g.want("C10_TIMED_ACTION_QUALIFIERS") { self.t.below(13) } else { self.t.below(7) } {
            0 => None,
            1 => Some(ActionQualifier::N),
            2 => Some(ActionQualifier::R),
            3 => Some(ActionQualifier::S),
            4 => Some(ActionQualifier::L),
            5 => Some(ActionQualifier::D),
            6 => Some(ActionQualifier::P),
            7 => Some(ActionQualifier::SD(self.action_time())),
            8 => Some(ActionQualifier::DS(self.action_time())),
            9 => Some(ActionQualifier::SL(self.action_time())),
            10 => Some(ActionQualifier::PR(self.action_time())),
            11 => Some(ActionQualifier::PF(self.action_time())),
            _ => Some(ActionQualifier::N),
        };
        let indicators = if qualifier.is_some() && self.t.ratio(1, 4) {
            let n = 1 + self.cnt(0, 2);
            (0..n).map(|_| self.name()).collect()
        } else {
            vec![]
        };
        ActionAssociation { name: self.name(), qualifier, indicators }
    }
    fn steps(&mut self) -> Vec<Id> {
        match if self.g.want("C10_TRANSITION_STEP_LISTS") { self.t.below(6) } else { 0 } {
            0 | 1 | 2 | 3 => vec![self.name()],
            4 => vec![self.name(), self.name()],
            _ => {
                if self.g.want("TRANSITION_THREE_OR_MORE_STEPS") {
                    let n = 3 + self.t.count(0, 2);
                    (0..n).map(|_| self.name()).collect()
                } else {
                    vec![self.name(), self.name()]
                }
            }
        }
    }
    fn sfc(&mut self, depth: usize) -> Sfc {
        let nn = 1 + self.t.count(0, 1);
        let networks = (0..nn)
            .map(|_| {
                let na = if self.t.ratio(1, 3) && self.g.want("INITIAL_STEP_ACTION_ASSOCIATIONS") && self.g.want("C10_INITIAL_STEP_ACTION_ASSOCIATIONS") { 1 + self.t.count(0, 2) } else { 0 };
                let initial_step = Step { name: self.fresh(), action_associations: (0..na).map(|_| self.assoc()).collect() };
                let ne = self.t.count(0, 5);
                let elements = (0..ne)
                    .map(|_| match self.t.below(3) {
                        0 => {
                            let na = if self.t.ratio(1, 5) && self.g.want("STEP_WITHOUT_ACTION_ASSOCIATIONS") { 0 } else { 1 + self.t.count(0, 2) };
                            ElementKind::Step(Step { name: self.fresh(), action_associations: (0..na).map(|_| self.assoc()).collect() })
                        }
                        1 => ElementKind::Transition(Transition {
                            name: if self.t.ratio(1, 3) && self.g.want("C10_TRANSITION_NAME_AND_PRIORITY") { Some(self.fresh()) } else { None },
                            priority: if self.t.ratio(1, 3) && self.g.want("C10_TRANSITION_NAME_AND_PRIORITY") { Some(self.t.below(100) as u32) } else { None },
                            from: self.steps(),
                            to: self.steps(),
                            condition: self.expr(1),
                        }),
                        _ => {
                            let body = if depth == 0 && self.t.ratio(1, 8) {
                                FunctionBlockBodyKind::Sfc(self.sfc(depth + 1))
                            } else if self.t.ratio(1, 6) {
                                FunctionBlockBodyKind::Empty
                            } else {
                                FunctionBlockBodyKind::stmts(self.stmts(1, 1))
                            };
                            ElementKind::Action(Action { name: self.fresh(), body })
                        }
                    })
                    .collect();
                Network { initial_step, elements }
            })
            .collect();
        Sfc { networks }
    }
    fn body(&mut self) -> FunctionBlockBodyKind {
        match self.t.below(6) {
            0 | 1 | 2 | 3 => FunctionBlockBodyKind::stmts(self.stmts(0, 1)),
            4 => FunctionBlockBodyKind::Sfc(self.sfc(0)),
            _ => FunctionBlockBodyKind::Empty,
        }
    }

    // -------------------------------------------------------- configuration
    fn global_vars(&mut self) -> Vec<VarDecl> {
        if self.t.ratio(1, 2) || !self.g.want("C10_CONFIGURATION_AND_RESOURCE_GLOBALS") {
            return vec![];
        }
        let q = self.qualifier(&[DeclarationQualifier::Constant, DeclarationQualifier::Retain]);
        let mut v = Vec::new();
        self.var_group(&mut v, VariableType::Global, q, |s| {
            let type_name = s.elem_or_ref(true);
            let initial_value = if s.t.flag() { Some(s.constant(false)) } else { None };
            InitialValueAssignmentKind::Simple(SimpleInitializer { type_name, initial_value })
        });
        v
    }
    fn configuration(&mut self) -> ConfigurationDeclaration {
        let name = self.fresh();
        let global_var = self.global_vars();
        let rname = self.fresh();
        let resource = self.name();
        let global_vars = self.global_vars();
        let nt = self.cnt(0, 2);
        let tasks: Vec<TaskConfiguration> = (0..nt)
            .map(|_| TaskConfiguration {
                name: self.fresh(),
                priority: self.t.below(100) as u32,
                interval: if self.t.flag() && self.g.want("C10_TASK_INTERVAL") { Some(self.duration()) } else { None },
            })
            .collect();
        let np = 1 + self.cnt(0, 2);
        let programs = (0..np)
            .map(|_| {
                let storage = match self.t.below(4) {
                    0 | 1 => None,
                    2 => Some(DeclarationQualifier::Retain),
                    _ => Some(DeclarationQualifier::NonRetain),
                };
                let task_name = if self.t.flag() { Some(self.name()) } else { None };
                let mut fb_tasks = vec![];
                let mut sources = vec![];
                let mut sinks = vec![];
                if self.t.ratio(1, 4) && self.g.want("PROGRAM_CONFIGURATION_ELEMENTS") && self.g.want("C10_PROGRAM_CONFIGURATION_ELEMENTS") {
                    let n = 1 + self.t.count(0, 2);
                    for _ in 0..n {
                        match self.t.below(3) {
                            0 => fb_tasks.push(FunctionBlockTask { fb_name: self.name(), task_name: self.name() }),
                            1 => sources.push(ProgramConnectionSource {
                                dst: self.sym_var_any(2),
                                src: match self.t.below(3) {
                                    0 => ProgramConnectionSourceKind::Constant(self.constant(false)),
                                    1 => ProgramConnectionSourceKind::EnumeratedValue(self.enum_value()),
                                    _ => ProgramConnectionSourceKind::DirectVariable(self.address()),
                                },
                            }),
                            _ => sinks.push(ProgramConnectionSink {
                                src: self.sym_var_any(2),
                                dst: if self.t.flag() {
                                    ProgramConnectionSinkKind::DirectVariable(self.address())
                                } else {
                                    ProgramConnectionSinkKind::GlobalVarReference(GlobalVarReference {
                                        resource_name: None,
                                        global_var_name: self.name(),
                                        structure_element_name: None,
                                    })
                                },
                            }),
                        }
                    }
                }
                ProgramConfiguration { name: self.fresh(), storage, task_name, type_name: self.name(), fb_tasks, sources, sinks }
            })
            .collect();
        let mut fb_inits = vec![];
        let mut located_var_inits = vec![];
        if self.t.ratio(1, 3) {
            let n = if self.g.want("C10_SEVERAL_VAR_CONFIG_ENTRIES") { 1 + self.t.count(0, 2) } else { 1 };
            for _ in 0..n {
                let k = 1 + self.t.count(0, 2);
                let fb_path: Vec<Id> = (0..k).map(|_| self.name()).collect();
                if self.t.flag() {
                    fb_inits.push(FunctionBlockInit {
                        resource_name: self.name(),
                        program_name: self.name(),
                        fb_path,
                        fb_name: id(""),
                        type_name: self.type_ref(),
                        initializer: self.struct_init(0),
                    });
                } else {
                    let type_name = self.elem_or_ref(true);
                    let initial_value = if self.t.flag() { Some(self.constant(false)) } else { None };
                    located_var_inits.push(LocatedVarInit {
                        resource_name: self.name(),
                        program_name: self.name(),
                        fb_path,
                        address: if self.t.flag() { Some(self.address()) } else { None },
                        initializer: InitialValueAssignmentKind::Simple(SimpleInitializer { type_name, initial_value }),
                    });
                }
            }
        }
        ConfigurationDeclaration {
            name,
            global_var,
            resource_decl: vec![ResourceDeclaration { name: rname, resource, global_vars, tasks, programs }],
            fb_inits,
            located_var_inits,
        }
    }

    // ------------------------------------------------------------ top level
    pub fn element(&mut self) -> LibraryElementKind {
        self.stmt_budget = 12 + self.t.below(20);
        match self.t.below(10) {
            0 | 1 | 2 => LibraryElementKind::DataTypeDeclaration(self.data_type_decl()),
            3 | 4 => {
                let (variables, edge_variables) = self.pou_vars(false);
                LibraryElementKind::FunctionBlockDeclaration(FunctionBlockDeclaration {
                    name: self.fresh(),
                    variables,
                    edge_variables,
                    body: self.body(),
                    span: SourceSpan::default(),
                })
            }
            5 | 6 => {
                let (variables, _) = self.pou_vars(true);
                let na = if self.t.ratio(1, 6) { 1 + self.t.count(0, 2) } else { 0 };
                let access_variables = (0..na)
                    .map(|_| ProgramAccessDecl {
                        access_name: self.fresh(),
                        symbolic_variable: self.sym_var_any(2),
                        type_name: self.elem_or_ref(true),
                        direction: match self.t.below(3) {
                            0 => None,
                            1 => Some(Direction::ReadOnly),
                            _ => Some(Direction::ReadWrite),
                        },
                    })
                    .collect();
                LibraryElementKind::ProgramDeclaration(ProgramDeclaration { name: self.fresh(), variables, access_variables, body: self.body() })
            }
            7 | 8 => {
                let (variables, edge_variables) = self.function_vars();
                LibraryElementKind::FunctionDeclaration(FunctionDeclaration {
                    name: self.fresh(),
                    return_type: self.elem_or_ref(true),
                    variables,
                    edge_variables,
                    body: if self.g.want("C10_EMPTY_STATEMENT_LIST") { self.stmts(0, 0) } else { self.stmts(0, 1) },
                })
            }
            _ => LibraryElementKind::ConfigurationDeclaration(self.configuration()),
        }
    }
    pub fn library(&mut self, max_elements: usize) -> Library {
        let n = 1 + self.t.count(0, max_elements.saturating_sub(1));
        Library { elements: (0..n).map(|_| self.element()).collect() }
    }
}

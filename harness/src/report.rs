//! Evidence files, known-findings handling, VIOLATION / KNOWN-FINDING lines and exit codes.

use crate::runner::{verif_root, write_replay, Failure, Outcome, Stats, Tier};
use serde_json::{json, Value};
use std::collections::BTreeMap;

#[derive(Clone, Debug)]
pub struct Finding {
    pub id: String,
    pub property: String,
    pub status: String,
    pub what: String,
    pub gates: Vec<String>,
    pub witness: Value,
    pub signature: Value,
    pub commit: Option<String>,
    pub scope: String,
}

pub fn load_findings() -> Vec<Finding> {
    let p = verif_root().join("known_findings.json");
    let text = match std::fs::read_to_string(&p) {
        Ok(t) => t,
        Err(_) => return vec![],
    };
    let v: Value = serde_json::from_str(&text).expect("known_findings.json must be valid JSON");
    let mut out = vec![];
    for f in v["findings"].as_array().cloned().unwrap_or_default() {
        out.push(Finding {
            id: f["id"].as_str().unwrap_or("").to_string(),
            property: f["property"].as_str().unwrap_or("").to_string(),
            status: f["status"].as_str().unwrap_or("known").to_string(),
            what: f["what"].as_str().unwrap_or("").to_string(),
            gates: f["gates"].as_array().map(|a| a.iter().filter_map(|x| x.as_str().map(String::from)).collect()).unwrap_or_default(),
            witness: f["witness"].clone(),
            signature: f["signature"].clone(),
            commit: f["commit"].as_str().map(String::from),
            scope: f["scope"].as_str().unwrap_or("all").to_string(),
        });
    }
    out
}

/// gates switched off by `known` findings (of any property: a defect excluded for
/// C01 is excluded from every generator that shares the construct)
pub fn gates_off(findings: &[Finding], prop: &str) -> Vec<String> {
    let mut v = vec![];
    for f in findings {
        if f.status == "known" && (f.scope == "all" || f.property == prop) {
            v.extend(f.gates.iter().cloned());
        }
    }
    v.sort();
    v.dedup();
    v
}

pub struct Report {
    pub prop: String,
    pub tier: Tier,
    pub seed: u64,
    pub level: &'static str,
    pub rule: String,
    pub stats: Stats,
    pub failures: Vec<(Failure, Vec<u8>)>,
    pub exhaustive: Option<bool>,
    pub assumptions: Vec<String>,
    pub extra: BTreeMap<String, Value>,
    pub known_lines: Vec<String>,
    pub infra_errors: Vec<String>,
    pub wall_s: f64,
}

impl Report {
    pub fn new(prop: &str, tier: Tier, seed: u64, level: &'static str, rule: &str) -> Self {
        Report {
            prop: prop.to_string(),
            tier,
            seed,
            level,
            rule: rule.to_string(),
            stats: Stats::default(),
            failures: vec![],
            exhaustive: None,
            assumptions: vec![],
            extra: BTreeMap::new(),
            known_lines: vec![],
            infra_errors: vec![],
            wall_s: 0.0,
        }
    }
    pub fn add(&mut self, o: Outcome) {
        self.stats.merge(o.stats);
        self.failures.extend(o.failures);
    }
    pub fn fail(&mut self, f: Failure) {
        self.failures.push((f, vec![]));
    }

    /// Replays the witnesses of this property's findings.  `check` returns
    /// Ok(()) when the witness passes (defect absent), Err(msg) when it fails.
    pub fn replay_witnesses(&mut self, findings: &[Finding], check: &dyn Fn(&Value) -> Result<(), String>) {
        for f in findings.iter().filter(|f| f.property == self.prop) {
            if f.witness.is_null() {
                continue;
            }
            let r = check(&f.witness);
            self.stats.class(&format!("witness.{}", f.status));
            match (f.status.as_str(), r) {
                ("known", Err(_)) => {
                    self.known_lines.push(format!("KNOWN-FINDING: property={} {} {}", self.prop, f.id, f.what));
                }
                ("known", Ok(())) => {
                    // the defect is gone: silent (the entry can be retired)
                    self.stats.notes.push(format!("finding {} no longer reproduces", f.id));
                }
                ("fixed", Err(msg)) => {
                    self.failures.push((
                        Failure::new("witness", "fixed-finding-returned", format!("{}: {} ({})", f.id, f.what, msg), f.witness.clone()),
                        vec![],
                    ));
                }
                _ => {}
            }
        }
    }

    /// Writes evidence, prints lines, returns the process exit code.
    pub fn finish(mut self) -> i32 {
        let mut violations = 0;
        let mut lines = vec![];
        // de-duplicate failures by (check, kind)
        let mut seen = std::collections::HashSet::new();
        for (fl, tape) in &self.failures {
            let key = format!("{}|{}|{}", fl.check, fl.kind, &fl.detail.chars().take(80).collect::<String>());
            if !seen.insert(key) {
                continue;
            }
            violations += 1;
            let path = write_replay(&self.prop, fl, tape, json!({"seed": self.seed, "tier": self.tier.name()}));
            lines.push(format!("VIOLATION property={} replay={}", self.prop, path));
            eprintln!("[{}] {} / {}: {}", self.prop, fl.check, fl.kind, truncate(&fl.detail, 2000));
        }
        let mut nontrivial = self.stats.nontrivial.len() as u64;
        // generator health: a check that explored nothing is broken infrastructure, not a pass
        if self.stats.evaluations == 0 || nontrivial < 2 {
            self.infra_errors.push(format!(
                "generator health: evaluations={} distinct_nontrivial={}",
                self.stats.evaluations, nontrivial
            ));
            nontrivial = nontrivial.max(0);
        }
        let mut coverage = json!({
            "evaluations": self.stats.evaluations,
            "distinct_nontrivial": nontrivial,
            "trivial": self.stats.trivial,
            "rule": self.rule,
            "samples": self.stats.samples,
            "classes": self.stats.classes,
            "productions": self.stats.productions,
            "excluded_gates_wanted": self.stats.gates_wanted,
            "known_findings_seen": self.stats.known_seen,
            "known_finding_lines": self.known_lines,
            "inconclusive": self.stats.inconclusive,
            "notes": self.stats.notes,
        });
        if let Some(e) = self.exhaustive {
            coverage["exhaustive"] = json!(e);
        }
        for (k, v) in &self.extra {
            coverage[k] = v.clone();
        }
        if coverage["samples"].as_array().map(|a| a.is_empty()).unwrap_or(true) {
            coverage["samples"] = json!(["(no sample recorded)"]);
        }
        let ev = json!({
            "property_id": self.prop,
            "tier": self.tier.name(),
            "seed": self.seed,
            "level": self.level,
            "coverage": coverage,
            "assumptions": self.assumptions,
            "wall_s": self.wall_s,
            "violations": violations,
        });
        let dir = verif_root().join("evidence");
        let _ = std::fs::create_dir_all(&dir);
        std::fs::write(dir.join(format!("{}.json", self.prop)), serde_json::to_string_pretty(&ev).unwrap()).expect("write evidence");
        for l in &self.known_lines {
            println!("{}", l);
        }
        for l in &lines {
            println!("{}", l);
        }
        println!(
            "[{}] tier={} seed={} evaluations={} distinct_nontrivial={} violations={} wall={:.1}s",
            self.prop,
            self.tier.name(),
            self.seed,
            self.stats.evaluations,
            nontrivial,
            violations,
            self.wall_s
        );
        if violations > 0 {
            1
        } else if !self.infra_errors.is_empty() {
            for e in &self.infra_errors {
                eprintln!("[{}] INFRASTRUCTURE: {}", self.prop, e);
            }
            2
        } else {
            0
        }
    }
}

pub fn truncate(s: &str, n: usize) -> String {
    if s.len() <= n {
        s.to_string()
    } else {
        let mut k = n;
        while !s.is_char_boundary(k) {
            k -= 1;
        }
        format!("{}…", &s[..k])
    }
}

//! Feature gates.  Every optional construct of a generator is behind a named
//! gate.  A gate is switched off only by an entry of known_findings.json; the
//! generator then still *draws* the construct, counts that it would have used
//! it, and falls back to the simplest alternative, so evidence can report how
//! much of the domain was excluded.

use std::cell::RefCell;
use std::collections::{BTreeMap, BTreeSet};

#[derive(Default, Clone)]
pub struct Gates {
    off: BTreeSet<String>,
    wanted: RefCell<BTreeMap<String, usize>>,
    hits: RefCell<BTreeMap<&'static str, usize>>,
}

impl Gates {
    pub fn all_on() -> Self {
        Gates::default()
    }
    pub fn with_off<I: IntoIterator<Item = String>>(off: I) -> Self {
        Gates { off: off.into_iter().collect(), ..Default::default() }
    }
    pub fn is_off(&self, g: &str) -> bool {
        self.off.contains(g)
    }
    pub fn set_off(&mut self, g: &str) {
        self.off.insert(g.to_string());
    }
    pub fn set_on(&mut self, g: &str) {
        self.off.remove(g);
    }
    /// The generator wants to use gated feature `g`; returns whether it may.
    pub fn want(&self, g: &'static str) -> bool {
        if self.off.contains(g) {
            *self.wanted.borrow_mut().entry(g.to_string()).or_insert(0) += 1;
            false
        } else {
            true
        }
    }
    /// production census
    pub fn hit(&self, p: &'static str) {
        *self.hits.borrow_mut().entry(p).or_insert(0) += 1;
    }
    pub fn take_hits_peek(&self) -> usize {
        self.hits.borrow().len()
    }
    pub fn off_list(&self) -> Vec<String> {
        self.off.iter().cloned().collect()
    }
    pub fn take_wanted(&self) -> BTreeMap<String, usize> {
        std::mem::take(&mut *self.wanted.borrow_mut())
    }
    pub fn take_hits(&self) -> BTreeMap<&'static str, usize> {
        std::mem::take(&mut *self.hits.borrow_mut())
    }
}

//! Walks over `ironplc_dsl` libraries: collect every identifier (with span),
//! structural diff of Debug trees.

use ironplc_dsl::common::Library;
use ironplc_dsl::core::Id;
use ironplc_dsl::visitor::Visitor;

pub struct IdCollector {
    pub ids: Vec<(String, usize, usize, String)>,
}

impl Visitor<()> for IdCollector {
    type Value = ();
    fn visit_id(&mut self, node: &Id) -> Result<(), ()> {
        self.ids.push((node.original().clone(), node.span.start, node.span.end, node.span.file_id.to_string()));
        Ok(())
    }
}

/// (original spelling, span.start, span.end, file id) of every Id reached by the dsl Visitor, in visit order
pub fn collect_ids(lib: &Library) -> Vec<(String, usize, usize, String)> {
    let mut c = IdCollector { ids: vec![] };
    let _ = c.walk(lib);
    c.ids
}

/// First differing line of the pretty Debug renderings, with context.
/// pretty Debug rendering without SourceSpan blocks (spans never take part in equality)
pub fn debug_nospan<T: std::fmt::Debug>(v: &T, lower: bool) -> String {
    let s = format!("{:#?}", v);
    let mut out = String::new();
    let mut skip_indent: Option<usize> = None;
    for l in s.lines() {
        let indent = l.len() - l.trim_start().len();
        if let Some(si) = skip_indent {
            if indent == si && l.trim_start().starts_with('}') {
                skip_indent = None;
            }
            continue;
        }
        if l.trim_end().ends_with("SourceSpan {") {
            skip_indent = Some(indent);
            continue;
        }
        if lower {
            out.push_str(&l.to_lowercase());
        } else {
            out.push_str(l);
        }
        out.push('\n');
    }
    out
}

pub fn debug_diff<T: std::fmt::Debug>(expected: &T, actual: &T) -> String {
    debug_diff_opt(expected, actual, false)
}
pub fn debug_diff_ci<T: std::fmt::Debug>(expected: &T, actual: &T) -> String {
    debug_diff_opt(expected, actual, true)
}
fn debug_diff_opt<T: std::fmt::Debug>(expected: &T, actual: &T, lower: bool) -> String {
    let e = debug_nospan(expected, lower);
    let a = debug_nospan(actual, lower);
    let el: Vec<&str> = e.lines().collect();
    let al: Vec<&str> = a.lines().collect();
    let mut i = 0;
    while i < el.len() && i < al.len() && el[i] == al[i] {
        i += 1;
    }
    if i == el.len() && i == al.len() {
        return "Debug renderings are identical (difference is in a field Debug does not print, e.g. address components or identifier case)".to_string();
    }
    let lo = i.saturating_sub(6);
    let mut s = format!("first difference at Debug line {}:\n--- expected\n", i + 1);
    for l in &el[lo..(i + 4).min(el.len())] {
        s.push_str(l);
        s.push('\n');
    }
    s.push_str("--- actual\n");
    for l in &al[lo..(i + 4).min(al.len())] {
        s.push_str(l);
        s.push('\n');
    }
    s
}

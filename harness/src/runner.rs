//! Engine E1: sharded proptest `TestRunner`s over choice tapes, plus shared
//! statistics, replay-file writing and the exit-code protocol.

use crate::tape::{fnv, mix};
use proptest::collection::vec;
use proptest::prelude::*;
use proptest::test_runner::{Config, RngSeed, TestCaseError, TestError, TestRunner};
use serde_json::{json, Value};
use std::collections::{BTreeMap, HashSet};
use std::sync::atomic::{AtomicBool, Ordering};
use std::sync::Mutex;
use std::time::Instant;

#[derive(Clone, Copy, PartialEq, Eq, Debug)]
pub enum Tier {
    Quick,
    Thorough,
}

impl Tier {
    pub fn name(&self) -> &'static str {
        match self {
            Tier::Quick => "quick",
            Tier::Thorough => "thorough",
        }
    }
    pub fn pick<T>(&self, q: T, t: T) -> T {
        match self {
            Tier::Quick => q,
            Tier::Thorough => t,
        }
    }
}

/// A failed case: everything needed to report and to replay it.
#[derive(Clone, Debug)]
pub struct Failure {
    /// sub-check name (used by --replay to select the oracle)
    pub check: String,
    /// short classification of what went wrong
    pub kind: String,
    pub detail: String,
    /// concrete inputs (texts, orders, scripts ...) for the reader and for replay
    pub inputs: Value,
}

impl Failure {
    pub fn new(check: &str, kind: &str, detail: impl Into<String>, inputs: Value) -> Self {
        Failure { check: check.to_string(), kind: kind.to_string(), detail: detail.into(), inputs }
    }
}

#[derive(Default)]
pub struct Stats {
    pub evaluations: u64,
    pub nontrivial: HashSet<u64>,
    pub trivial: u64,
    pub classes: BTreeMap<String, u64>,
    pub samples: Vec<Value>,
    pub known_seen: BTreeMap<String, u64>,
    pub inconclusive: u64,
    pub gates_wanted: BTreeMap<String, u64>,
    pub productions: BTreeMap<String, u64>,
    pub notes: Vec<String>,
}

impl Stats {
    pub fn class(&mut self, c: &str) {
        *self.classes.entry(c.to_string()).or_insert(0) += 1;
    }
    pub fn class_n(&mut self, c: &str, n: u64) {
        *self.classes.entry(c.to_string()).or_insert(0) += n;
    }
    pub fn case(&mut self, nontrivial: bool, hash: u64) {
        self.evaluations += 1;
        if nontrivial {
            self.nontrivial.insert(hash);
        } else {
            self.trivial += 1;
        }
    }
    pub fn sample(&mut self, max: usize, v: impl FnOnce() -> Value) {
        if self.samples.len() < max {
            self.samples.push(v());
        }
    }
    pub fn merge(&mut self, o: Stats) {
        self.evaluations += o.evaluations;
        self.nontrivial.extend(o.nontrivial);
        self.trivial += o.trivial;
        for (k, v) in o.classes {
            *self.classes.entry(k).or_insert(0) += v;
        }
        for s in o.samples {
            if self.samples.len() < 12 {
                self.samples.push(s);
            }
        }
        for (k, v) in o.known_seen {
            *self.known_seen.entry(k).or_insert(0) += v;
        }
        self.inconclusive += o.inconclusive;
        for (k, v) in o.gates_wanted {
            *self.gates_wanted.entry(k).or_insert(0) += v;
        }
        for (k, v) in o.productions {
            *self.productions.entry(k).or_insert(0) += v;
        }
        self.notes.extend(o.notes);
    }
    pub fn absorb_gates(&mut self, g: &crate::gates::Gates) {
        for (k, v) in g.take_wanted() {
            *self.gates_wanted.entry(k).or_insert(0) += v as u64;
        }
        for (k, v) in g.take_hits() {
            *self.productions.entry(k.to_string()).or_insert(0) += v as u64;
        }
    }
}

pub struct Outcome {
    pub stats: Stats,
    pub failures: Vec<(Failure, Vec<u8>)>,
}

pub fn hash_str(s: &str) -> u64 {
    fnv(s.as_bytes())
}

/// Run `cases` tapes (split over `shards` threads).  `f` evaluates one tape; it
/// gets a per-shard Stats that it should only update when `counting` is true
/// (the closure is re-run during shrinking).
pub fn run_tapes<F>(label: &str, seed: u64, shards: usize, cases: u32, max_len: usize, f: F) -> Outcome
where
    F: Fn(&[u8], &mut Stats, bool) -> Result<(), Failure> + Sync,
{
    // developer aid for sensitivity experiments: let only the fuzz campaign search
    let cases = if std::env::var("VERIF_ONLY_FUZZ").is_ok() { shards as u32 } else { cases };
    let per = (cases as usize + shards - 1) / shards;
    let results: Mutex<Vec<(Stats, Option<(Failure, Vec<u8>)>)>> = Mutex::new(Vec::new());
    let stop = AtomicBool::new(false);
    std::thread::scope(|sc| {
        for shard in 0..shards {
            let f = &f;
            let results = &results;
            let stop = &stop;
            let shard_seed = mix(seed ^ mix(hash_str(label) ^ (shard as u64) << 32));
            sc.spawn(move || {
                let stats = std::cell::RefCell::new(Stats::default());
                let failed = std::cell::Cell::new(false);
                let last_failure: std::cell::RefCell<Option<Failure>> = std::cell::RefCell::new(None);
                let mut runner = TestRunner::new(Config {
                    cases: per as u32,
                    failure_persistence: None,
                    rng_seed: RngSeed::Fixed(shard_seed),
                    max_shrink_iters: 4000,
                    max_shrink_time: 60_000,
                    ..Config::default()
                });
                // tapes: mostly short, sometimes long
                let strat = prop_oneof![
                    3 => vec(any::<u8>(), 0..max_len.min(96).max(1)),
                    3 => vec(any::<u8>(), 0..max_len.min(400).max(1)),
                    2 => vec(any::<u8>(), 0..max_len.max(1)),
                ];
                let r = runner.run(&strat, |tape| {
                    if stop.load(Ordering::Relaxed) && !failed.get() {
                        return Ok(());
                    }
                    let counting = !failed.get();
                    let res = f(&tape, &mut stats.borrow_mut(), counting);
                    match res {
                        Ok(()) => Ok(()),
                        Err(fl) => {
                            failed.set(true);
                            let msg = format!("{}: {}", fl.kind, fl.detail);
                            *last_failure.borrow_mut() = Some(fl);
                            Err(TestCaseError::fail(msg))
                        }
                    }
                });
                let fail = match r {
                    Ok(()) => None,
                    Err(TestError::Fail(_, tape)) => {
                        stop.store(true, Ordering::Relaxed);
                        // recompute the failure for the shrunk tape
                        let mut scratch = Stats::default();
                        match f(&tape, &mut scratch, false) {
                            Err(fl) => Some((fl, tape)),
                            Ok(()) => last_failure.borrow().clone().map(|fl| (fl, tape)),
                        }
                    }
                    Err(TestError::Abort(reason)) => Some((
                        Failure::new("runner", "abort", format!("proptest aborted: {}", reason), json!({})),
                        vec![],
                    )),
                };
                results.lock().unwrap().push((stats.into_inner(), fail));
            });
        }
    });
    let mut out = Outcome { stats: Stats::default(), failures: vec![] };
    for (s, fl) in results.into_inner().unwrap() {
        out.stats.merge(s);
        if let Some(x) = fl {
            out.failures.push(x);
        }
    }
    out
}

/// Exhaustive / scripted cases: run a closure over a list of items in parallel.
pub fn run_items<T: Sync, F>(items: &[T], shards: usize, f: F) -> Outcome
where
    F: Fn(&T, &mut Stats) -> Result<(), Failure> + Sync,
{
    let results: Mutex<Vec<(Stats, Vec<(Failure, Vec<u8>)>)>> = Mutex::new(Vec::new());
    let chunk = (items.len() + shards - 1) / shards.max(1);
    std::thread::scope(|sc| {
        for part in items.chunks(chunk.max(1)) {
            let f = &f;
            let results = &results;
            sc.spawn(move || {
                let mut stats = Stats::default();
                let mut fails = vec![];
                for it in part {
                    if let Err(fl) = f(it, &mut stats) {
                        if fails.len() < 3 {
                            fails.push((fl, vec![]));
                        }
                    }
                }
                results.lock().unwrap().push((stats, fails));
            });
        }
    });
    let mut out = Outcome { stats: Stats::default(), failures: vec![] };
    for (s, fl) in results.into_inner().unwrap() {
        out.stats.merge(s);
        out.failures.extend(fl);
    }
    out
}

pub struct Clock(Instant);
impl Clock {
    pub fn start() -> Self {
        Clock(Instant::now())
    }
    pub fn secs(&self) -> f64 {
        self.0.elapsed().as_secs_f64()
    }
}

pub fn verif_root() -> std::path::PathBuf {
    std::env::var("VERIF_ROOT").map(Into::into).unwrap_or_else(|_| "/verif".into())
}

/// Write a replay file for a failure and return its path.
pub fn write_replay(prop: &str, fl: &Failure, tape: &[u8], extra: Value) -> String {
    let dir = verif_root().join("replays");
    let _ = std::fs::create_dir_all(&dir);
    let body = json!({
        "property": prop,
        "check": fl.check,
        "kind": fl.kind,
        "detail": fl.detail,
        "tape": tape,
        "inputs": fl.inputs,
        "extra": extra,
    });
    let text = serde_json::to_string_pretty(&body).unwrap();
    let h = fnv(text.as_bytes());
    let path = dir.join(format!("{}-{:016x}.json", prop, h));
    std::fs::write(&path, text).expect("write replay");
    path.to_string_lossy().to_string()
}

//! Choice tape: every generator in the harness is a pure function of a byte
//! tape.  The tape is produced by proptest (`vec(any::<u8>())`, so proptest
//! shrinks it: shorter tape / smaller bytes) or by libFuzzer (structure-aware
//! fuzzing).  An exhausted tape yields zeros and every generator is written so
//! that choice 0 is the simplest alternative: shrinking a tape therefore
//! shrinks the generated program towards the canonical minimal one.

pub struct Tape<'a> {
    data: &'a [u8],
    pos: usize,
}

impl<'a> Tape<'a> {
    pub fn new(data: &'a [u8]) -> Self {
        Tape { data, pos: 0 }
    }
    pub fn empty() -> Tape<'static> {
        Tape { data: &[], pos: 0 }
    }
    pub fn exhausted(&self) -> bool {
        self.pos >= self.data.len()
    }
    pub fn pos(&self) -> usize {
        self.pos
    }
    pub fn to_vec(&self) -> Vec<u8> {
        let p = self.pos.min(self.data.len());
        self.data[p..].to_vec()
    }
    /// a tape over the unread remainder
    pub fn rest(&self) -> Tape<'a> {
        let p = self.pos.min(self.data.len());
        Tape { data: &self.data[p..], pos: 0 }
    }
    pub fn byte(&mut self) -> u8 {
        let b = self.data.get(self.pos).copied().unwrap_or(0);
        self.pos = self.pos.saturating_add(1);
        b
    }
    /// Uniform-ish choice in 0..n, monotone in the tape byte(s) (0 -> 0).
    pub fn below(&mut self, n: usize) -> usize {
        if n <= 1 {
            return 0;
        }
        if n <= 256 {
            (self.byte() as usize * n) >> 8
        } else {
            let v = ((self.byte() as usize) << 8) | self.byte() as usize;
            (v * n) >> 16
        }
    }
    /// true with probability num/den (false on an exhausted tape).
    pub fn ratio(&mut self, num: usize, den: usize) -> bool {
        // high bytes -> true so that 0 stays "false / simplest".
        let b = self.byte() as usize;
        b * den >= (den - num) * 256 && num > 0
    }
    pub fn flag(&mut self) -> bool {
        self.byte() >= 128
    }
    pub fn pick<'b, T>(&mut self, xs: &'b [T]) -> &'b T {
        &xs[self.below(xs.len())]
    }
    pub fn u16(&mut self) -> u16 {
        ((self.byte() as u16) << 8) | self.byte() as u16
    }
    pub fn u32(&mut self) -> u32 {
        ((self.u16() as u32) << 16) | self.u16() as u32
    }
    pub fn u64(&mut self) -> u64 {
        ((self.u32() as u64) << 32) | self.u32() as u64
    }
    pub fn u128(&mut self) -> u128 {
        ((self.u64() as u128) << 64) | self.u64() as u128
    }
    /// Small count with geometric-ish distribution in lo..=hi (0 -> lo).
    pub fn count(&mut self, lo: usize, hi: usize) -> usize {
        if hi <= lo {
            return lo;
        }
        let b = self.byte() as usize;
        // quadratic skew towards small values
        let span = hi - lo + 1;
        let x = (b * b) >> 8; // 0..255 skewed low
        lo + (x * span >> 8)
    }
}

/// Deterministic 64-bit mixer (splitmix64) used only to derive per-shard seeds
/// from VERIF_SEED; never used to make choices inside a property.
pub fn mix(mut z: u64) -> u64 {
    z = z.wrapping_add(0x9E3779B97F4A7C15);
    z = (z ^ (z >> 30)).wrapping_mul(0xBF58476D1CE4E5B9);
    z = (z ^ (z >> 27)).wrapping_mul(0x94D049BB133111EB);
    z ^ (z >> 31)
}

pub fn fnv(data: &[u8]) -> u64 {
    let mut h: u64 = 0xcbf29ce484222325;
    for b in data {
        h ^= *b as u64;
        h = h.wrapping_mul(0x100000001b3);
    }
    h
}

/// Secondary choice bytes that are a pure function of a tape (used for choices that must not
/// shift the primary generation, e.g. which mutant of a generated unit to evaluate).
pub fn derived(tape: &[u8], n: usize) -> Vec<u8> {
    let mut z = fnv(tape) ^ (tape.len() as u64) << 40;
    let mut v = Vec::with_capacity(n);
    while v.len() < n {
        z = mix(z);
        v.extend_from_slice(&z.to_le_bytes());
    }
    v.truncate(n);
    v
}

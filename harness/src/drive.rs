//! Subprocess drivers: the `ironplcc` binary (CLI and `lsp --stdio`), scratch directories.

use crate::runner::verif_root;
use std::io::{Read, Write};
use std::path::{Path, PathBuf};
use std::process::{Command, Stdio};
use std::sync::atomic::{AtomicU64, Ordering};
use std::time::{Duration, Instant};

pub fn ironplcc() -> PathBuf {
    std::env::var("VERIF_IRONPLCC").map(PathBuf::from).unwrap_or_else(|_| verif_root().join(".build/t/debug/ironplcc"))
}

static COUNTER: AtomicU64 = AtomicU64::new(0);

/// scratch directory under /verif/.build/tmp, removed on drop
pub struct Scratch {
    pub path: PathBuf,
}

impl Scratch {
    pub fn new(tag: &str) -> Scratch {
        let n = COUNTER.fetch_add(1, Ordering::Relaxed);
        let path = verif_root().join(".build/tmp").join(format!("{}-{}-{}", tag, std::process::id(), n));
        let _ = std::fs::remove_dir_all(&path);
        std::fs::create_dir_all(&path).expect("create scratch dir");
        Scratch { path }
    }
    pub fn write(&self, name: &str, content: &[u8]) -> PathBuf {
        let p = self.path.join(name);
        if let Some(parent) = p.parent() {
            let _ = std::fs::create_dir_all(parent);
        }
        std::fs::write(&p, content).expect("write scratch file");
        p
    }
}

impl Drop for Scratch {
    fn drop(&mut self) {
        let _ = std::fs::remove_dir_all(&self.path);
    }
}

#[derive(Debug, Clone)]
pub struct CliOut {
    /// exit code; None when killed by a signal
    pub status: Option<i32>,
    pub stdout: String,
    pub stderr: String,
    pub timed_out: bool,
}

thread_local! {
    /// global options placed in front of the subcommand for every child started by this thread
    /// (the verbosity flags: logging goes to a file and must change nothing that is observed)
    static GLOBAL_OPTIONS: std::cell::RefCell<Vec<String>> = const { std::cell::RefCell::new(Vec::new()) };
}

/// sets the global options for the children of this thread (empty = none); returns the old ones
pub fn set_global_options(v: Vec<String>) -> Vec<String> {
    GLOBAL_OPTIONS.with(|g| std::mem::replace(&mut *g.borrow_mut(), v))
}
fn global_options() -> Vec<String> {
    GLOBAL_OPTIONS.with(|g| g.borrow().clone())
}
/// the log file of the binary goes below the scratch area, not to the system's temporary directory
fn log_dir() -> PathBuf {
    let d = verif_root().join(".build/tmp/logs");
    let _ = std::fs::create_dir_all(&d);
    d
}

pub fn run_cli(args: &[String], cwd: Option<&Path>) -> CliOut {
    run_cli_input(args, cwd, None, Duration::from_secs(60))
}

pub fn run_cli_input(args: &[String], cwd: Option<&Path>, input: Option<&[u8]>, limit: Duration) -> CliOut {
    let mut cmd = Command::new(ironplcc());
    cmd.args(global_options()).args(args).stdin(if input.is_some() { Stdio::piped() } else { Stdio::null() }).stdout(Stdio::piped()).stderr(Stdio::piped());
    cmd.env_remove("RUST_LOG").env("RUST_BACKTRACE", "0").env("TMPDIR", log_dir());
    if let Some(d) = cwd {
        cmd.current_dir(d);
    }
    let mut child = cmd.spawn().expect("spawn ironplcc (did ./build.sh run?)");
    let mut stdin = child.stdin.take();
    let mut out = child.stdout.take().unwrap();
    let mut err = child.stderr.take().unwrap();
    let to = std::thread::spawn(move || {
        let mut s = Vec::new();
        let _ = out.read_to_end(&mut s);
        s
    });
    let te = std::thread::spawn(move || {
        let mut s = Vec::new();
        let _ = err.read_to_end(&mut s);
        s
    });
    if let (Some(mut si), Some(data)) = (stdin.take(), input) {
        let data = data.to_vec();
        std::thread::spawn(move || {
            let _ = si.write_all(&data);
            // dropping closes stdin
        });
    }
    let start = Instant::now();
    let mut timed_out = false;
    let status = loop {
        match child.try_wait() {
            Ok(Some(st)) => break Some(st),
            Ok(None) => {
                if start.elapsed() > limit {
                    let _ = child.kill();
                    timed_out = true;
                    break child.wait().ok();
                }
                std::thread::sleep(Duration::from_millis(2));
            }
            Err(_) => break None,
        }
    };
    let stdout = String::from_utf8_lossy(&to.join().unwrap_or_default()).to_string();
    let stderr = String::from_utf8_lossy(&te.join().unwrap_or_default()).to_string();
    CliOut { status: status.and_then(|s| s.code()), stdout, stderr, timed_out }
}

pub fn strip_ansi(s: &str) -> String {
    let mut out = String::with_capacity(s.len());
    let mut it = s.chars().peekable();
    while let Some(c) = it.next() {
        if c == '\u{1b}' {
            if it.peek() == Some(&'[') {
                it.next();
                while let Some(&n) = it.peek() {
                    it.next();
                    if n.is_ascii_alphabetic() {
                        break;
                    }
                }
            }
        } else {
            out.push(c);
        }
    }
    out
}

#[derive(Debug, Clone, PartialEq, Eq, PartialOrd, Ord)]
pub struct CliDiag {
    pub code: String,
    /// file as printed (None when the diagnostic has no location line)
    pub file: Option<String>,
    /// 1-based line / column as printed
    pub line: usize,
    pub col: usize,
}

/// Parses codespan output: `error[P0015]: message` followed by `  ┌─ path:L:C`.
pub fn parse_cli_diags(stderr: &str) -> Vec<CliDiag> {
    let text = strip_ansi(stderr);
    let mut v: Vec<CliDiag> = vec![];
    for line in text.lines() {
        let t = line.trim_start();
        // a coded diagnostic of any severity the renderer knows (`check` emits errors today; a
        // diagnostic printed as a warning is still an emitted diagnostic)
        let head = ["error[", "warning[", "note[", "help[", "bug["].iter().find_map(|h| t.strip_prefix(h));
        if let Some(rest) = head {
            if let Some(end) = rest.find(']') {
                v.push(CliDiag { code: rest[..end].to_string(), file: None, line: 0, col: 0 });
            }
        } else if let Some(p) = t.find("┌─ ") {
            let loc = t[p + "┌─ ".len()..].trim();
            // path:L:C  (path may contain ':')
            let mut parts = loc.rsplitn(3, ':');
            let c = parts.next().and_then(|x| x.parse::<usize>().ok());
            let l = parts.next().and_then(|x| x.parse::<usize>().ok());
            let f = parts.next();
            if let (Some(c), Some(l), Some(f), Some(last)) = (c, l, f, v.last_mut()) {
                if last.file.is_none() {
                    last.file = Some(f.to_string());
                    last.line = l;
                    last.col = c;
                }
            }
        }
    }
    v
}

// ---------------------------------------------------------------------------------- LSP
use serde_json::{json, Value};

pub fn frame(v: &Value) -> Vec<u8> {
    let body = serde_json::to_vec(v).unwrap();
    let mut out = format!("Content-Length: {}\r\n\r\n", body.len()).into_bytes();
    out.extend(body);
    out
}

/// Parses a byte stream of LSP frames; returns the frames and whether trailing garbage was seen.
pub fn parse_frames(data: &[u8]) -> (Vec<Value>, bool) {
    let mut v = vec![];
    let mut i = 0;
    while i < data.len() {
        // header
        let rest = &data[i..];
        let hdr_end = match find(rest, b"\r\n\r\n") {
            Some(p) => p,
            None => return (v, true),
        };
        let hdr = String::from_utf8_lossy(&rest[..hdr_end]).to_string();
        let mut len: Option<usize> = None;
        for l in hdr.split("\r\n") {
            if let Some(x) = l.to_ascii_lowercase().strip_prefix("content-length:") {
                len = x.trim().parse().ok();
            }
        }
        let len = match len {
            Some(l) => l,
            None => return (v, true),
        };
        let start = i + hdr_end + 4;
        if start + len > data.len() {
            return (v, true);
        }
        match serde_json::from_slice::<Value>(&data[start..start + len]) {
            Ok(j) => v.push(j),
            Err(_) => return (v, true),
        }
        i = start + len;
    }
    (v, false)
}

fn find(h: &[u8], n: &[u8]) -> Option<usize> {
    h.windows(n.len()).position(|w| w == n)
}

pub struct LspRun {
    pub frames: Vec<Value>,
    pub garbage: bool,
    pub status: Option<i32>,
    pub stderr: String,
    pub timed_out: bool,
}

/// Runs `ironplcc lsp --stdio` on a complete script (all messages written, stdin closed) and
/// collects everything the server wrote.  The script should end with shutdown + exit.
pub fn lsp_run(messages: &[Value]) -> LspRun {
    lsp_run_limit(messages, 90)
}

/// the same with another wall-clock limit (a second, longer attempt tells a slow machine from a
/// server that has stopped for good)
pub fn lsp_run_limit(messages: &[Value], limit_secs: u64) -> LspRun {
    let mut input = vec![];
    for m in messages {
        input.extend(frame(m));
    }
    let mut cmd = Command::new(ironplcc());
    cmd.args(global_options()).args(["lsp", "--stdio"]).stdin(Stdio::piped()).stdout(Stdio::piped()).stderr(Stdio::piped());
    cmd.env_remove("RUST_LOG").env("RUST_BACKTRACE", "0").env("TMPDIR", log_dir());
    let mut child = cmd.spawn().expect("spawn ironplcc lsp");
    let mut si = child.stdin.take().unwrap();
    let mut out = child.stdout.take().unwrap();
    let mut err = child.stderr.take().unwrap();
    let to = std::thread::spawn(move || {
        let mut s = Vec::new();
        let _ = out.read_to_end(&mut s);
        s
    });
    let te = std::thread::spawn(move || {
        let mut s = Vec::new();
        let _ = err.read_to_end(&mut s);
        s
    });
    let tw = std::thread::spawn(move || {
        let _ = si.write_all(&input);
        let _ = si.flush();
        // stdin closes when `si` is dropped
    });
    let start = Instant::now();
    let mut timed_out = false;
    let status = loop {
        match child.try_wait() {
            Ok(Some(st)) => break st.code(),
            Ok(None) => {
                if start.elapsed() > Duration::from_secs(limit_secs) {
                    let _ = child.kill();
                    timed_out = true;
                    break child.wait().ok().and_then(|s| s.code());
                }
                std::thread::sleep(Duration::from_millis(1));
            }
            Err(_) => break None,
        }
    };
    let _ = tw.join();
    let so = to.join().unwrap_or_default();
    let se = te.join().unwrap_or_default();
    let (frames, garbage) = parse_frames(&so);
    LspRun { frames, garbage, status, stderr: String::from_utf8_lossy(&se).to_string(), timed_out }
}

pub fn lsp_initialize(id: i64) -> Value {
    json!({"jsonrpc":"2.0","id":id,"method":"initialize","params":{"processId":null,"rootUri":null,"capabilities":{}}})
}
pub fn lsp_initialized() -> Value {
    json!({"jsonrpc":"2.0","method":"initialized","params":{}})
}
pub fn lsp_shutdown(id: i64) -> Value {
    json!({"jsonrpc":"2.0","id":id,"method":"shutdown","params":null})
}
pub fn lsp_exit() -> Value {
    json!({"jsonrpc":"2.0","method":"exit","params":null})
}
pub fn lsp_did_open(uri: &str, version: i64, text: &str) -> Value {
    json!({"jsonrpc":"2.0","method":"textDocument/didOpen","params":{"textDocument":{"uri":uri,"languageId":"61131-3-st","version":version,"text":text}}})
}
pub fn lsp_did_change(uri: &str, version: i64, texts: &[&str]) -> Value {
    let changes: Vec<Value> = texts.iter().map(|t| json!({"text": t})).collect();
    json!({"jsonrpc":"2.0","method":"textDocument/didChange","params":{"textDocument":{"uri":uri,"version":version},"contentChanges":changes}})
}
pub fn lsp_did_close(uri: &str) -> Value {
    json!({"jsonrpc": "2.0", "method": "textDocument/didClose", "params": {"textDocument": {"uri": uri}}})
}
pub fn lsp_semantic_tokens(id: Value, uri: &str) -> Value {
    json!({"jsonrpc":"2.0","id":id,"method":"textDocument/semanticTokens/full","params":{"textDocument":{"uri":uri}}})
}

/// name of the i-th file of a generated compilation set.  Some names differ from another one only
/// in letter case (distinct files on a case-sensitive file system, distinct documents for a
/// project): a set must never lose a file because its name "equals" another one ignoring case.
pub fn set_file_name(i: usize) -> String {
    // (a name with a blank and a non-ASCII letter, names with a comma and a hash sign; also names without the usual extension: what is given - or lies in a given directory - is a
    // source file whatever it is called)
    const NAMES: &[&str] = &["unit.st", "Unit.st", "types", "\u{fc}nit two.st", "prog,v2.txt", "unit.ST", "third#1.iec", "UNIT.st"];
    if i < NAMES.len() {
        NAMES[i].to_string()
    } else {
        format!("f{}.st", i)
    }
}

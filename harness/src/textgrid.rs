//! Text-first declaration grid.  The AST-first generators can only write what the dsl types can
//! hold; a construct that the parser accepts and then *drops* (because the AST has no place for
//! it) or that panics a rule before an AST exists is invisible to them.  This module composes
//! POUs directly as text from the IEC 61131-3 productions of B.1.4.3 / B.1.5 and records where
//! every user identifier was written, so a census ("every identifier written is the span of some
//! Id of the returned library") can be taken without an expected AST.

use crate::tape::Tape;

#[derive(Clone, Debug)]
pub struct Cell {
    pub name: String,
    pub text: String,
    /// user identifiers written into the text: (spelling, byte offset)
    pub idents: Vec<(String, usize)>,
    /// the combination is derivable from the IEC grammar (B.1.4.3, B.1.5.1-3)
    pub legal: bool,
    /// contains an edge declaration inside a PROGRAM (KF-C01-09)
    pub program_edge: bool,
}

pub const CONTAINERS: &[&str] = &["FUNCTION", "FUNCTION_BLOCK", "PROGRAM"];

pub const HEADERS: &[&str] = &[
    "VAR_INPUT",
    "VAR_INPUT RETAIN",
    "VAR_INPUT NON_RETAIN",
    "VAR_OUTPUT",
    "VAR_OUTPUT RETAIN",
    "VAR_OUTPUT NON_RETAIN",
    "VAR_IN_OUT",
    "VAR",
    "VAR CONSTANT",
    "VAR RETAIN",
    "VAR NON_RETAIN",
    "VAR_EXTERNAL",
    "VAR_EXTERNAL CONSTANT",
    "VAR_TEMP",
];

/// declaration forms; `@x` marks a user identifier (written without the `@`)
pub const FORMS: &[(&str, &str)] = &[
    ("var1", "@va1 : INT"),
    ("var1-list", "@va1, @va2 : INT"),
    ("var1-init", "@va1 : INT := 5"),
    ("named-type", "@va1 : @TyA"),
    ("named-enum-init", "@va1 : @TyE := @ev1"),
    ("inline-enum", "@va1 : (@ev1, @ev2)"),
    ("inline-enum-init", "@va1 : (@ev1, @ev2) := @ev1"),
    ("subrange", "@va1 : INT (1..5)"),
    ("subrange-init", "@va1 : INT (1..5) := 2"),
    ("array", "@va1 : ARRAY[1..2] OF INT"),
    ("array-init", "@va1 : ARRAY[1..2] OF INT := [1, 2]"),
    ("array-of-named", "@va1 : ARRAY[1..2] OF @TyA"),
    ("struct-init", "@va1 : @TyS := (@m1 := 1)"),
    ("string", "@va1 : STRING[5]"),
    ("string-init", "@va1 : STRING[5] := 'x'"),
    ("wstring", "@va1 : WSTRING"),
    ("fb-init", "@va1 : @TyFb := (@in1 := 1)"),
    ("edge-rising", "@va1 : BOOL R_EDGE"),
    ("edge-falling", "@va1 : BOOL F_EDGE"),
    ("edge-list", "@va1, @va2 : BOOL R_EDGE"),
    ("located-named", "@va1 AT %IX1 : BOOL"),
    ("located-unnamed", "AT %QX1 : BOOL"),
    ("located-init", "@va1 AT %QW2 : INT := 3"),
    ("incomplete-located", "@va1 AT %I* : BOOL"),
];

fn is_init(form: &str) -> bool {
    form.ends_with("-init")
}

/// IEC 61131-3 (2nd ed.) B.1.4.3 / B.1.5: is `form` derivable inside a block with `header` of `container`?
pub fn legal(container: &str, header: &str, form: &str) -> bool {
    let edge = form.starts_with("edge");
    let located = form.starts_with("located");
    let incomplete = form == "incomplete-located";
    let fb = form == "fb-init";
    // a bare type name may be a function block type: fb_name_decl.  In a FUNCTION's own VAR block
    // (var2_init_decl) a named type is still derivable as a simple / structured type.
    match header {
        "VAR_INPUT" | "VAR_INPUT RETAIN" | "VAR_INPUT NON_RETAIN" => !located && !incomplete,
        "VAR_OUTPUT" | "VAR_OUTPUT RETAIN" | "VAR_OUTPUT NON_RETAIN" => !located && !incomplete && !edge,
        "VAR_IN_OUT" => !located && !incomplete && !edge && (!is_init(form) || fb),
        "VAR" | "VAR CONSTANT" => {
            if edge || incomplete {
                false
            } else if located {
                container == "PROGRAM"
            } else if container == "FUNCTION" {
                !fb
            } else {
                true
            }
        }
        "VAR RETAIN" | "VAR NON_RETAIN" => {
            if container == "FUNCTION" || edge {
                false
            } else if located {
                container == "PROGRAM"
            } else {
                true
            }
        }
        "VAR_EXTERNAL" | "VAR_EXTERNAL CONSTANT" => container != "FUNCTION" && matches!(form, "var1" | "named-type" | "inline-enum" | "subrange" | "array" | "array-of-named"),
        "VAR_TEMP" => container != "FUNCTION" && !located && !incomplete && !edge && !is_init(form),
        _ => false,
    }
}

struct W {
    text: String,
    idents: Vec<(String, usize)>,
}

impl W {
    fn new() -> W {
        W { text: String::new(), idents: vec![] }
    }
    /// write a template; `@name` marks a user identifier
    fn put(&mut self, tpl: &str, suffix: &str) {
        let b = tpl.as_bytes();
        let mut i = 0;
        while i < b.len() {
            if b[i] == b'@' {
                let mut j = i + 1;
                while j < b.len() && (b[j].is_ascii_alphanumeric() || b[j] == b'_') {
                    j += 1;
                }
                let name = format!("{}{}", &tpl[i + 1..j], suffix);
                self.idents.push((name.clone(), self.text.len()));
                self.text.push_str(&name);
                i = j;
            } else {
                self.text.push(b[i] as char);
                i += 1;
            }
        }
    }
}

fn open(w: &mut W, container: &str, n: usize) {
    match container {
        "FUNCTION" => w.put(&format!("FUNCTION @fun{} : INT\n", n), ""),
        "FUNCTION_BLOCK" => w.put(&format!("FUNCTION_BLOCK @fbk{}\n", n), ""),
        _ => w.put(&format!("PROGRAM @prg{}\n", n), ""),
    }
}

fn close(w: &mut W, container: &str, n: usize) {
    match container {
        "FUNCTION" => {
            w.put(&format!("@fun{} := 1;\n", n), "");
            w.put("END_FUNCTION\n", "");
        }
        "FUNCTION_BLOCK" => {
            w.put("@zz1 := 1;\n", "");
            w.put("END_FUNCTION_BLOCK\n", "");
        }
        _ => {
            w.put("@zz1 := 1;\n", "");
            w.put("END_PROGRAM\n", "");
        }
    }
}

/// the exhaustive grid: container x header x form, alone and followed by a plain neighbour block
pub fn cells() -> Vec<Cell> {
    let mut out = vec![];
    for c in CONTAINERS {
        for h in HEADERS {
            for (fname, form) in FORMS {
                for neighbour in [false, true] {
                    let mut w = W::new();
                    open(&mut w, c, 1);
                    w.put(&format!("{}\n  ", h), "");
                    w.put(form, "");
                    w.put(";\nEND_VAR\n", "");
                    if neighbour {
                        w.put("VAR_OUTPUT\n  @nb1 : BOOL;\nEND_VAR\n", "");
                    }
                    close(&mut w, c, 1);
                    out.push(Cell { name: format!("{}/{}/{}{}", c, h, fname, if neighbour { "+neighbour" } else { "" }), text: w.text, idents: w.idents, legal: legal(c, h, fname), program_edge: *c == "PROGRAM" && fname.starts_with("edge") });
                }
            }
        }
    }
    // VAR_ACCESS in a PROGRAM
    for dir in ["", " READ_ONLY", " READ_WRITE"] {
        let mut w = W::new();
        open(&mut w, "PROGRAM", 1);
        w.put("VAR\n  @va1 : INT;\nEND_VAR\n", "");
        w.put(&format!("VAR_ACCESS\n  @acc1 : @va1 : INT{};\nEND_VAR\n", dir), "");
        close(&mut w, "PROGRAM", 1);
        out.push(Cell { name: format!("PROGRAM/VAR_ACCESS/{}", dir.trim()), text: w.text, idents: w.idents, legal: true, program_edge: false });
    }
    out
}

/// a random compilation unit: 1-3 POUs, 0-4 blocks each, 1-3 declarations per block, any header
/// with any form (legal or not), all identifiers distinct
pub fn random_unit(t: &mut Tape) -> Cell {
    let mut w = W::new();
    let mut all_legal = true;
    let mut program_edge = false;
    let npou = t.count(1, 3);
    let mut name = String::new();
    for p in 0..npou {
        let c = *t.pick(CONTAINERS);
        open(&mut w, c, p + 1);
        let nblocks = t.count(0, 4);
        for b in 0..nblocks {
            let h = *t.pick(HEADERS);
            w.put(&format!("{}\n", h), "");
            let nd = t.count(1, 3);
            for d in 0..nd {
                let (fname, form) = *t.pick(FORMS);
                if !legal(c, h, fname) {
                    all_legal = false;
                }
                if c == "PROGRAM" && fname.starts_with("edge") {
                    program_edge = true;
                }
                w.put("  ", "");
                w.put(form, &format!("_{}_{}_{}", p, b, d));
                w.put(";\n", "");
                if name.len() < 120 {
                    name.push_str(&format!("{}/{}/{} ", c, h, fname));
                }
            }
            w.put("END_VAR\n", "");
        }
        close(&mut w, c, p + 1);
    }
    Cell { name, text: w.text, idents: w.idents, legal: all_legal, program_edge }
}

/// census: every user identifier written is the span of an Id of the library
pub fn census(cell: &Cell, ids: &[(String, usize, usize, String)]) -> Result<(), String> {
    let set: std::collections::HashSet<(&str, usize)> = ids.iter().map(|(o, s, _, _)| (o.as_str(), *s)).collect();
    for (name, off) in &cell.idents {
        if !set.contains(&(name.as_str(), *off)) {
            let line = cell.text[..*off].matches('\n').count() + 1;
            return Err(format!("identifier {:?} written at byte {} (line {}) is the span of no identifier in the parsed library: it was dropped", name, off, line));
        }
    }
    Ok(())
}

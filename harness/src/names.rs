//! Identifier generation.  Generated identifiers are IEC 61131-3 identifiers
//! (letter or underscore first, no double / trailing underscore) that are not
//! reserved in any letter case: not a keyword of the lexer, not one of the words
//! the grammar matches by text (INTERVAL, PRIORITY, action qualifiers, duration
//! units, literal prefixes) and not a standard function-block name.

use crate::tape::Tape;
use std::collections::HashSet;

pub const KEYWORDS: &[&str] = &[
    "ACTION", "END_ACTION", "ARRAY", "OF", "AT", "CASE", "ELSE", "END_CASE", "CONSTANT", "CONFIGURATION",
    "END_CONFIGURATION", "EN", "ENO", "EXIT", "FALSE", "F_EDGE", "FOR", "TO", "BY", "DO", "END_FOR", "FUNCTION",
    "END_FUNCTION", "FUNCTION_BLOCK", "END_FUNCTION_BLOCK", "IF", "THEN", "ELSIF", "END_IF", "INITIAL_STEP",
    "END_STEP", "PROGRAM", "WITH", "END_PROGRAM", "R_EDGE", "READ_ONLY", "READ_WRITE", "REPEAT", "UNTIL",
    "END_REPEAT", "RESOURCE", "ON", "END_RESOURCE", "RETAIN", "NON_RETAIN", "RETURN", "STEP", "STRUCT",
    "END_STRUCT", "TASK", "END_TASK", "TRANSITION", "FROM", "END_TRANSITION", "TRUE", "TYPE", "END_TYPE", "VAR",
    "END_VAR", "VAR_INPUT", "VAR_OUTPUT", "VAR_IN_OUT", "VAR_TEMP", "VAR_EXTERNAL", "VAR_ACCESS", "VAR_CONFIG",
    "VAR_GLOBAL", "WHILE", "END_WHILE", "BOOL", "SINT", "INT", "DINT", "LINT", "USINT", "UINT", "UDINT", "ULINT",
    "REAL", "LREAL", "TIME", "DATE", "TIME_OF_DAY", "TOD", "DATE_AND_TIME", "DT", "STRING", "BYTE", "WORD", "DWORD",
    "LWORD", "WSTRING", "OR", "XOR", "AND", "MOD", "NOT",
];

/// words matched by text in the grammar + IEC keywords the lexer does not know
pub const TEXTUAL: &[&str] = &[
    "INTERVAL", "PRIORITY", "SINGLE", "N", "R", "S", "L", "D", "P", "SD", "DS", "SL", "P0", "P1", "T", "H", "M", "MS",
    "E", "ANY", "ANY_DERIVED", "ANY_ELEMENTARY", "ANY_MAGNITUDE", "ANY_NUM", "ANY_REAL", "ANY_INT", "ANY_BIT",
    "ANY_STRING", "ANY_DATE", "VAR_TEMP", "END_VAR", "LD", "ST", "JMP", "CAL", "RET",
];

/// standard function blocks (analyzer/src/stdlib.rs flags some of these as unsupported types)
pub const STD_FB: &[&str] = &[
    "SR", "RS", "R_TRIG", "F_TRIG", "CTU", "CTD", "CTUD", "TP", "TON", "TOF", "CTU_DINT", "CTU_LINT", "CTU_UDINT",
    "CTU_ULINT", "CTD_DINT", "CTD_LINT", "CTD_UDINT", "CTD_ULINT", "CTUD_DINT", "CTUD_LINT", "CTUD_ULINT", "CTUD_UDINT",
];

/// words of `TEXTUAL` that are ordinary identifiers outside the one construct that mentions them
/// (the pinned tree accepts each as variable, element, parameter, type and POU name)
pub const CONTEXTUAL_NAMES: &[&str] = &["Interval", "Priority", "Single", "Overlap", "ms", "us", "ns", "d", "h", "m", "s", "R", "N", "L", "P", "SD", "DS", "SL", "P0", "P1", "T", "E"];

pub fn is_reserved(name: &str) -> bool {
    let u = name.to_ascii_uppercase();
    KEYWORDS.contains(&u.as_str()) || TEXTUAL.contains(&u.as_str()) || STD_FB.contains(&u.as_str())
}

const KW_PREFIXES: &[&str] = &[
    "IF", "END_IF", "TO", "OR", "MOD", "NOT", "INT", "TOD", "VAR", "AT", "ON", "BY", "DO", "OF", "TRUE", "END", "T",
    "D", "XOR", "AND", "STEP", "E", "MS", "N", "P1",
];

#[derive(Default)]
pub struct Names {
    used: HashSet<String>,
    pub all: Vec<String>,
    /// prepended to every fresh name (keeps independently generated units disjoint)
    pub prefix: String,
}

impl Names {
    pub fn new() -> Self {
        Names::default()
    }
    /// a fresh identifier, unique (case-insensitively) within this generator
    pub fn fresh(&mut self, t: &mut Tape) -> String {
        // now and then a word that the grammar matches by text in ONE place (task parameters,
        // duration units) but that IEC 61131-3 does not reserve: it is a name everywhere else
        if self.prefix.is_empty() && t.ratio(1, 25) {
            let w = *t.pick(CONTEXTUAL_NAMES);
            let w = match t.below(3) {
                0 => w.to_ascii_lowercase(),
                1 => w.to_ascii_uppercase(),
                _ => w.to_string(),
            };
            let key = w.to_ascii_lowercase();
            if !self.used.contains(&key) {
                self.used.insert(key);
                self.all.push(w.clone());
                return w;
            }
        }
        let mut s = self.prefix.clone();
        if t.ratio(1, 10) {
            s.push_str(*t.pick(KW_PREFIXES));
            match t.below(3) {
                0 => s.push('1'),
                1 => s.push_str("_x"),
                _ => s.push('E'),
            }
        } else {
            let len = 1 + t.count(0, 7);
            for i in 0..len {
                let c = if i == 0 {
                    let k = t.below(53);
                    if k < 26 {
                        (b'a' + k as u8) as char
                    } else if k < 52 {
                        (b'A' + (k - 26) as u8) as char
                    } else {
                        '_'
                    }
                } else {
                    let k = t.below(64);
                    if k < 26 {
                        (b'a' + k as u8) as char
                    } else if k < 52 {
                        (b'A' + (k - 26) as u8) as char
                    } else if k < 62 {
                        (b'0' + (k - 52) as u8) as char
                    } else {
                        '_'
                    }
                };
                if c == '_' && s.ends_with('_') {
                    s.push('a');
                } else {
                    s.push(c);
                }
            }
            if s.ends_with('_') {
                s.push('z');
            }
        }
        let mut n = 0;
        loop {
            let key = s.to_ascii_lowercase();
            if !is_reserved(&s) && !self.used.contains(&key) {
                self.used.insert(key);
                self.all.push(s.clone());
                return s;
            }
            n += 1;
            s.push_str(&n.to_string());
        }
    }
    /// reserve a specific name
    pub fn reserve(&mut self, s: &str) {
        self.used.insert(s.to_ascii_lowercase());
    }
    /// an already generated name (for references) or a fresh one
    pub fn any(&mut self, t: &mut Tape) -> String {
        if !self.all.is_empty() && t.ratio(2, 3) {
            let i = t.below(self.all.len());
            self.all[i].clone()
        } else {
            self.fresh(t)
        }
    }
}

//! Panic capture: run code under test, turn a panic into (location, message).

use std::cell::{Cell, RefCell};

thread_local! {
    static QUIET: Cell<bool> = Cell::new(false);
    static LAST: RefCell<Option<(String, String)>> = RefCell::new(None);
}

pub fn install_hook() {
    std::panic::set_hook(Box::new(|info| {
        let loc = info.location().map(|l| format!("{}:{}", l.file(), l.line())).unwrap_or_default();
        let msg = if let Some(s) = info.payload().downcast_ref::<&str>() {
            s.to_string()
        } else if let Some(s) = info.payload().downcast_ref::<String>() {
            s.clone()
        } else {
            "<non-string panic payload>".to_string()
        };
        if QUIET.with(|q| q.get()) {
            LAST.with(|l| *l.borrow_mut() = Some((loc, msg)));
        } else {
            eprintln!("harness panic at {}: {}", loc, msg);
        }
    }));
}

/// Runs `f`; Err((location, message)) if it panicked.
pub fn catch<T>(f: impl FnOnce() -> T) -> Result<T, (String, String)> {
    let prev = QUIET.with(|q| q.replace(true));
    LAST.with(|l| *l.borrow_mut() = None);
    let r = std::panic::catch_unwind(std::panic::AssertUnwindSafe(f));
    QUIET.with(|q| q.set(prev));
    match r {
        Ok(v) => Ok(v),
        Err(_) => Err(LAST.with(|l| l.borrow_mut().take()).unwrap_or_else(|| ("?".into(), "?".into()))),
    }
}

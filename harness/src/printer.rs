//! The harness' own pretty printer: `ironplc_dsl` AST -> lexeme stream in
//! IEC 61131-3 concrete syntax.  It is written from the IEC grammar (Annex B)
//! and is independent of `ironplc_plc2plc` (which is a *subject* of C10).
//!
//! Alternative spellings of the same meaning (STRING[5] / STRING(5), & / AND,
//! TOD# / TIME_OF_DAY#, 255 / 16#FF / 2_5_5, grouping of TYPE declarations into
//! one block ...) are chosen from the tape; an exhausted tape yields the
//! canonical spelling.

use crate::gates::Gates;
use crate::lexeme::*;
use crate::tape::Tape;
use ironplc_dsl::common::*;
use ironplc_dsl::configuration::*;
use ironplc_dsl::core::Id;
use ironplc_dsl::sfc::*;
use ironplc_dsl::textual::*;
use ironplc_dsl::time::*;

pub const ELEMENTARY: &[&str] = &[
    "BOOL", "SINT", "INT", "DINT", "LINT", "USINT", "UINT", "UDINT", "ULINT", "REAL", "LREAL", "TIME", "DATE",
    "TIME_OF_DAY", "DATE_AND_TIME", "STRING", "BYTE", "WORD", "DWORD", "LWORD", "WSTRING",
];

pub struct Printer<'a, 't> {
    pub o: Out,
    pub t: Tape<'t>,
    pub g: &'a Gates,
}

fn elem_name(e: &ElementaryTypeName) -> &'static str {
    match e {
        ElementaryTypeName::BOOL => "BOOL",
        ElementaryTypeName::SINT => "SINT",
        ElementaryTypeName::INT => "INT",
        ElementaryTypeName::DINT => "DINT",
        ElementaryTypeName::LINT => "LINT",
        ElementaryTypeName::USINT => "USINT",
        ElementaryTypeName::UINT => "UINT",
        ElementaryTypeName::UDINT => "UDINT",
        ElementaryTypeName::ULINT => "ULINT",
        ElementaryTypeName::REAL => "REAL",
        ElementaryTypeName::LREAL => "LREAL",
        ElementaryTypeName::TIME => "TIME",
        ElementaryTypeName::DATE => "DATE",
        ElementaryTypeName::TimeOfDay => "TIME_OF_DAY",
        ElementaryTypeName::DateAndTime => "DATE_AND_TIME",
        ElementaryTypeName::STRING => "STRING",
        ElementaryTypeName::BYTE => "BYTE",
        ElementaryTypeName::WORD => "WORD",
        ElementaryTypeName::DWORD => "DWORD",
        ElementaryTypeName::LWORD => "LWORD",
        ElementaryTypeName::WSTRING => "WSTRING",
        #[allow(unreachable_patterns)]
        _ => panic!("ironplc dsl variant unknown to the verification harness"),
    }
}

fn prec_of(e: &ExprKind) -> u8 {
    match e {
        ExprKind::Compare(c) => match c.op {
            CompareOp::Or => 1,
            CompareOp::Xor => 2,
            CompareOp::And => 3,
            CompareOp::Eq | CompareOp::Ne => 4,
            CompareOp::Lt | CompareOp::Gt | CompareOp::LtEq | CompareOp::GtEq => 5,
            #[allow(unreachable_patterns)]
            _ => panic!("ironplc dsl variant unknown to the verification harness"),
        },
        ExprKind::BinaryOp(b) => match b.op {
            Operator::Add | Operator::Sub => 6,
            Operator::Mul | Operator::Div | Operator::Mod => 7,
            Operator::Pow => 8,
            #[allow(unreachable_patterns)]
            _ => panic!("ironplc dsl variant unknown to the verification harness"),
        },
        ExprKind::UnaryOp(_) => 9,
        _ => 10,
    }
}

impl<'a, 't> Printer<'a, 't> {
    pub fn new(g: &'a Gates, t: Tape<'t>) -> Self {
        Printer { o: Out::new(), t, g }
    }

    pub fn finish(self) -> Vec<Lexeme> {
        let mut lex = self.o.lex;
        // gated: an END_IF that omits its semicolon and directly follows another END_IF
        // (only blanks / comments / semicolons in between)
        let is_end_if = |l: &Lexeme| l.text == "END_IF" && l.class == Class::Keyword;
        let mut i = 0;
        while i < lex.len() {
            let has_semi = lex.get(i + 1).map(|l| l.text == ";").unwrap_or(false);
            if is_end_if(&lex[i]) && !has_semi {
                let mut k = i;
                while k > 0 && lex[k - 1].text == ";" {
                    k -= 1;
                }
                if k > 0 && is_end_if(&lex[k - 1]) && !self.g.want("END_IF_WITHOUT_SEMICOLON_AFTER_END_IF") {
                    lex.insert(i + 1, Lexeme { text: ";".into(), class: Class::Punct, join: Join::Tight, mark: None });
                }
            }
            i += 1;
        }
        lex
    }

    // ---------------------------------------------------------------- names
    fn ident(&mut self, id: &Id) {
        self.o.id(id.original());
    }
    fn type_name(&mut self, ty: &Type) {
        let n = ty.name.original().to_ascii_uppercase();
        if ELEMENTARY.contains(&n.as_str()) {
            self.elem_kw(&n);
        } else {
            self.o.id(ty.name.original());
        }
    }
    fn elem_kw(&mut self, n: &str) {
        let s = match n {
            "TIME_OF_DAY" if self.t.flag() => "TOD",
            "DATE_AND_TIME" if self.t.flag() => "DT",
            x => x,
        };
        self.o.tykw(s);
    }
    fn elem(&mut self, e: &ElementaryTypeName) {
        self.elem_kw(elem_name(e));
    }

    // ------------------------------------------------------------- literals
    fn digits(&mut self, v: u128) -> String {
        let s = v.to_string();
        if s.len() >= 2 && self.t.ratio(1, 6) {
            // underscores between digits
            let mut out = String::new();
            for (i, c) in s.chars().enumerate() {
                if i > 0 && self.t.ratio(1, 3) {
                    out.push('_');
                }
                out.push(c);
            }
            out
        } else if self.t.ratio(1, 12) {
            // leading zero
            format!("0{}", s)
        } else {
            s
        }
    }
    /// unsigned integer token, decimal only (rule `integer`)
    fn integer(&mut self, i: &Integer) {
        let s = self.digits(i.value);
        self.o.num(&s);
    }
    fn based(&mut self, v: u128) -> Option<String> {
        match self.t.below(12) {
            1 => Some(format!("16#{:X}", v)),
            2 => Some(format!("8#{:o}", v)),
            3 => Some(format!("2#{:b}", v)),
            4 => {
                let s = format!("{:X}", v);
                if s.len() > 2 {
                    Some(format!("16#{}_{}", &s[..1], &s[1..]))
                } else {
                    Some(format!("16#{}", s))
                }
            }
            _ => None,
        }
    }
    /// rule signed_integer: [+|-] digits ; first lexeme takes the pending joint
    fn signed_integer(&mut self, si: &SignedInteger) {
        if si.is_neg {
            self.o.op("-");
            self.o.glue();
        } else if self.t.ratio(1, 10) {
            self.o.op("+");
            self.o.glue();
        }
        self.integer(&si.value);
    }
    fn integer_literal(&mut self, il: &IntegerLiteral) {
        if let Some(dt) = &il.data_type {
            self.elem(dt);
            self.o.glue().p_tight("#");
            self.o.glue();
        }
        if !il.value.is_neg {
            if let Some(b) = self.based(il.value.value.value) {
                self.g.hit("lit.int.based");
                self.o.num(&b);
                return;
            }
        }
        self.g.hit("lit.int");
        self.signed_integer(&il.value);
    }
    fn real_text(&mut self, v: f64) -> String {
        let a = v.abs();
        let alt = self.t.below(8);
        if alt == 1 && a != 0.0 && self.g.want("REAL_EXPONENT") {
            // exponent form; mantissa needs a fraction for the FloatingPoint token
            let s = format!("{:e}", a);
            let (m, e) = s.split_once('e').unwrap();
            let m = if m.contains('.') { m.to_string() } else { format!("{}.0", m) };
            let e_letter = if self.t.flag() { "e" } else { "E" };
            let e = if !e.starts_with('-') && self.t.flag() && self.g.want("REAL_EXPONENT_PLUS") {
                format!("+{}", e)
            } else {
                e.to_string()
            };
            self.g.hit("lit.real.exp");
            return format!("{}{}{}", m, e_letter, e);
        }
        let s = format!("{}", a);
        self.g.hit("lit.real");
        if s.contains('.') {
            s
        } else {
            format!("{}.0", s)
        }
    }
    fn real_literal(&mut self, r: &RealLiteral) {
        if let Some(dt) = &r.data_type {
            self.elem(dt);
            self.o.glue().p_tight("#");
            self.o.glue();
        }
        if r.value.is_sign_negative() && r.value != 0.0 {
            self.o.op("-");
            self.o.glue();
        }
        let s = self.real_text(r.value);
        self.o.num(&s);
    }
    fn char_string(&mut self, chars: &[char], wide: bool, allow_prefix: bool) {
        if allow_prefix && self.t.ratio(1, 8) {
            self.o.tykw(if wide { "WSTRING" } else { "STRING" });
            self.o.glue().p_tight("#");
            self.o.glue();
        }
        let q = if wide { '"' } else { '\'' };
        let mut s = String::new();
        s.push(q);
        s.extend(chars.iter());
        s.push(q);
        self.o.str(&s);
    }
    pub fn duration_parts(&mut self, total_ns: i128) -> Vec<(String, &'static str)> {
        // decompose |total| into d h m s ms parts; the last part may carry a fraction
        let mut ns = total_ns.unsigned_abs();
        let mut parts: Vec<(String, &'static str)> = Vec::new();
        let units: [(&'static str, u128); 5] =
            [("d", 86_400_000_000_000), ("h", 3_600_000_000_000), ("m", 60_000_000_000), ("s", 1_000_000_000), ("ms", 1_000_000)];
        let style = self.t.below(4);
        if style == 0 || !self.g.want("DURATION_MULTI_UNIT") {
            // single unit: the largest unit that divides the value, else ms / fraction
            for (u, f) in units.iter() {
                if ns % f == 0 && (ns >= *f || *u == "ms") {
                    parts.push(((ns / f).to_string(), u));
                    return parts;
                }
            }
            // sub-millisecond remainder: fractional seconds or milliseconds
            if self.t.flag() {
                parts.push((frac(ns, 1_000_000_000), "s"));
            } else {
                parts.push((frac(ns, 1_000_000), "ms"));
            }
            return parts;
        }
        // multi unit decomposition
        for (i, (u, f)) in units.iter().enumerate() {
            let last = i == 4;
            if last {
                if ns > 0 || parts.is_empty() {
                    parts.push((frac(ns, *f), u));
                }
            } else {
                let q = ns / f;
                if q > 0 {
                    // optionally stop here with a fraction instead of smaller units
                    parts.push((q.to_string(), u));
                    ns -= q * f;
                }
            }
        }
        parts
    }
    /// underscores between the digits of a fixed-point number - on both sides of the point (they
    /// are ignored wherever they stand; the scale of the fraction is the number of its DIGITS)
    fn underscored(&mut self, num: &str) -> String {
        if !num.contains('.') || !self.t.ratio(1, 4) || !self.g.want("FRACTION_UNDERSCORE") {
            return num.to_string();
        }
        let mut out = String::new();
        let mut prev_digit = false;
        for c in num.chars() {
            if c.is_ascii_digit() && prev_digit && self.t.ratio(1, 3) {
                out.push('_');
            }
            out.push(c);
            prev_digit = c.is_ascii_digit();
        }
        out
    }
    fn duration(&mut self, d: &DurationLiteral) {
        let total_ns = d.interval.whole_nanoseconds();
        match self.t.below(3) {
            0 => {
                self.o.textkw("T");
            }
            1 => {
                self.o.tykw("TIME");
            }
            _ => {
                if self.g.want("DURATION_LOWER_T") {
                    self.o.textkw("t");
                } else {
                    self.o.textkw("T");
                }
            }
        }
        self.o.glue().p_tight("#");
        if total_ns < 0 {
            self.o.glue().op("-");
        }
        let parts = self.duration_parts(total_ns);
        let n = parts.len();
        for (i, (num, unit)) in parts.into_iter().enumerate() {
            let num = self.underscored(&num);
            self.o.glue().num(&num);
            self.o.glue().textkw(unit);
            if i + 1 < n && self.t.ratio(1, 4) && self.g.want("DURATION_UNDERSCORE") {
                self.o.glue().textkw("_");
            }
        }
        self.g.hit("lit.duration");
    }
    fn two(&mut self, v: u32) -> String {
        if v < 10 && self.t.ratio(3, 4) {
            format!("0{}", v)
        } else {
            v.to_string()
        }
    }
    fn date_fields(&mut self, y: i32, m: u8, d: u8) {
        self.o.glue().num(&format!("{:04}", y));
        self.o.glue().op("-");
        let ms = self.two(m as u32);
        self.o.glue().num(&ms);
        self.o.glue().op("-");
        let ds = self.two(d as u32);
        self.o.glue().num(&ds);
    }
    fn tod_fields(&mut self, h: u8, m: u8, s: u8, micro: u32) {
        let hs = self.two(h as u32);
        self.o.glue().num(&hs);
        self.o.glue().p_tight(":");
        let ms = self.two(m as u32);
        self.o.glue().num(&ms);
        self.o.glue().p_tight(":");
        let mut ss = self.two(s as u32);
        if micro > 0 {
            let f = format!("{:06}", micro);
            ss = format!("{}.{}", ss, f.trim_end_matches('0'));
            ss = self.underscored(&ss);
        }
        self.o.glue().num(&ss);
    }
    pub fn constant(&mut self, c: &ConstantKind) {
        match c {
            ConstantKind::IntegerLiteral(il) => self.integer_literal(il),
            ConstantKind::RealLiteral(r) => self.real_literal(r),
            ConstantKind::Boolean(b) => {
                let word = if b.value == Boolean::True { "TRUE" } else { "FALSE" };
                let mut digit = false;
                if self.t.ratio(1, 5) {
                    self.o.tykw("BOOL");
                    self.o.glue().p_tight("#");
                    self.o.glue();
                    // (behind the type name the value may be written 1 / 0: still the Boolean literal)
                    digit = self.t.flag() && self.g.want("BOOL_HASH_DIGIT");
                }
                if digit {
                    self.o.num(if b.value == Boolean::True { "1" } else { "0" });
                } else {
                    self.o.kw(word);
                }
                self.g.hit("lit.bool");
            }
            ConstantKind::CharacterString(s) => {
                // quote kind is not kept by the AST: either may be used
                let wide = self.t.ratio(1, 3);
                self.char_string(&s.value, wide, true);
                self.g.hit("lit.string");
            }
            ConstantKind::Duration(d) => self.duration(d),
            ConstantKind::TimeOfDay(tod) => {
                let (h, m, s, micro) = tod.hmsm();
                self.o.tykw(if self.t.flag() { "TOD" } else { "TIME_OF_DAY" });
                self.o.glue().p_tight("#");
                self.tod_fields(h, m, s, micro);
                self.g.hit("lit.tod");
            }
            ConstantKind::Date(d) => {
                let (y, m, dd) = d.ymd();
                match self.t.below(3) {
                    0 => self.o.tykw("DATE"),
                    1 => self.o.textkw("D"),
                    _ => {
                        if self.g.want("DATE_LOWER_D") {
                            self.o.textkw("d")
                        } else {
                            self.o.textkw("D")
                        }
                    }
                };
                self.o.glue().p_tight("#");
                self.date_fields(y, m, dd);
                self.g.hit("lit.date");
            }
            ConstantKind::DateAndTime(dt) => {
                let (y, m, dd) = dt.ymd();
                let (h, mi, s, micro) = dt.hmsm();
                self.o.tykw(if self.t.flag() { "DT" } else { "DATE_AND_TIME" });
                self.o.glue().p_tight("#");
                self.date_fields(y, m, dd);
                self.o.glue().op("-");
                self.tod_fields(h, mi, s, micro);
                self.g.hit("lit.dt");
            }
            ConstantKind::BitStringLiteral(b) => {
                if let Some(dt) = &b.data_type {
                    self.elem(dt);
                    self.o.glue().p_tight("#");
                    self.o.glue();
                }
                match self.based(b.value.value) {
                    Some(s) => {
                        self.o.num(&s);
                    }
                    None => self.integer(&b.value),
                }
                self.g.hit("lit.bitstring");
            }
            #[allow(unreachable_patterns)]
            _ => panic!("ironplc dsl variant unknown to the verification harness"),
        }
    }

    pub fn address(&mut self, a: &AddressAssignment) {
        let mut s = String::from("%");
        s.push(match a.location {
            LocationPrefix::I => 'I',
            LocationPrefix::Q => 'Q',
            LocationPrefix::M => 'M',
            #[allow(unreachable_patterns)]
            _ => panic!("ironplc dsl variant unknown to the verification harness"),
        });
        match a.size {
            SizePrefix::Unspecified => s.push('*'),
            SizePrefix::Nil => {}
            SizePrefix::X => s.push('X'),
            SizePrefix::B => s.push('B'),
            SizePrefix::W => s.push('W'),
            SizePrefix::D => s.push('D'),
            SizePrefix::L => s.push('L'),
            #[allow(unreachable_patterns)]
            _ => panic!("ironplc dsl variant unknown to the verification harness"),
        }
        let parts: Vec<String> = a.address.iter().map(|v| v.to_string()).collect();
        s.push_str(&parts.join("."));
        self.o.addr(&s);
        self.g.hit("address");
    }

    // ------------------------------------------------------------ type decls
    fn enum_value(&mut self, ev: &EnumeratedValue) {
        if let Some(tn) = &ev.type_name {
            self.type_name(tn);
            self.o.glue().p_tight("#");
            self.o.glue();
        }
        self.ident(&ev.value);
    }
    fn enum_values(&mut self, vs: &[EnumeratedValue]) {
        self.o.p("(");
        for (i, v) in vs.iter().enumerate() {
            if i > 0 {
                self.o.p_tight(",");
            } else {
                self.o.tight();
            }
            self.enum_value(v);
        }
        self.o.p_tight(")");
    }
    fn subrange(&mut self, sr: &Subrange) {
        self.signed_integer(&sr.start);
        self.o.p_tight("..");
        self.o.tight();
        self.signed_integer(&sr.end);
    }
    fn subrange_spec(&mut self, s: &SubrangeSpecificationKind) {
        match s {
            SubrangeSpecificationKind::Specification(sp) => {
                self.elem(&sp.type_name);
                self.o.tight().p("(");
                self.o.tight();
                self.subrange(&sp.subrange);
                self.o.p_tight(")");
            }
            SubrangeSpecificationKind::Type(t) => self.type_name(t),
            #[allow(unreachable_patterns)]
            _ => panic!("ironplc dsl variant unknown to the verification harness"),
        }
    }
    fn array_spec(&mut self, s: &ArraySpecificationKind) {
        match s {
            ArraySpecificationKind::Type(t) => self.type_name(t),
            ArraySpecificationKind::Subranges(sr) => {
                self.o.kw("ARRAY");
                self.o.tight().p("[");
                for (i, r) in sr.ranges.iter().enumerate() {
                    if i > 0 {
                        self.o.p_tight(",");
                    } else {
                        self.o.tight();
                    }
                    self.subrange(r);
                }
                self.o.p_tight("]");
                self.o.kw("OF");
                self.type_name(&sr.type_name);
            }
            #[allow(unreachable_patterns)]
            _ => panic!("ironplc dsl variant unknown to the verification harness"),
        }
    }
    fn array_init_elem(&mut self, e: &ArrayInitialElementKind) {
        match e {
            ArrayInitialElementKind::Constant(c) => self.constant(c),
            ArrayInitialElementKind::EnumValue(ev) => self.enum_value(ev),
            ArrayInitialElementKind::Repeated(r) => {
                self.integer(&r.size);
                self.o.tight().p("(");
                if let Some(inner) = r.init.as_ref() {
                    self.o.glue();
                    self.array_init_elem(inner);
                }
                self.o.glue().p_tight(")");
                self.g.hit("array.init.repeated");
            }
            #[allow(unreachable_patterns)]
            _ => panic!("ironplc dsl variant unknown to the verification harness"),
        }
    }
    fn array_init(&mut self, init: &[ArrayInitialElementKind]) {
        self.o.p("[");
        for (i, e) in init.iter().enumerate() {
            if i > 0 {
                self.o.p_tight(",");
            } else {
                self.o.tight();
            }
            self.array_init_elem(e);
        }
        self.o.p_tight("]");
    }
    fn struct_init(&mut self, elems: &[StructureElementInit]) {
        self.o.p("(");
        for (i, e) in elems.iter().enumerate() {
            if i > 0 {
                self.o.p_tight(",");
            } else {
                self.o.tight();
            }
            self.ident(&e.name);
            self.o.op(":=");
            match &e.init {
                StructInitialValueAssignmentKind::Constant(c) => self.constant(c),
                StructInitialValueAssignmentKind::EnumeratedValue(ev) => self.enum_value(ev),
                StructInitialValueAssignmentKind::Array(a) => self.array_init(a),
                StructInitialValueAssignmentKind::Structure(s) => self.struct_init(s),
                #[allow(unreachable_patterns)]
                _ => panic!("ironplc dsl variant unknown to the verification harness"),
            }
        }
        self.o.p_tight(")");
    }
    /// `spec [:= init]` as used after `name :` in variable / element / type declarations
    pub fn init_kind(&mut self, k: &InitialValueAssignmentKind) {
        match k {
            InitialValueAssignmentKind::None(_) => {}
            InitialValueAssignmentKind::Simple(s) => {
                self.type_name(&s.type_name);
                if let Some(c) = &s.initial_value {
                    self.o.op(":=");
                    self.constant(c);
                    self.g.hit("init.simple.const");
                } else {
                    self.g.hit("init.simple");
                }
            }
            InitialValueAssignmentKind::String(s) => {
                let wide = s.width == StringType::WString;
                self.o.tykw(if wide { "WSTRING" } else { "STRING" });
                if let Some(len) = &s.length {
                    self.o.tight().p("[");
                    self.o.tight();
                    self.integer(len);
                    self.o.p_tight("]");
                }
                if let Some(v) = &s.initial_value {
                    self.o.op(":=");
                    self.char_string(v, wide, false);
                }
                self.g.hit("init.string");
            }
            InitialValueAssignmentKind::EnumeratedValues(e) => {
                self.enum_values(&e.values);
                if let Some(v) = &e.initial_value {
                    self.o.op(":=");
                    self.enum_value(v);
                }
                self.g.hit("init.enum_values");
            }
            InitialValueAssignmentKind::EnumeratedType(e) => {
                self.type_name(&e.type_name);
                if let Some(v) = &e.initial_value {
                    self.o.op(":=");
                    self.enum_value(v);
                }
                self.g.hit("init.enum_type");
            }
            InitialValueAssignmentKind::FunctionBlock(f) => {
                self.type_name(&f.type_name);
                if !f.init.is_empty() {
                    self.o.op(":=");
                    self.struct_init(&f.init);
                }
                self.g.hit("init.fb");
            }
            InitialValueAssignmentKind::Subrange(s) => {
                self.subrange_spec(s);
                self.g.hit("init.subrange");
            }
            InitialValueAssignmentKind::Structure(s) => {
                self.type_name(&s.type_name);
                if !s.elements_init.is_empty() {
                    self.o.op(":=");
                    self.struct_init(&s.elements_init);
                }
                self.g.hit("init.struct");
            }
            InitialValueAssignmentKind::Array(a) => {
                self.array_spec(&a.spec);
                if !a.initial_values.is_empty() {
                    self.o.op(":=");
                    self.array_init(&a.initial_values);
                }
                self.g.hit("init.array");
            }
            InitialValueAssignmentKind::LateResolvedType(t) => {
                self.type_name(t);
                self.g.hit("init.late");
            }
            #[allow(unreachable_patterns)]
            _ => panic!("ironplc dsl variant unknown to the verification harness"),
        }
    }

    fn data_type_decl(&mut self, d: &DataTypeDeclarationKind) {
        match d {
            DataTypeDeclarationKind::Enumeration(e) => {
                self.type_name(&e.type_name);
                self.o.p(":");
                match &e.spec_init.spec {
                    EnumeratedSpecificationKind::TypeName(t) => self.type_name(t),
                    EnumeratedSpecificationKind::Values(v) => self.enum_values(&v.values),
                    #[allow(unreachable_patterns)]
                    _ => panic!("ironplc dsl variant unknown to the verification harness"),
                }
                if let Some(v) = &e.spec_init.default {
                    self.o.op(":=");
                    self.enum_value(v);
                }
                self.g.hit("type.enum");
            }
            DataTypeDeclarationKind::Subrange(s) => {
                self.type_name(&s.type_name);
                self.o.p(":");
                self.subrange_spec(&s.spec);
                if let Some(d) = &s.default {
                    self.o.op(":=");
                    self.signed_integer(d);
                }
                self.g.hit("type.subrange");
            }
            DataTypeDeclarationKind::Simple(s) => {
                self.type_name(&s.type_name);
                self.o.p(":");
                self.init_kind(&s.spec_and_init);
                self.g.hit("type.simple");
            }
            DataTypeDeclarationKind::Array(a) => {
                self.type_name(&a.type_name);
                self.o.p(":");
                self.array_spec(&a.spec);
                if !a.init.is_empty() {
                    self.o.op(":=");
                    self.array_init(&a.init);
                }
                self.g.hit("type.array");
            }
            DataTypeDeclarationKind::Structure(s) => {
                self.type_name(&s.type_name);
                self.o.p(":");
                self.o.kw("STRUCT");
                for e in &s.elements {
                    self.o.line();
                    self.ident(&e.name);
                    self.o.p(":");
                    self.init_kind(&e.init);
                    self.o.p_tight(";");
                }
                self.o.line().kw("END_STRUCT");
                self.g.hit("type.struct");
            }
            DataTypeDeclarationKind::StructureInitialization(s) => self.struct_init_decl(s),
            DataTypeDeclarationKind::String(s) => {
                self.type_name(&s.type_name);
                self.o.p(":");
                let wide = s.width == StringType::WString;
                self.o.tykw(if wide { "WSTRING" } else { "STRING" });
                let paren = self.t.ratio(1, 3);
                self.o.tight().p(if paren { "(" } else { "[" });
                self.o.tight();
                self.integer(&s.length);
                self.o.p_tight(if paren { ")" } else { "]" });
                if let Some(init) = &s.init {
                    self.o.op(":=");
                    let chars: Vec<char> = init.chars().collect();
                    let w = if self.t.ratio(1, 4) { !wide } else { wide };
                    self.char_string(&chars, w, true);
                }
                self.g.hit("type.string");
            }
            DataTypeDeclarationKind::LateBound(l) => {
                self.type_name(&l.data_type_name);
                self.o.p(":");
                self.type_name(&l.base_type_name);
                self.g.hit("type.latebound");
            }
            #[allow(unreachable_patterns)]
            _ => panic!("ironplc dsl variant unknown to the verification harness"),
        }
    }

    // ------------------------------------------------------------ variables
    fn qualifier_kw(&mut self, q: &DeclarationQualifier) {
        match q {
            DeclarationQualifier::Unspecified => {}
            DeclarationQualifier::Constant => {
                self.o.kw("CONSTANT");
            }
            DeclarationQualifier::Retain => {
                self.o.kw("RETAIN");
            }
            DeclarationQualifier::NonRetain => {
                self.o.kw("NON_RETAIN");
            }
            #[allow(unreachable_patterns)]
            _ => panic!("ironplc dsl variant unknown to the verification harness"),
        }
    }

    /// Print the variables of a POU as VAR blocks: consecutive variables with the
    /// same class / qualifier / located-ness share a block (or not: tape choice),
    /// consecutive variables with an identical initializer may share a
    /// declaration (`a, b : INT`).  `edges` are printed as VAR_INPUT blocks at
    /// the positions given by `edge_pos` (index into vars before which they go).
    pub fn var_blocks(&mut self, vars: &[VarDecl], edges: &[EdgeVarDecl], in_function: bool) {
        // Edge declarations first or last (their relative order to other blocks is
        // not kept by the AST).
        let edges_first = self.t.flag();
        if edges_first {
            self.edge_blocks(edges);
        }
        let mut i = 0;
        while i < vars.len() {
            let v = &vars[i];
            let kind = block_kind(v);
            let mut j = i + 1;
            while j < vars.len() && block_kind(&vars[j]) == kind && same_block(&vars[j], v) && !self.t.ratio(1, 4) {
                j += 1;
            }
            self.var_block(&vars[i..j], in_function);
            i = j;
        }
        if !edges_first {
            self.edge_blocks(edges);
        }
    }
    fn edge_blocks(&mut self, edges: &[EdgeVarDecl]) {
        let mut i = 0;
        while i < edges.len() {
            let q = edges[i].qualifier.clone();
            let mut j = i + 1;
            while j < edges.len() && edges[j].qualifier == q && !self.t.ratio(1, 4) {
                j += 1;
            }
            self.o.line().kw("VAR_INPUT");
            self.qualifier_kw(&q);
            let mut k = i;
            while k < j {
                // group names with the same direction
                let mut m = k + 1;
                while m < j && edges[m].direction == edges[k].direction && self.t.ratio(1, 3) {
                    m += 1;
                }
                self.o.line();
                for (n, e) in edges[k..m].iter().enumerate() {
                    if n > 0 {
                        self.o.p_tight(",");
                    }
                    self.ident(&e.identifier);
                }
                self.o.p(":");
                self.o.tykw("BOOL");
                self.o.kw(if edges[k].direction == EdgeDirection::Rising { "R_EDGE" } else { "F_EDGE" });
                self.o.p_tight(";");
                self.g.hit("var.edge");
                k = m;
            }
            self.o.line().kw("END_VAR");
            i = j;
        }
    }
    fn var_block(&mut self, vars: &[VarDecl], _in_function: bool) {
        let v0 = &vars[0];
        let kw = match v0.var_type {
            VariableType::Var => "VAR",
            VariableType::VarTemp => "VAR_TEMP",
            VariableType::Input => "VAR_INPUT",
            VariableType::Output => "VAR_OUTPUT",
            VariableType::InOut => "VAR_IN_OUT",
            VariableType::External => "VAR_EXTERNAL",
            VariableType::Global => "VAR_GLOBAL",
            VariableType::Access => "VAR_ACCESS",
            #[allow(unreachable_patterns)]
            _ => panic!("ironplc dsl variant unknown to the verification harness"),
        };
        self.o.line().kw(kw);
        self.qualifier_kw(&v0.qualifier);
        self.g.hit(match v0.var_type {
            VariableType::Var => "block.var",
            VariableType::Input => "block.input",
            VariableType::Output => "block.output",
            VariableType::InOut => "block.inout",
            VariableType::External => "block.external",
            VariableType::Global => "block.global",
            _ => "block.other",
        });
        match v0.qualifier {
            DeclarationQualifier::Constant => self.g.hit("qual.constant"),
            DeclarationQualifier::Retain => self.g.hit("qual.retain"),
            DeclarationQualifier::NonRetain => self.g.hit("qual.non_retain"),
            DeclarationQualifier::Unspecified => {}
            #[allow(unreachable_patterns)]
            _ => panic!("ironplc dsl variant unknown to the verification harness"),
        }
        let mut i = 0;
        while i < vars.len() {
            let mut j = i + 1;
            // share a declaration between symbolic variables with the same initializer
            while j < vars.len()
                && matches!(vars[i].identifier, VariableIdentifier::Symbol(_))
                && matches!(vars[j].identifier, VariableIdentifier::Symbol(_))
                && vars[j].initializer == vars[i].initializer
                && vars[i].var_type != VariableType::External
                && self.t.ratio(1, 3)
            {
                j += 1;
            }
            self.o.line();
            for (n, v) in vars[i..j].iter().enumerate() {
                if n > 0 {
                    self.o.p_tight(",");
                }
                match &v.identifier {
                    VariableIdentifier::Symbol(id) => self.ident(id),
                    VariableIdentifier::Direct(d) => {
                        if let Some(n) = &d.name {
                            self.ident(n);
                        }
                        self.o.kw("AT");
                        self.address(&d.address_assignment);
                        self.g.hit("var.located");
                    }
                    #[allow(unreachable_patterns)]
                    _ => panic!("ironplc dsl variant unknown to the verification harness"),
                }
            }
            self.o.p(":");
            self.init_kind(&vars[i].initializer);
            self.o.p_tight(";");
            i = j;
        }
        self.o.line().kw("END_VAR");
    }

    // ---------------------------------------------------------- expressions
    fn variable(&mut self, v: &Variable) {
        match v {
            Variable::Direct(a) => self.address(a),
            Variable::Symbolic(s) => self.sym_var(s),
            #[allow(unreachable_patterns)]
            _ => panic!("ironplc dsl variant unknown to the verification harness"),
        }
    }
    pub fn sym_var(&mut self, s: &SymbolicVariableKind) {
        match s {
            SymbolicVariableKind::Named(n) => self.ident(&n.name),
            SymbolicVariableKind::Array(a) => {
                self.sym_var(&a.subscripted_variable);
                self.o.tight().p("[");
                for (i, e) in a.subscripts.iter().enumerate() {
                    if i > 0 {
                        self.o.p_tight(",");
                    } else {
                        self.o.tight();
                    }
                    self.expr(e, 0);
                }
                self.o.p_tight("]");
                self.g.hit("var.array");
            }
            SymbolicVariableKind::Structured(st) => {
                self.sym_var(&st.record);
                self.o.p_tight(".");
                self.o.tight();
                self.ident(&st.field);
                self.g.hit("var.struct");
            }
            #[allow(unreachable_patterns)]
            _ => panic!("ironplc dsl variant unknown to the verification harness"),
        }
    }
    fn params(&mut self, ps: &[ParamAssignmentKind]) {
        self.o.tight().p("(");
        for (i, p) in ps.iter().enumerate() {
            if i > 0 {
                self.o.p_tight(",");
            } else {
                self.o.tight();
            }
            match p {
                ParamAssignmentKind::PositionalInput(pi) => {
                    self.expr(&pi.expr, 0);
                    self.g.hit("param.positional");
                }
                ParamAssignmentKind::NamedInput(ni) => {
                    self.ident(&ni.name);
                    self.o.op(":=");
                    self.expr(&ni.expr, 0);
                    self.g.hit("param.named");
                }
                ParamAssignmentKind::Output(out) => {
                    if out.not {
                        self.o.wordop("NOT");
                        self.g.hit("param.output.not");
                    }
                    self.ident(&out.src);
                    self.o.op("=>");
                    self.variable(&out.tgt);
                    self.g.hit("param.output");
                }
                #[allow(unreachable_patterns)]
                _ => panic!("ironplc dsl variant unknown to the verification harness"),
            }
        }
        self.o.p_tight(")");
    }
    /// `min` = lowest precedence that may appear here without parentheses
    pub fn expr(&mut self, e: &ExprKind, min: u8) {
        let p = prec_of(e);
        // redundant parentheses are a spelling choice (not kept by the AST)
        let redundant = self.t.ratio(1, 12);
        let paren = p < min || redundant;
        if paren {
            self.o.p("(");
            self.o.tight();
            self.g.hit("expr.paren");
        }
        match e {
            ExprKind::Compare(c) => {
                // left-associative: the right operand needs strictly higher precedence
                self.expr(&c.left, p);
                match c.op {
                    CompareOp::Or => self.o.wordop("OR"),
                    CompareOp::Xor => self.o.wordop("XOR"),
                    CompareOp::And => {
                        if self.t.ratio(1, 3) {
                            self.o.op("&")
                        } else {
                            self.o.wordop("AND")
                        }
                    }
                    CompareOp::Eq => self.o.op("="),
                    CompareOp::Ne => self.o.op("<>"),
                    CompareOp::Lt => self.o.op("<"),
                    CompareOp::Gt => self.o.op(">"),
                    CompareOp::LtEq => self.o.op("<="),
                    CompareOp::GtEq => self.o.op(">="),
                    #[allow(unreachable_patterns)]
                    _ => panic!("ironplc dsl variant unknown to the verification harness"),
                };
                self.expr(&c.right, p + 1);
                self.g.hit("expr.compare");
            }
            ExprKind::BinaryOp(b) => {
                self.expr(&b.left, p);
                match b.op {
                    Operator::Add => self.o.op("+"),
                    Operator::Sub => self.o.op("-"),
                    Operator::Mul => self.o.op("*"),
                    Operator::Div => self.o.op("/"),
                    Operator::Mod => self.o.wordop("MOD"),
                    Operator::Pow => self.o.op("**"),
                    #[allow(unreachable_patterns)]
                    _ => panic!("ironplc dsl variant unknown to the verification harness"),
                };
                self.expr(&b.right, p + 1);
                self.g.hit("expr.binary");
            }
            ExprKind::UnaryOp(u) => {
                match u.op {
                    UnaryOp::Neg => {
                        self.o.op("-");
                        self.o.tight();
                    }
                    UnaryOp::Not => {
                        self.o.wordop("NOT");
                    }
                    #[allow(unreachable_patterns)]
                    _ => panic!("ironplc dsl variant unknown to the verification harness"),
                }
                // operand must be a primary expression
                self.expr(&u.term, 10);
                self.g.hit("expr.unary");
            }
            ExprKind::Expression(inner) => {
                self.o.p("(");
                self.o.tight();
                self.expr(inner, 0);
                self.o.p_tight(")");
            }
            ExprKind::Const(c) => {
                self.constant(c);
                self.g.hit("expr.const");
            }
            ExprKind::EnumeratedValue(ev) => self.enum_value(ev),
            ExprKind::Variable(v) => {
                self.variable(v);
                self.g.hit("expr.variable");
            }
            ExprKind::Function(f) => {
                self.ident(&f.name);
                self.params(&f.param_assignment);
                self.g.hit("expr.function");
            }
            ExprKind::LateBound(l) => {
                self.ident(&l.name);
                self.g.hit("expr.latebound");
            }
            #[allow(unreachable_patterns)]
            _ => panic!("ironplc dsl variant unknown to the verification harness"),
        }
        if paren {
            self.o.p_tight(")");
        }
    }

    // ----------------------------------------------------------- statements
    pub fn stmts(&mut self, body: &[StmtKind]) {
        for s in body {
            if self.t.ratio(1, 16) {
                // empty statement (vanishes from the AST)
                self.o.line().p(";");
                self.g.hit("stmt.empty");
            }
            self.o.line();
            self.stmt(s);
        }
    }
    /// statement list that must contain at least one statement or `;`
    fn stmts_nonempty(&mut self, body: &[StmtKind]) {
        if body.is_empty() {
            self.o.line().p(";");
            self.g.hit("stmt.empty");
        } else {
            self.stmts(body);
        }
    }
    fn stmt(&mut self, s: &StmtKind) {
        match s {
            StmtKind::Assignment(a) => {
                self.variable(&a.target);
                self.o.op(":=");
                self.expr(&a.value, 0);
                self.o.p_tight(";");
                self.g.hit("stmt.assign");
            }
            StmtKind::FbCall(f) => {
                self.ident(&f.var_name);
                self.params(&f.params);
                self.o.p_tight(";");
                self.g.hit("stmt.fbcall");
            }
            StmtKind::If(i) => {
                self.o.kw("IF");
                self.expr(&i.expr, 0);
                self.o.kw("THEN");
                if i.body.is_empty() && self.t.flag() {
                    // body is optional for IF
                } else {
                    self.stmts_nonempty(&i.body);
                }
                for ei in &i.else_ifs {
                    self.o.line().kw("ELSIF");
                    self.expr(&ei.expr, 0);
                    self.o.kw("THEN");
                    self.stmts_nonempty(&ei.body);
                    self.g.hit("stmt.if.elsif");
                }
                if !i.else_body.is_empty() {
                    self.o.line().kw("ELSE");
                    self.stmts(&i.else_body);
                    self.g.hit("stmt.if.else");
                }
                self.o.line().kw("END_IF");
                // the semicolon after END_IF is optional
                if self.t.ratio(3, 4) {
                    self.o.p_tight(";");
                } else {
                    self.g.hit("stmt.if.nosemicolon");
                }
                self.g.hit("stmt.if");
            }
            StmtKind::Case(c) => {
                self.o.kw("CASE");
                self.expr(&c.selector, 0);
                self.o.kw("OF");
                for grp in &c.statement_groups {
                    self.o.line();
                    for (i, sel) in grp.selectors.iter().enumerate() {
                        if i > 0 {
                            self.o.p_tight(",");
                        }
                        match sel {
                            CaseSelectionKind::Subrange(sr) => {
                                self.subrange(sr);
                                self.g.hit("case.subrange");
                            }
                            CaseSelectionKind::SignedInteger(si) => {
                                self.signed_integer(si);
                                self.g.hit("case.int");
                            }
                            CaseSelectionKind::EnumeratedValue(ev) => {
                                self.enum_value(ev);
                                self.g.hit("case.enum");
                            }
                            #[allow(unreachable_patterns)]
                            _ => panic!("ironplc dsl variant unknown to the verification harness"),
                        }
                    }
                    self.o.p_tight(":");
                    self.stmts_nonempty(&grp.statements);
                }
                if !c.else_body.is_empty() {
                    self.o.line().kw("ELSE");
                    self.stmts(&c.else_body);
                    self.g.hit("stmt.case.else");
                }
                self.o.line().kw("END_CASE");
                self.o.p_tight(";");
                self.g.hit("stmt.case");
            }
            StmtKind::For(f) => {
                self.o.kw("FOR");
                self.ident(&f.control);
                self.o.op(":=");
                self.expr(&f.from, 0);
                self.o.kw("TO");
                self.expr(&f.to, 0);
                if let Some(st) = &f.step {
                    self.o.kw("BY");
                    self.expr(st, 0);
                    self.g.hit("stmt.for.by");
                }
                self.o.kw("DO");
                self.stmts_nonempty(&f.body);
                self.o.line().kw("END_FOR");
                self.o.p_tight(";");
                self.g.hit("stmt.for");
            }
            StmtKind::While(w) => {
                self.o.kw("WHILE");
                self.expr(&w.condition, 0);
                self.o.kw("DO");
                self.stmts_nonempty(&w.body);
                self.o.line().kw("END_WHILE");
                self.o.p_tight(";");
                self.g.hit("stmt.while");
            }
            StmtKind::Repeat(r) => {
                self.o.kw("REPEAT");
                self.stmts_nonempty(&r.body);
                self.o.line().kw("UNTIL");
                self.expr(&r.until, 0);
                self.o.line().kw("END_REPEAT");
                self.o.p_tight(";");
                self.g.hit("stmt.repeat");
            }
            StmtKind::Return => {
                self.o.kw("RETURN");
                self.o.p_tight(";");
                self.g.hit("stmt.return");
            }
            StmtKind::Exit => {
                self.o.kw("EXIT");
                self.o.p_tight(";");
                self.g.hit("stmt.exit");
            }
            #[allow(unreachable_patterns)]
            _ => panic!("ironplc dsl variant unknown to the verification harness"),
        }
    }

    // ------------------------------------------------------------------ SFC
    fn action_time(&mut self, a: &ActionTimeKind) {
        match a {
            ActionTimeKind::Duration(d) => self.duration(d),
            ActionTimeKind::VariableName(v) => self.ident(v),
            #[allow(unreachable_patterns)]
            _ => panic!("ironplc dsl variant unknown to the verification harness"),
        }
    }
    fn action_assoc(&mut self, a: &ActionAssociation) {
        self.ident(&a.name);
        self.o.tight().p("(");
        let mut first = true;
        if let Some(q) = &a.qualifier {
            self.o.tight();
            first = false;
            let (name, time): (&str, Option<&ActionTimeKind>) = match q {
                ActionQualifier::N => ("N", None),
                ActionQualifier::R => ("R", None),
                ActionQualifier::S => ("S", None),
                ActionQualifier::L => ("L", None),
                ActionQualifier::D => ("D", None),
                ActionQualifier::P => ("P", None),
                ActionQualifier::SD(t) => ("SD", Some(t)),
                ActionQualifier::DS(t) => ("DS", Some(t)),
                ActionQualifier::SL(t) => ("SL", Some(t)),
                ActionQualifier::PR(t) => ("P1", Some(t)),
                ActionQualifier::PF(t) => ("P0", Some(t)),
                #[allow(unreachable_patterns)]
                _ => panic!("ironplc dsl variant unknown to the verification harness"),
            };
            self.o.textkw(name);
            if let Some(t) = time {
                self.o.p_tight(",");
                self.action_time(t);
                self.g.hit("sfc.assoc.timed");
            }
        }
        for ind in &a.indicators {
            if first {
                self.o.tight();
            }
            first = false;
            self.o.p_tight(",");
            self.ident(ind);
            self.g.hit("sfc.assoc.indicator");
        }
        self.o.p_tight(")");
        self.g.hit("sfc.assoc");
    }
    fn step_names(&mut self, names: &[Id]) {
        if names.len() == 1 {
            self.ident(&names[0]);
        } else {
            self.o.p("(");
            for (i, n) in names.iter().enumerate() {
                if i > 0 {
                    self.o.p_tight(",");
                } else {
                    self.o.tight();
                }
                self.ident(n);
            }
            self.o.p_tight(")");
            self.g.hit("sfc.transition.multi");
        }
    }
    fn sfc(&mut self, sfc: &Sfc) {
        for n in &sfc.networks {
            self.o.line().kw("INITIAL_STEP");
            self.ident(&n.initial_step.name);
            self.o.p_tight(":");
            for a in &n.initial_step.action_associations {
                self.o.line();
                self.action_assoc(a);
                self.o.p_tight(";");
                self.g.hit("sfc.initial_step.assoc");
            }
            self.o.line().kw("END_STEP");
            self.g.hit("sfc.initial_step");
            for e in &n.elements {
                match e {
                    ElementKind::Step(s) => {
                        self.o.line().kw("STEP");
                        self.ident(&s.name);
                        self.o.p_tight(":");
                        for a in &s.action_associations {
                            self.o.line();
                            self.action_assoc(a);
                            self.o.p_tight(";");
                        }
                        self.o.line().kw("END_STEP");
                        self.g.hit("sfc.step");
                    }
                    ElementKind::Transition(t) => {
                        self.o.line().kw("TRANSITION");
                        if let Some(n) = &t.name {
                            self.ident(n);
                            self.g.hit("sfc.transition.name");
                        }
                        if let Some(p) = t.priority {
                            self.o.p("(");
                            self.o.tight().textkw("PRIORITY");
                            self.o.op(":=");
                            let s = self.digits(p as u128);
                            self.o.num(&s);
                            self.o.p_tight(")");
                            self.g.hit("sfc.transition.priority");
                        }
                        self.o.kw("FROM");
                        self.step_names(&t.from);
                        self.o.kw("TO");
                        self.step_names(&t.to);
                        self.o.line().op(":=");
                        self.expr(&t.condition, 0);
                        self.o.p_tight(";");
                        self.o.line().kw("END_TRANSITION");
                        self.g.hit("sfc.transition");
                    }
                    ElementKind::Action(a) => {
                        self.o.line().kw("ACTION");
                        self.ident(&a.name);
                        self.o.p_tight(":");
                        self.body(&a.body);
                        self.o.line().kw("END_ACTION");
                        self.g.hit("sfc.action");
                    }
                    #[allow(unreachable_patterns)]
                    _ => panic!("ironplc dsl variant unknown to the verification harness"),
                }
            }
        }
    }
    fn body(&mut self, b: &FunctionBlockBodyKind) {
        match b {
            FunctionBlockBodyKind::Sfc(s) => self.sfc(s),
            FunctionBlockBodyKind::Statements(s) => self.stmts_nonempty(&s.body),
            FunctionBlockBodyKind::Empty => {
                self.g.hit("body.empty");
            }
            #[allow(unreachable_patterns)]
            _ => panic!("ironplc dsl variant unknown to the verification harness"),
        }
    }

    // -------------------------------------------------------- configuration
    fn configuration(&mut self, c: &ConfigurationDeclaration) {
        self.o.line().kw("CONFIGURATION");
        self.ident(&c.name);
        self.global_vars(&c.global_var);
        for r in &c.resource_decl {
            self.o.line().kw("RESOURCE");
            self.ident(&r.name);
            self.o.kw("ON");
            self.ident(&r.resource);
            self.global_vars(&r.global_vars);
            for t in &r.tasks {
                self.o.line().kw("TASK");
                self.ident(&t.name);
                self.o.tight().p("(");
                self.o.tight();
                if let Some(iv) = &t.interval {
                    self.o.textkw("INTERVAL");
                    self.o.op(":=");
                    self.duration(iv);
                    self.o.p_tight(",");
                    self.g.hit("config.task.interval");
                }
                self.o.textkw("PRIORITY");
                self.o.op(":=");
                let s = self.digits(t.priority as u128);
                self.o.num(&s);
                self.o.p_tight(")");
                self.o.p_tight(";");
                self.g.hit("config.task");
            }
            for p in &r.programs {
                self.o.line().kw("PROGRAM");
                if let Some(q) = &p.storage {
                    self.qualifier_kw(q);
                    self.g.hit("config.program.storage");
                }
                self.ident(&p.name);
                if let Some(t) = &p.task_name {
                    self.o.kw("WITH");
                    self.ident(t);
                    self.g.hit("config.program.with");
                }
                self.o.p(":");
                self.ident(&p.type_name);
                let n = p.fb_tasks.len() + p.sources.len() + p.sinks.len();
                if n > 0 {
                    self.o.p("(");
                    let mut first = true;
                    for f in &p.fb_tasks {
                        if !first {
                            self.o.p_tight(",");
                        } else {
                            self.o.tight();
                        }
                        first = false;
                        self.ident(&f.fb_name);
                        self.o.kw("WITH");
                        self.ident(&f.task_name);
                    }
                    for s in &p.sources {
                        if !first {
                            self.o.p_tight(",");
                        } else {
                            self.o.tight();
                        }
                        first = false;
                        self.sym_var(&s.dst);
                        self.o.op(":=");
                        match &s.src {
                            ProgramConnectionSourceKind::Constant(c) => self.constant(c),
                            ProgramConnectionSourceKind::EnumeratedValue(e) => self.enum_value(e),
                            ProgramConnectionSourceKind::GlobalVarReference(g) => self.global_ref(g),
                            ProgramConnectionSourceKind::DirectVariable(a) => self.address(a),
                            #[allow(unreachable_patterns)]
                            _ => panic!("ironplc dsl variant unknown to the verification harness"),
                        }
                    }
                    for s in &p.sinks {
                        if !first {
                            self.o.p_tight(",");
                        } else {
                            self.o.tight();
                        }
                        first = false;
                        self.sym_var(&s.src);
                        self.o.op("=>");
                        match &s.dst {
                            ProgramConnectionSinkKind::GlobalVarReference(g) => self.global_ref(g),
                            ProgramConnectionSinkKind::DirectVariable(a) => self.address(a),
                            #[allow(unreachable_patterns)]
                            _ => panic!("ironplc dsl variant unknown to the verification harness"),
                        }
                    }
                    self.o.p_tight(")");
                    self.g.hit("config.program.elements");
                }
                self.o.p_tight(";");
                self.g.hit("config.program");
            }
            self.o.line().kw("END_RESOURCE");
        }
        if !c.fb_inits.is_empty() || !c.located_var_inits.is_empty() {
            self.o.line().kw("VAR_CONFIG");
            for f in &c.fb_inits {
                self.o.line();
                self.ident(&f.resource_name);
                self.o.p_tight(".");
                self.o.tight();
                self.ident(&f.program_name);
                for p in &f.fb_path {
                    self.o.p_tight(".");
                    self.o.tight();
                    self.ident(p);
                }
                self.o.p(":");
                self.type_name(&f.type_name);
                self.o.op(":=");
                self.struct_init(&f.initializer);
                self.o.p_tight(";");
                self.g.hit("config.var_config.fb_init");
            }
            for l in &c.located_var_inits {
                self.o.line();
                self.ident(&l.resource_name);
                self.o.p_tight(".");
                self.o.tight();
                self.ident(&l.program_name);
                for p in &l.fb_path {
                    self.o.p_tight(".");
                    self.o.tight();
                    self.ident(p);
                }
                if let Some(a) = &l.address {
                    self.o.kw("AT");
                    self.address(a);
                }
                self.o.p(":");
                self.init_kind(&l.initializer);
                self.o.p_tight(";");
                self.g.hit("config.var_config.located");
            }
            self.o.line().kw("END_VAR");
        }
        self.o.line().kw("END_CONFIGURATION");
        self.g.hit("config");
    }
    fn global_ref(&mut self, g: &GlobalVarReference) {
        if let Some(r) = &g.resource_name {
            self.ident(r);
            self.o.p_tight(".");
            self.o.tight();
        }
        self.ident(&g.global_var_name);
        if let Some(s) = &g.structure_element_name {
            self.o.p_tight(".");
            self.o.tight();
            self.ident(s);
        }
    }
    fn global_vars(&mut self, vars: &[VarDecl]) {
        if vars.is_empty() {
            return;
        }
        // one VAR_GLOBAL block (the grammar admits exactly one); all share a qualifier
        self.var_block(vars, false);
    }

    // ----------------------------------------------------------- top level
    pub fn library(&mut self, lib: &Library) {
        let mut in_type_block = false;
        for (i, e) in lib.elements.iter().enumerate() {
            if let LibraryElementKind::DataTypeDeclaration(d) = e {
                if !in_type_block {
                    self.o.line().kw("TYPE");
                    in_type_block = true;
                }
                self.o.line();
                self.data_type_decl(d);
                self.o.p_tight(";");
                let next_is_type = matches!(lib.elements.get(i + 1), Some(LibraryElementKind::DataTypeDeclaration(_)));
                if !next_is_type || self.t.ratio(2, 3) {
                    self.o.line().kw("END_TYPE");
                    in_type_block = false;
                }
                continue;
            }
            match e {
                LibraryElementKind::DataTypeDeclaration(_) => unreachable!(),
                LibraryElementKind::FunctionDeclaration(f) => {
                    self.o.line().kw("FUNCTION");
                    self.ident(&f.name);
                    self.o.p(":");
                    self.type_name(&f.return_type);
                    self.var_blocks(&f.variables, &f.edge_variables, true);
                    self.stmts_nonempty(&f.body);
                    self.o.line().kw("END_FUNCTION");
                    self.g.hit("pou.function");
                }
                LibraryElementKind::FunctionBlockDeclaration(f) => {
                    self.o.line().kw("FUNCTION_BLOCK");
                    self.ident(&f.name);
                    self.var_blocks(&f.variables, &f.edge_variables, false);
                    self.body(&f.body);
                    self.o.line().kw("END_FUNCTION_BLOCK");
                    self.g.hit("pou.function_block");
                }
                LibraryElementKind::ProgramDeclaration(p) => {
                    self.o.line().kw("PROGRAM");
                    self.ident(&p.name);
                    let access_first = self.t.flag();
                    if access_first {
                        self.access_block(&p.access_variables);
                    }
                    self.var_blocks(&p.variables, &[], false);
                    if !access_first {
                        self.access_block(&p.access_variables);
                    }
                    self.body(&p.body);
                    self.o.line().kw("END_PROGRAM");
                    self.g.hit("pou.program");
                }
                LibraryElementKind::ConfigurationDeclaration(c) => self.configuration(c),
                #[allow(unreachable_patterns)]
                _ => panic!("ironplc dsl variant unknown to the verification harness"),
            }
        }
    }
    fn access_block(&mut self, acc: &[ProgramAccessDecl]) {
        if acc.is_empty() {
            return;
        }
        self.o.line().kw("VAR_ACCESS");
        for a in acc {
            self.o.line();
            self.ident(&a.access_name);
            self.o.p(":");
            self.sym_var(&a.symbolic_variable);
            self.o.p(":");
            self.type_name(&a.type_name);
            if let Some(d) = &a.direction {
                self.o.kw(if *d == Direction::ReadOnly { "READ_ONLY" } else { "READ_WRITE" });
            }
            self.o.p_tight(";");
            self.g.hit("var.access");
        }
        self.o.line().kw("END_VAR");
    }
    fn struct_init_decl(&mut self, s: &StructureInitializationDeclaration) {
        // `declared : base := (init)` – the dsl type keeps only the declared name
        // (`type_name`), there is no field for the base type, so the printer
        // derives a base name from the declared one.
        let decl = s.type_name.name.original().clone();
        let base = format!("{}_b", decl);
        self.o.id(&decl);
        self.o.p(":");
        self.o.id(&base);
        self.o.op(":=");
        self.struct_init(&s.elements_init);
        self.g.hit("type.struct_init");
    }
}

fn frac(ns: u128, unit_ns: u128) -> String {
    // exact decimal of ns / unit_ns with up to 9 fraction digits (unit_ns is a power of ten * k)
    let whole = ns / unit_ns;
    let rem = ns % unit_ns;
    if rem == 0 {
        return whole.to_string();
    }
    // number of digits of unit_ns - 1
    let width = (unit_ns.to_string().len() - 1) as usize;
    let f = format!("{:0width$}", rem, width = width);
    format!("{}.{}", whole, f.trim_end_matches('0'))
}

fn block_kind(v: &VarDecl) -> (u8, u8, u8) {
    let t = match v.var_type {
        VariableType::Var => 0,
        VariableType::VarTemp => 1,
        VariableType::Input => 2,
        VariableType::Output => 3,
        VariableType::InOut => 4,
        VariableType::External => 5,
        VariableType::Global => 6,
        VariableType::Access => 7,
        #[allow(unreachable_patterns)]
        _ => panic!("ironplc dsl variant unknown to the verification harness"),
    };
    let q = match v.qualifier {
        DeclarationQualifier::Unspecified => 0,
        DeclarationQualifier::Constant => 1,
        DeclarationQualifier::Retain => 2,
        DeclarationQualifier::NonRetain => 3,
        #[allow(unreachable_patterns)]
        _ => panic!("ironplc dsl variant unknown to the verification harness"),
    };
    let l = match &v.identifier {
        VariableIdentifier::Symbol(_) => 0,
        VariableIdentifier::Direct(d) => {
            if d.address_assignment.size == SizePrefix::Unspecified {
                2
            } else {
                1
            }
        }
        #[allow(unreachable_patterns)]
        _ => panic!("ironplc dsl variant unknown to the verification harness"),
    };
    (t, q, l)
}
fn same_block(_a: &VarDecl, _b: &VarDecl) -> bool {
    true
}

//! Coverage-guided search over choice tapes: builds and runs the cargo-fuzz target `tapes`
//! (libFuzzer) for one property.  The target decodes the fuzzer's bytes as a choice tape, so
//! every mutation is a structured change of the generated program, and the property's own
//! oracle runs inside the target.  A wall-clock budget hit ends the campaign and is never a
//! violation; every crash artefact is re-judged in this process before it is believed and
//! becomes a VIOLATION with an ordinary replay file (the tape).

use crate::gates::Gates;
use crate::report::Report;
use crate::runner::{verif_root, Tier};
use crate::tape::mix;
use crate::Ctx;
use serde_json::json;
use std::process::Command;

pub fn tape_campaign(ctx: &Ctx, rep: &mut Report, prop: &str, gates: &Gates) {
    if ctx.tier != Tier::Thorough || std::env::var("VERIF_NO_FUZZ").is_ok() {
        return;
    }
    let root = verif_root();
    let budget: u64 = std::env::var("VERIF_FUZZ_SECONDS").ok().and_then(|s| s.parse().ok()).unwrap_or(180);
    let build = Command::new("cargo")
        .args(["+nightly", "fuzz", "build", "--fuzz-dir"])
        .arg(root.join("fuzz"))
        .args(["-s", "none", "tapes"])
        .current_dir(root.join("harness"))
        .env("CARGO_NET_OFFLINE", "true")
        .env("RUST_BACKTRACE", "0")
        .output();
    let ok = matches!(&build, Ok(o) if o.status.success());
    if !ok {
        let msg = build.map(|o| String::from_utf8_lossy(&o.stderr).lines().rev().take(5).collect::<Vec<_>>().join(" | ")).unwrap_or_else(|e| e.to_string());
        rep.infra_errors.push(format!("cargo +nightly fuzz build failed: {}", msg));
        return;
    }
    let bin = root.join(".build/h/x86_64-unknown-linux-gnu/release/tapes");
    let work = crate::drive::Scratch::new("fuzztapes");
    let corpus_dir = work.path.join("corpus");
    let arts = work.path.join("artifacts");
    std::fs::create_dir_all(&corpus_dir).unwrap();
    std::fs::create_dir_all(&arts).unwrap();
    for k in 0..400u64 {
        let tape = crate::tape::derived(&mix(ctx.seed ^ k.wrapping_mul(0x9E37)).to_le_bytes(), 48 + (k as usize % 10) * 90);
        let _ = std::fs::write(corpus_dir.join(format!("tape{}", k)), &tape);
    }
    let jobs = ctx.threads.max(1);
    let _ = Command::new(&bin)
        .arg(&corpus_dir)
        .args([
            format!("-max_total_time={}", budget),
            format!("-jobs={}", jobs),
            format!("-workers={}", jobs),
            "-len_control=0".into(),
            "-max_len=2048".into(),
            "-timeout=120".into(),
            format!("-seed={}", ctx.seed.max(1)),
            "-print_final_stats=1".into(),
            format!("-artifact_prefix={}/", arts.to_string_lossy()),
        ])
        .current_dir(&work.path)
        .env("VERIF_ROOT", &root)
        .env("VERIF_FUZZ_PROP", prop)
        .env("VERIF_FUZZ_GATES_OFF", gates.off_list().join(","))
        .env("RUST_BACKTRACE", "0")
        .output();
    let mut execs: u64 = 0;
    let mut features: u64 = 0;
    if let Ok(rd) = std::fs::read_dir(&work.path) {
        for e in rd.filter_map(|e| e.ok()) {
            let n = e.file_name().to_string_lossy().to_string();
            if n.starts_with("fuzz-") && n.ends_with(".log") {
                if let Ok(t) = std::fs::read_to_string(e.path()) {
                    for l in t.lines() {
                        if let Some(v) = l.strip_prefix("stat::number_of_executed_units:") {
                            execs += v.trim().parse::<u64>().unwrap_or(0);
                        }
                        if let Some(i) = l.find(" ft: ") {
                            if let Some(v) = l[i + 5..].split_whitespace().next().and_then(|x| x.parse::<u64>().ok()) {
                                features = features.max(v);
                            }
                        }
                    }
                }
            }
        }
    }
    let grown = std::fs::read_dir(&corpus_dir).map(|r| r.count()).unwrap_or(0);
    rep.stats.class_n("fuzz.tape-executions", execs);
    rep.stats.evaluations += execs;
    rep.extra.insert(
        "libfuzzer_tapes".into(),
        json!({"executions": execs, "seconds": budget, "jobs": jobs, "coverage_features": features, "corpus_files_after": grown, "seed_corpus": "400 choice tapes derived from the seed", "oracle": "the property's tape oracle, inside the target"}),
    );
    if let Ok(rd) = std::fs::read_dir(&arts) {
        let mut names: Vec<_> = rd.filter_map(|e| e.ok()).map(|e| e.path()).collect();
        names.sort();
        for path in names {
            let n = path.file_name().map(|x| x.to_string_lossy().to_string()).unwrap_or_default();
            let bytes = std::fs::read(&path).unwrap_or_default();
            if n.starts_with("crash-") {
                // re-judge outside the fuzzer before believing it
                let g = Gates::with_off(gates.off_list());
                match std::panic::catch_unwind(std::panic::AssertUnwindSafe(|| crate::props::fuzz_one(prop, &bytes, &g))) {
                    Ok(Ok(())) => rep.stats.inconclusive += 1,
                    Ok(Err(f)) => rep.failures.push((f, bytes)),
                    Err(_) => rep.infra_errors.push(format!("the harness itself panicked on fuzz artefact {} (a bug of the machinery, not a violation)", n)),
                }
            } else if n.starts_with("oom-") || n.starts_with("timeout-") {
                rep.stats.inconclusive += 1;
            }
        }
    }
}

//! C13 – command-line contract: exit status, OK line and diagnostics always agree.
//!
//! File sets from the valid generator (valid, single-fault semantic, syntax error, lexical
//! error; 1..4 files) are presented as explicit files in every argument order, as one flat
//! directory and as directory + extra files; plus missing paths, an empty directory, an
//! unreadable file.  Only the *agreement of the three channels* is judged here (the verdict
//! itself is C02 / C03).

use crate::drive::*;
use crate::gates::Gates;
use crate::gen_valid::*;
use crate::lexeme::PosIndex;
use crate::props::c02::spell_unit;
use crate::report::Report;
use crate::runner::*;
use crate::tape::Tape;
use crate::Ctx;
use ironplc_dsl::core::FileId;
use ironplc_parser::options::ParseOptions;
use serde_json::{json, Value};

fn known_codes() -> Vec<String> {
    let csv = std::fs::read_to_string("/repo/compiler/problems/resources/problem-codes.csv").unwrap_or_default();
    csv.lines().skip(1).filter_map(|l| l.split(',').next().map(|s| s.trim().to_string())).filter(|s| s.starts_with('P')).collect()
}

#[derive(Clone, Debug)]
pub struct FileCase {
    pub text: String,
    pub class: &'static str,
}

/// what is written to disk for a text: UTF-8, except that a text which begins with the comment
/// `(*1252 ` is written in Windows-1252 (every character of such a text is in that repertoire and
/// the bytes are not valid UTF-8: the documented fallback reads them back as the same text)
pub fn disk(text: &str) -> Vec<u8> {
    if text.starts_with("(*1252 ") {
        let (b, _, unmappable) = encoding_rs::WINDOWS_1252.encode(text);
        if !unmappable && std::str::from_utf8(&b).is_err() {
            return b.to_vec();
        }
    }
    text.as_bytes().to_vec()
}

pub fn gen_files(t: &mut Tape, gates: &Gates) -> Vec<FileCase> {
    let mut v = gen_files_utf8(t, gates);
    // now and then the whole set comes from an editor that saves Windows-1252: a comment with 1 .. 1000
    // characters beyond ASCII in front of every file whose text that encoding can hold (the files
    // are the same files: nothing about the contract depends on how many bytes a character takes)
    if t.ratio(1, 8) && gates.want("FILE_SET_IN_WINDOWS_1252") {
        for f in v.iter_mut() {
            let k = *t.pick(&[1usize, 8, 40, 200, 1000]);
            let body: String = (0..k).map(|i| ['é', 'ü', 'ß', 'Ä', '€', 'ñ', '©', 'µ', '½'][(i * 7 + k) % 9]).collect();
            let cand = format!("(*1252 {} *)\n{}", body, f.text);
            if !encoding_rs::WINDOWS_1252.encode(&cand).2 {
                f.text = cand;
            }
        }
    }
    v
}

fn gen_files_utf8(t: &mut Tape, gates: &Gates) -> Vec<FileCase> {
    // 1..4 files, now and then 8..21 (a loader that works in batches, chunks or threads has more than
    // one way to lose the last few)
    let n = if t.ratio(1, 12) && gates.want("LARGE_FILE_SET") { 8 + t.below(14) } else { 1 + t.below(4) };
    let mut v = vec![];
    for i in 0..n {
        let mut p = Profile::default();
        p.prefix = format!("u{}_", i);
        p.max_stmts = 3;
        p.max_types = 2;
        p.max_fbs = 1;
        p.max_funcs = 1;
        p.max_progs = 1;
        let sub: Vec<u8> = (0..80).map(|_| t.byte()).collect();
        let mut st = Tape::new(&sub);
        let unit = gen_unit(&mut st, gates, &p);
        let kinds: Vec<FaultKind> = ALL_FAULTS.iter().copied().filter(|k| unit.sites[k.index()] > 0).collect();
        let (text, class) = match t.below(7) {
            6 => {
                // degenerate contents: nothing, only trivia, only unmatched text (with and without a
                // final line break), a lone token
                let d = *t.pick(&["", " ", "\n", "\r\n", "(* only a comment *)", "(* c *)\n", "?", "??", "@", "~", "!?@", "€", "?\n", "? ", ";", "END_VAR", "(* never closed", "'"]);
                (d.to_string(), "degenerate")
            }
            0 | 1 => (spell_unit(&unit, gates), "valid"),
            2 => {
                // a fault of a kind chosen uniformly (every published rule code is met as the only
                // diagnostic of a set now and then), from a unit large enough to have a site for it
                let kd = ALL_FAULTS[t.below(ALL_FAULTS.len())];
                let mut big = Profile::default();
                big.prefix = p.prefix.clone();
                big.max_progs = 1;
                big.sfc = false;
                match unit_with_fault_of(kd, &sub, gates, &big) {
                    Some(fu) => (spell_unit(&fu, gates), "semantic-fault"),
                    None => (spell_unit(&unit, gates), "valid"),
                }
            }
            3 if !kinds.is_empty() => {
                let kd = kinds[t.below(kinds.len())];
                let s = t.below(unit.sites[kd.index()]);
                let mut st2 = Tape::new(&sub);
                (spell_unit(&gen_unit_with(&mut st2, gates, &p, Some((kd, s))), gates), "semantic-fault")
            }
            4 => {
                let s = spell_unit(&unit, gates);
                (s.replacen("END_", "END ", 1), "syntax-error")
            }
            5 => {
                let s = spell_unit(&unit, gates);
                if t.flag() {
                    (format!("?\n{}", s), "lexical-error")
                } else {
                    // unmatched text of every length at the end of the file (never-closed comment or
                    // string, run of junk; ASCII and multi-byte)
                    let tail = crate::lexeme::unmatched_tail(t);
                    (format!("{}{}", if t.flag() { s } else { String::new() }, if tail.trim().is_empty() { "?".to_string() } else { tail }), "lexical-error")
                }
            }
            _ => (spell_unit(&unit, gates), "valid"),
        };
        v.push(FileCase { text, class });
    }
    // diagnostics that relate declarations of TWO files (the second label lies in another file than
    // the first): a declaration of the first file written again in a later one, or a constant global
    // in one file and a non-constant external of it in another
    if v.len() >= 2 && v[0].class == "valid" && t.ratio(1, 6) {
        let first_decl_end = ["END_TYPE\n", "END_FUNCTION\n", "END_FUNCTION_BLOCK\n", "END_PROGRAM\n"].iter().filter_map(|k| v[0].text.find(k).map(|p| p + k.len())).min();
        if let Some(e) = first_decl_end {
            let copy = v[0].text[..e].to_string();
            let k = 1 + t.below(v.len() - 1);
            if v[k].class == "valid" {
                v[k].text = if t.flag() { format!("{}{}", v[k].text, copy) } else { format!("{}{}", copy, v[k].text) };
                v[k].class = "cross-file-fault";
            }
        }
    } else if v.len() <= 3 && t.ratio(1, 10) {
        v.push(FileCase {
            text: "CONFIGURATION xc\nVAR_GLOBAL CONSTANT\nxg : INT := 1;\nEND_VAR\nRESOURCE xr ON xcpu\nTASK xt(INTERVAL := T#10ms, PRIORITY := 1);\nPROGRAM xi WITH xt : xp;\nEND_RESOURCE\nEND_CONFIGURATION\n".into(),
            class: "valid",
        });
        v.push(FileCase { text: "PROGRAM xp\nVAR_EXTERNAL\nxg : INT;\nEND_VAR\nEND_PROGRAM\n".into(), class: "cross-file-fault" });
    }
    v
}

pub struct CheckObs {
    pub status: Option<i32>,
    pub ok_line: bool,
    pub diags: Vec<CliDiag>,
}

pub fn observe_check(args: &[String]) -> Option<CheckObs> {
    let out = run_cli(args, None);
    if out.timed_out {
        return None;
    }
    let ok_line = out.stdout.lines().any(|l| l.trim() == "OK");
    Some(CheckObs { status: out.status, ok_line, diags: parse_cli_diags(&out.stderr) })
}

/// the three channels of one `check` invocation agree
pub fn channels_agree(o: &CheckObs, codes: &[String], what: &str) -> Result<(), (String, String)> {
    let exit_ok = o.status == Some(0);
    let has_err = !o.diags.is_empty();
    match o.status {
        Some(c) if c != 101 => {} // any exit status but the panic status; death by signal is None
        other => return Err(("abnormal-exit".into(), format!("{}: exit status {:?}", what, other))),
    }
    if exit_ok != o.ok_line {
        return Err(("exit-vs-ok".into(), format!("{}: exit status {:?} but OK line printed: {}", what, o.status, o.ok_line)));
    }
    if exit_ok == has_err {
        return Err(("exit-vs-diagnostics".into(), format!("{}: exit status {:?} with {} coded diagnostics on stderr", what, o.status, o.diags.len())));
    }
    for d in &o.diags {
        if !codes.contains(&d.code) {
            return Err(("unknown-code".into(), format!("{}: diagnostic code {} is not in problem-codes.csv", what, d.code)));
        }
    }
    Ok(())
}

fn keyed(ds: &[CliDiag]) -> Vec<(String, String, usize, usize)> {
    // P0030 is a set-level diagnostic without a file: compared by code only
    let mut v: Vec<_> = ds
        .iter()
        .map(|d| if d.code == "P0030" { (d.code.clone(), String::new(), 0, 0) } else { (d.code.clone(), d.file.as_deref().map(|f| f.rsplit('/').next().unwrap_or("").to_string()).unwrap_or_default(), d.line, d.col) })
        .collect();
    v.sort();
    v
}

fn check_tape(tape: &[u8], gates: &Gates, codes: &[String], stats: &mut Stats, counting: bool) -> Result<(), Failure> {
    let mut t = Tape::new(tape);
    let files = gen_files(&mut t, gates);
    gates.take_hits();
    let derived = crate::tape::derived(tape, 64);
    let mut choice = Tape::new(&derived);
    // a sixth of the cases run every invocation with verbosity flags (the log goes to a file;
    // nothing that is observed may change)
    let verbosity: Vec<String> = match choice.below(12) {
        0 => vec!["-v".into()],
        1 => vec!["-vvvv".into()],
        _ => vec![],
    };
    struct Restore(Vec<String>);
    impl Drop for Restore {
        fn drop(&mut self) {
            crate::drive::set_global_options(std::mem::take(&mut self.0));
        }
    }
    let _restore = Restore(crate::drive::set_global_options(verbosity.clone()));
    if counting && !verbosity.is_empty() {
        stats.class(&format!("options.{}", verbosity[0]));
    }
    let dir = Scratch::new("c13");
    let sub = dir.path.join("set");
    std::fs::create_dir_all(&sub).unwrap();
    let mut paths = vec![];
    for (i, f) in files.iter().enumerate() {
        let p = sub.join(crate::drive::set_file_name(i));
        std::fs::write(&p, &disk(&f.text)).unwrap();
        paths.push(p.to_string_lossy().to_string());
    }
    let inputs = json!({"files": files.iter().map(|f| json!({"class": f.class, "text": f.text})).collect::<Vec<_>>()});
    let fail = |check: &str, kind: &str, detail: String| Failure::new(check, kind, detail, inputs.clone());
    let any_faulty = files.iter().any(|f| f.class != "valid");
    // (a) explicit files: canonical order, reversed, one rotation
    let mut orders: Vec<Vec<String>> = vec![paths.clone()];
    if paths.len() > 1 {
        let mut r = paths.clone();
        r.reverse();
        orders.push(r);
        let mut r2 = paths.clone();
        r2.rotate_left(1 + choice.below(paths.len() - 1));
        orders.push(r2);
    }
    let mut base: Option<(Option<i32>, Vec<(String, String, usize, usize)>)> = None;
    for (oi, order) in orders.iter().enumerate() {
        let mut args = vec!["check".to_string()];
        args.extend(order.clone());
        let o = match observe_check(&args) {
            Some(o) => o,
            None => {
                stats.inconclusive += 1;
                continue;
            }
        };
        if counting {
            stats.case(files.len() >= 2 || any_faulty, hash_str(&format!("files{}{}", oi, files.iter().map(|f| f.text.clone()).collect::<String>())));
            stats.class("check.files");
            if oi == 0 {
                // which problem codes the set as a whole is answered with
                let mut cs: Vec<String> = o.diags.iter().map(|d| d.code.clone()).collect();
                cs.sort();
                cs.dedup();
                stats.class(&format!("check.codes.{}", if cs.is_empty() { "none".to_string() } else { cs.join("+") }));
            }
        }
        channels_agree(&o, codes, "check <files>").map_err(|(k, d)| fail("channels", &k, d))?;
        let key = (o.status, keyed(&o.diags));
        match &base {
            None => base = Some(key),
            Some(b) => {
                if (b.0 == Some(0)) != (key.0 == Some(0)) {
                    return Err(fail("argument-order", "exit-differs", format!("exit status {:?} vs {:?} for another argument order", b.0, key.0)));
                }
            }
        }
    }
    // (b) the directory - sometimes with an empty sub-directory in it (not a file of the directory)
    let with_subdir = choice.ratio(1, 4) && gates.want("DIRECTORY_WITH_EMPTY_SUBDIRECTORY");
    if with_subdir {
        let _ = std::fs::create_dir_all(sub.join("nested_dir"));
        if counting {
            stats.class("check.directory.with-empty-subdirectory");
        }
    }
    let o = observe_check(&["check".to_string(), sub.to_string_lossy().to_string()]);
    if let (Some(o), Some(b)) = (o, &base) {
        if counting {
            stats.case(true, hash_str(&format!("dir{}", files.iter().map(|f| f.text.clone()).collect::<String>())));
            stats.class("check.directory");
        }
        channels_agree(&o, codes, "check <dir>").map_err(|(k, d)| fail("channels", &k, d))?;
        if (o.status == Some(0)) != (b.0 == Some(0)) {
            return Err(fail("directory", "exit-differs", format!("`check <dir>` exits {:?}, `check <files>` exits {:?}", o.status, b.0)));
        }
        let kd = keyed(&o.diags);
        if kd != b.1 {
            return Err(fail("directory", "diagnostics-differ", format!("`check <dir>` reports {:?}, `check <files>` reports {:?}", kd, b.1)));
        }
    }
    // (b3) a directory whose entries are (some of them) symbolic links to the files: the files of a
    // directory are the files that can be read through its entries
    if choice.ratio(1, 5) && gates.want("DIRECTORY_WITH_SYMBOLIC_LINKS") {
        let linked = dir.path.join("linked");
        let _ = std::fs::create_dir_all(&linked);
        let all_links = choice.flag();
        let mut made_link = false;
        for (i, f) in files.iter().enumerate() {
            let name = crate::drive::set_file_name(i);
            if all_links || i == 0 {
                made_link |= std::os::unix::fs::symlink(sub.join(&name), linked.join(&name)).is_ok();
            } else {
                let _ = std::fs::write(linked.join(&name), &disk(&f.text));
            }
        }
        if made_link {
            if let (Some(o), Some(b)) = (observe_check(&["check".to_string(), linked.to_string_lossy().to_string()]), &base) {
                if counting {
                    stats.class("check.directory.with-symbolic-links");
                }
                channels_agree(&o, codes, "check <dir with links>").map_err(|(k, d)| fail("channels", &k, d))?;
                if (o.status == Some(0)) != (b.0 == Some(0)) {
                    return Err(fail("directory", "exit-differs", format!("`check <dir whose entries are links to the files>` exits {:?} with {:?}, `check <files>` exits {:?}", o.status, o.diags.iter().map(|d| d.code.clone()).collect::<Vec<_>>(), b.0)));
                }
                let mut c1: Vec<String> = o.diags.iter().map(|d| d.code.clone()).collect();
                let mut c2: Vec<String> = b.1.iter().map(|d| d.0.clone()).collect();
                c1.sort();
                c2.sort();
                if c1 != c2 {
                    return Err(fail("directory", "diagnostics-differ", format!("`check <dir whose entries are links to the files>` reports {:?}, `check <files>` reports {:?}", c1, c2)));
                }
            }
        }
    }
    // (b4) a directory with an entry that cannot be loaded (a link that points nowhere, a file whose
    // byte-order mark is followed by bytes that do not decode): the directory is the list of its
    // entries, and a path that cannot be read makes the command fail - with a coded diagnostic, no OK
    if choice.ratio(1, 6) && gates.want("DIRECTORY_WITH_UNLOADABLE_ENTRY") {
        let bad = dir.path.join("unloadable");
        let _ = std::fs::create_dir_all(&bad);
        for (i, f) in files.iter().enumerate() {
            let _ = std::fs::write(bad.join(crate::drive::set_file_name(i)), &disk(&f.text));
        }
        let entry = bad.join(*choice.pick(&["zz_entry.st", "aa_entry.st", "entry.ST"]));
        let made = match choice.below(3) {
            0 => std::os::unix::fs::symlink(dir.path.join("no_such_target.st"), &entry).is_ok(),
            1 => std::fs::write(&entry, [0xEFu8, 0xBB, 0xBF, 0xFF, 0xFE, 0x41]).is_ok(),
            _ => std::fs::write(&entry, [0xFFu8, 0xFE, 0x41]).is_ok(),
        };
        if made {
            let bads = bad.to_string_lossy().to_string();
            let mut arg_sets: Vec<Vec<String>> = vec![vec!["check".to_string(), bads.clone()]];
            // the same entries named one by one
            let mut listed = vec!["check".to_string()];
            for i in 0..files.len() {
                listed.push(bad.join(crate::drive::set_file_name(i)).to_string_lossy().to_string());
            }
            listed.push(entry.to_string_lossy().to_string());
            arg_sets.push(listed);
            for args in arg_sets {
                if let Some(o) = observe_check(&args) {
                    if counting {
                        stats.class("check.directory.with-unloadable-entry");
                    }
                    let what = if args.len() == 2 { "check <dir with an entry that cannot be loaded>" } else { "check <files ...> <entry that cannot be loaded>" };
                    channels_agree(&o, codes, what).map_err(|(k, d)| fail("channels", &k, d))?;
                    if o.status == Some(0) {
                        return Err(fail("directory", "unloadable-entry-ignored", format!("`{}` exits 0 although one entry cannot be read / decoded (stderr codes {:?})", what, o.diags.iter().map(|d| d.code.clone()).collect::<Vec<_>>())));
                    }
                }
            }
        }
    }
    // (b2) the same set reached twice: the directory plus one of its files, or one file under two
    // spellings (relative, ./, dir/../dir) - still the same set of files
    if choice.ratio(1, 3) && gates.want("SAME_FILE_REACHED_TWICE") {
        let i = choice.below(paths.len());
        let name = crate::drive::set_file_name(i);
        let spelled = match choice.below(4) {
            0 => paths[i].clone(),
            1 => format!("set/{}", name),
            2 => format!("./set/{}", name),
            _ => format!("set/../set/{}", name),
        };
        let dir_spelled = if choice.flag() { "set".to_string() } else { sub.to_string_lossy().to_string() };
        let mut args = vec!["check".to_string()];
        match choice.below(3) {
            0 => args.extend([dir_spelled, spelled]),
            1 => args.extend([spelled, dir_spelled]),
            _ => {
                // every file once by its absolute path, one of them again under another spelling
                args.extend(paths.iter().cloned());
                args.push(spelled);
            }
        }
        let out = run_cli(&args, Some(&dir.path));
        if !out.timed_out {
            let o = CheckObs { status: out.status, ok_line: out.stdout.lines().any(|l| l.trim() == "OK"), diags: parse_cli_diags(&out.stderr) };
            if counting {
                stats.class("check.same-file-twice");
            }
            channels_agree(&o, codes, "check <dir> <file of dir>").map_err(|(k, d)| fail("channels", &k, d))?;
            if let Some(b) = &base {
                if (o.status == Some(0)) != (b.0 == Some(0)) {
                    return Err(fail("same-file-twice", "exit-differs", format!("`check {}` (cwd = parent of set/) exits {:?}, `check <files>` exits {:?}", args[1..].join(" "), o.status, b.0)));
                }
            }
        }
    }
    // (b3) the set split between explicit file arguments and a directory, in either order: the files
    // named before (or after) the directory belong to the set as much as those inside it
    if files.len() >= 2 && choice.ratio(1, 2) {
        let k = 1 + choice.below(files.len() - 1);
        let part = dir.path.join("part");
        std::fs::create_dir_all(&part).unwrap();
        let mut outside = vec![];
        for (i, f) in files.iter().enumerate() {
            if i < k {
                let p = dir.path.join(format!("out_{}", crate::drive::set_file_name(i)));
                std::fs::write(&p, &disk(&f.text)).unwrap();
                outside.push(p.to_string_lossy().to_string());
            } else {
                std::fs::write(part.join(crate::drive::set_file_name(i)), &disk(&f.text)).unwrap();
            }
        }
        let d = part.to_string_lossy().to_string();
        let orders: Vec<Vec<String>> = vec![
            outside.iter().cloned().chain(std::iter::once(d.clone())).collect(),
            std::iter::once(d.clone()).chain(outside.iter().cloned()).collect(),
        ];
        for ord in orders {
            let mut args = vec!["check".to_string()];
            args.extend(ord.clone());
            if let (Some(o), Some(b)) = (observe_check(&args), &base) {
                if counting {
                    stats.class("check.split-files-and-directory");
                }
                channels_agree(&o, codes, "check <files> <dir>").map_err(|(k2, d2)| fail("channels", &k2, d2))?;
                if (o.status == Some(0)) != (b.0 == Some(0)) {
                    return Err(fail(
                        "split",
                        "exit-differs",
                        format!("the set given as {} explicit file(s) {} a directory with the other {} exits {:?}; all files explicit: {:?}", k, if ord[0] == d { "after" } else { "before" }, files.len() - k, o.status, b.0),
                    ));
                }
                let mut kd: Vec<(String, usize, usize)> = keyed(&o.diags).iter().map(|x| (x.0.clone(), x.2, x.3)).collect();
                kd.sort();
                let mut kb: Vec<(String, usize, usize)> = b.1.iter().map(|x| (x.0.clone(), x.2, x.3)).collect();
                kb.sort();
                // (with several faulty files a rule reports the first one it meets: only sets with at
                // most one faulty file are compared diagnostic by diagnostic)
                // (and a diagnostic that relates two files names "the second" of them by the order
                // of the file names, which the split arrangement changes: not compared either)
                let faulty_files = files.iter().filter(|f| f.class != "valid").count();
                let cross_file = files.iter().any(|f| f.class == "cross-file-fault");
                if faulty_files <= 1 && !cross_file && kd != kb {
                    return Err(fail("split", "diagnostics-differ", format!("split set reports {:?}; all files explicit: {:?}", kd, kb)));
                }
            }
        }
    }
    // (b5) the set split between a directory and a sub-directory of it (a directory argument is not
    // searched recursively, so the deeper files are named as well - one by one, or by their directory),
    // in either order: a path that lies below an earlier argument is an argument like any other
    if files.len() >= 2 && choice.ratio(1, 3) {
        let k = 1 + choice.below(files.len() - 1);
        let nest = dir.path.join("nest");
        let deeper = nest.join("deeper");
        std::fs::create_dir_all(&deeper).unwrap();
        let mut deep_files = vec![];
        // (half of the time the deeper files are NAMED like files of the upper directory: two files of
        // a set may have the same name as long as their directories differ)
        let same_names = choice.flag() && files.len() - k <= k;
        for (i, f) in files.iter().enumerate() {
            if i < k {
                std::fs::write(nest.join(crate::drive::set_file_name(i)), &disk(&f.text)).unwrap();
            } else {
                let p = deeper.join(crate::drive::set_file_name(if same_names { i - k } else { i }));
                std::fs::write(&p, &disk(&f.text)).unwrap();
                deep_files.push(p.to_string_lossy().to_string());
            }
        }
        let d = nest.to_string_lossy().to_string();
        let dd = deeper.to_string_lossy().to_string();
        // the upper directory alone is the list of ITS files: what lies in its sub-directory is not part
        // of it (the listing is not recursive), whatever that is
        {
            let mut top: Vec<String> = vec!["check".to_string()];
            top.extend((0..k).map(|i| nest.join(crate::drive::set_file_name(i)).to_string_lossy().to_string()));
            if let (Some(a), Some(b2)) = (observe_check(&top), observe_check(&["check".to_string(), d.clone()])) {
                if counting {
                    stats.class("check.directory-with-a-populated-sub-directory");
                }
                channels_agree(&b2, codes, "check <dir with a sub-directory>").map_err(|(k2, d2)| fail("channels", &k2, d2))?;
                if (a.status == Some(0)) != (b2.status == Some(0)) {
                    return Err(fail("nested", "directory-vs-its-files", format!("`check <dir>` exits {:?}, `check <the {} file(s) of that directory>` exits {:?}; the directory has a sub-directory with {} more file(s)", b2.status, k, a.status, files.len() - k)));
                }
            }
        }
        let orders: Vec<Vec<String>> = vec![
            std::iter::once(d.clone()).chain(deep_files.iter().cloned()).collect(),
            deep_files.iter().cloned().chain(std::iter::once(d.clone())).collect(),
            vec![d.clone(), dd.clone()],
            vec![dd.clone(), d.clone()],
        ];
        for ord in orders {
            let mut args = vec!["check".to_string()];
            args.extend(ord.clone());
            if let (Some(o), Some(b)) = (observe_check(&args), &base) {
                if counting {
                    stats.class(if same_names { "check.directory-and-paths-below-it.same-file-names" } else { "check.directory-and-paths-below-it" });
                }
                channels_agree(&o, codes, "check <dir> <paths below dir>").map_err(|(k2, d2)| fail("channels", &k2, d2))?;
                if (o.status == Some(0)) != (b.0 == Some(0)) {
                    return Err(fail(
                        "nested",
                        "exit-differs",
                        format!("the set given as a directory ({} file(s)) and {} below it, directory {}, exits {:?}; all files explicit: {:?}", k, if ord.contains(&dd) { "its sub-directory" } else { "the files of its sub-directory" }, if ord[0] == d { "first" } else { "last" }, o.status, b.0),
                    ));
                }
            }
        }
    }
    // (c) directory + extra file outside it
    if choice.flag() {
        let extra = dir.write("extra.st", b"PROGRAM extra_prog\nVAR\nextra_v : INT;\nEND_VAR\nextra_v := 1;\nEND_PROGRAM\n").to_string_lossy().to_string();
        let args = if choice.flag() { vec!["check".to_string(), sub.to_string_lossy().to_string(), extra.clone()] } else { vec!["check".to_string(), extra.clone(), sub.to_string_lossy().to_string()] };
        if let (Some(o), Some(b)) = (observe_check(&args), &base) {
            if counting {
                stats.class("check.mixture");
            }
            channels_agree(&o, codes, "check <dir> <file>").map_err(|(k, d)| fail("channels", &k, d))?;
            if (o.status == Some(0)) != (b.0 == Some(0)) {
                return Err(fail("mixture", "exit-differs", format!("adding a valid file to the set changes the exit status from {:?} to {:?}", b.0, o.status)));
            }
        }
    }
    // a path that does not exist at a random argument position: the invocation must fail
    if choice.ratio(1, 3) {
        let missing = dir.path.join("does_not_exist.st").to_string_lossy().to_string();
        let mut args = paths.clone();
        let at = choice.below(args.len() + 1);
        args.insert(at, missing);
        let mut a = vec!["check".to_string()];
        a.extend(args);
        if let Some(o) = observe_check(&a) {
            if counting {
                stats.class("check.with-missing-path");
            }
            channels_agree(&o, codes, "check with a missing path").map_err(|(k, d)| fail("channels", &k, d))?;
            if o.status == Some(0) {
                return Err(fail("missing-path", "exit-zero", format!("`check` exits 0 although argument #{} does not exist", at)));
            }
        }
    }
    // echo / tokenize: exit 0 exactly when every file parses / tokenizes (in-process reference)
    let all_parse = files.iter().all(|f| crate::panicx::catch(|| ironplc_parser::parse_program(&f.text, &FileId::from_string("x"), &ParseOptions::default()).is_ok()).unwrap_or(false));
    let all_tok = files.iter().all(|f| crate::panicx::catch(|| ironplc_parser::tokenize_program(&f.text, &FileId::from_string("x"), &ParseOptions::default()).1.is_empty()).unwrap_or(false));
    for (cmd, want_ok) in [("echo", all_parse), ("tokenize", all_tok)] {
        // the files as arguments (either order), the directory, or the first file + a directory with
        // the others (either order): the same files every time
        let form = choice.below(6);
        let mut args = vec![cmd.to_string()];
        let form_name = match form {
            0 | 1 => {
                args.extend(paths.clone());
                "files"
            }
            2 => {
                args.extend(paths.iter().rev().cloned());
                "files-reversed"
            }
            3 => {
                args.push(sub.to_string_lossy().to_string());
                "directory"
            }
            _ => {
                let rest = dir.path.join(format!("rest_{}", cmd));
                std::fs::create_dir_all(&rest).unwrap();
                for (i, f) in files.iter().enumerate().skip(1) {
                    std::fs::write(rest.join(crate::drive::set_file_name(i)), &disk(&f.text)).unwrap();
                }
                let first = paths[0].clone();
                let r = rest.to_string_lossy().to_string();
                if form == 4 {
                    args.extend([first, r]);
                } else {
                    args.extend([r, first]);
                }
                "file-and-directory"
            }
        };
        let out = run_cli(&args, None);
        if out.timed_out {
            stats.inconclusive += 1;
            continue;
        }
        if counting {
            stats.class(&format!("{}.{}", cmd, form_name));
        }
        match out.status {
            Some(c) if c != 101 => {} // any exit status but the panic status; death by signal is None
            other => return Err(fail(cmd, "abnormal-exit", format!("`{}` exits {:?}", cmd, other))),
        }
        if (out.status == Some(0)) != want_ok {
            return Err(fail(cmd, "exit-vs-content", format!("`{}` exits {:?} although every file {}: {}", cmd, out.status, if cmd == "echo" { "parses" } else { "tokenizes" }, want_ok)));
        }
    }
    // positions printed by the CLI equal the positions of the labels (ASCII sets)
    if let Some(b) = &base {
        for (code, file, line, col) in &b.1 {
            if let Some(idx) = (0..files.len()).find(|&i| crate::drive::set_file_name(i) == *file) {
                if let Some(f) = files.get(idx) {
                    let pos = PosIndex::new(&f.text);
                    if *line == 0 || *line > pos.lines() {
                        return Err(fail("positions", "line-outside-file", format!("{} is reported at {}:{}:{} but the file has {} lines", code, file, line, col, pos.lines())));
                    }
                }
            }
        }
    }
    if counting {
        for f in &files {
            stats.class(&format!("file.{}", f.class));
        }
        stats.absorb_gates(gates);
        if stats.samples.len() < 2 {
            stats.samples.push(json!({"files": files.iter().map(|f| f.class).collect::<Vec<_>>(), "first_file": files[0].text.chars().take(300).collect::<String>()}));
        }
    } else {
        gates.take_wanted();
    }
    Ok(())
}

fn fixed_cases(rep: &mut Report, codes: &[String], gates: &Gates) {
    // missing path, empty directory, unreadable file, directory without source files
    let dir = Scratch::new("c13fix");
    let empty = dir.path.join("empty");
    std::fs::create_dir_all(&empty).unwrap();
    let good = dir.write("good.st", b"PROGRAM p\nVAR\nx : INT;\nEND_VAR\nx := 1;\nEND_PROGRAM\n").to_string_lossy().to_string();
    let missing = dir.path.join("nope.st").to_string_lossy().to_string();
    let good2 = dir.write("good2.st", b"PROGRAM p2\nVAR\ny : INT;\nEND_VAR\ny := 1;\nEND_PROGRAM\n").to_string_lossy().to_string();
    let gooddir = dir.path.join("gooddir");
    std::fs::create_dir_all(&gooddir).unwrap();
    std::fs::write(gooddir.join("g.st"), b"PROGRAM p3\nVAR\nz : INT;\nEND_VAR\nz := 1;\nEND_PROGRAM\n").unwrap();
    let gd = gooddir.to_string_lossy().to_string();
    let mut cases: Vec<(&str, Vec<String>)> = vec![
        ("missing path", vec!["check".into(), missing.clone()]),
        ("good file + missing path", vec!["check".into(), good.clone(), missing.clone()]),
        ("missing path + good file", vec!["check".into(), missing.clone(), good.clone()]),
        ("good + missing + good", vec!["check".into(), good.clone(), missing.clone(), good2.clone()]),
        ("missing path + directory", vec!["check".into(), missing.clone(), gd.clone()]),
        ("directory + missing path", vec!["check".into(), gd.clone(), missing.clone()]),
        ("good file", vec!["check".into(), good.clone()]),
    ];
    // echo / tokenize with a path that cannot be read: not every given file parses / tokenizes
    for cmd in ["echo", "tokenize"] {
        for args in [vec![missing.clone(), good.clone()], vec![good.clone(), missing.clone()]] {
            let mut a = vec![cmd.to_string()];
            a.extend(args);
            let o = run_cli(&a, None);
            if !o.timed_out {
                rep.stats.case(true, hash_str(&format!("{:?}", a)));
                rep.stats.class(&format!("fixed.{}-with-missing-path", cmd));
                if o.status == Some(0) {
                    rep.failures.push((Failure::new("fixed-case", "exit-vs-content", format!("`{} ...` exits 0 although one given path cannot be read", cmd), json!({"case": format!("{} with a missing path", cmd), "args": a})), vec![]));
                }
            }
        }
    }
    // a directory that holds a source file whose NAME is not valid UTF-8 (a Latin-1 name on a Unix
    // file system): whatever the tool makes of it, the three channels agree
    {
        use std::os::unix::ffi::OsStrExt;
        let odd = dir.path.join("odd");
        std::fs::create_dir_all(&odd).unwrap();
        let _ = std::fs::write(odd.join(std::ffi::OsStr::from_bytes(b"caf\xe9.st")), b"PROGRAM p4\nVAR\nw : INT;\nEND_VAR\nw := 1;\nEND_PROGRAM\n");
        let _ = std::fs::write(odd.join("plain.st"), b"PROGRAM p5\nVAR\nv : INT;\nEND_VAR\nv := 1;\nEND_PROGRAM\n");
        let od = odd.to_string_lossy().to_string();
        cases.push(("directory with a file name that is not UTF-8", vec!["check".into(), od.clone()]));
        cases.push(("good file + directory with a file name that is not UTF-8", vec!["check".into(), good.clone(), od.clone()]));
        for cmd in ["echo", "tokenize"] {
            let o = run_cli(&[cmd.to_string(), od.clone()], None);
            if !o.timed_out {
                rep.stats.case(true, hash_str(&format!("{} odd", cmd)));
                rep.stats.class(&format!("fixed.{}-directory-with-non-utf8-name", cmd));
                if !matches!(o.status, Some(c) if c != 101) {
                    rep.failures.push((Failure::new("fixed-case", "abnormal-exit", format!("`{} <dir with a non-UTF-8 file name>` exits {:?}", cmd, o.status), json!({"case": "non-UTF-8 file name"})), vec![]));
                }
            }
        }
    }
    // valid files that are nested deeply but far below what the tool digests on its main thread
    // (200 parentheses, 90 IFs, a flat chain of 250 operands: a third of the depth at which the pinned
    // debug build gives up): a normal exit with agreeing channels, alone and next to other files; and
    // `echo` / `tokenize` of a file that parses exit 0
    {
        let deep: Vec<(&str, String)> = vec![
            ("deep-parentheses", format!("PROGRAM dp\nVAR\nx : INT;\nEND_VAR\nx := {}1{};\nEND_PROGRAM\n", "(".repeat(200), ")".repeat(200))),
            ("deep-ifs", format!("PROGRAM di\nVAR\nx : INT;\nEND_VAR\n{}x := 2;\n{}END_PROGRAM\n", "IF x = 1 THEN\n".repeat(90), "END_IF;\n".repeat(90))),
            ("long-chain", format!("PROGRAM dc\nVAR\nx : INT;\nEND_VAR\nx := {}x;\nEND_PROGRAM\n", "x + ".repeat(250))),
        ];
        let faulty = dir.write("faulty.st", b"PROGRAM pf\nVAR\nq : INT;\nEND_VAR\nq := nowhere;\nEND_PROGRAM\n").to_string_lossy().to_string();
        for (name, text) in &deep {
            let f = dir.write(&format!("{}.st", name), text.as_bytes()).to_string_lossy().to_string();
            let leak: &'static str = Box::leak(name.to_string().into_boxed_str());
            cases.push((leak, vec!["check".into(), f.clone()]));
            cases.push((Box::leak(format!("{} + good file", name).into_boxed_str()), vec!["check".into(), f.clone(), good.clone()]));
            cases.push((Box::leak(format!("faulty file + {}", name).into_boxed_str()), vec!["check".into(), faulty.clone(), f.clone()]));
            for cmd in ["echo", "tokenize"] {
                let o = run_cli(&[cmd.to_string(), f.clone()], None);
                if !o.timed_out {
                    rep.stats.case(true, hash_str(&format!("{} {}", cmd, name)));
                    rep.stats.class(&format!("fixed.{}-{}", cmd, name));
                    if o.status != Some(0) {
                        rep.failures.push((Failure::new("fixed-case", "exit-vs-content", format!("`{} <{}>` exits {:?} although the file parses", cmd, name, o.status), json!({"case": format!("{} {}", cmd, name)})), vec![]));
                    }
                }
            }
        }
    }
    if gates.want("CHECK_EMPTY_SET") {
        cases.push(("empty directory", vec!["check".into(), empty.to_string_lossy().to_string()]));
        cases.push(("no arguments", vec!["check".into()]));
    }
    // unreadable file (skipped when running as root, counted)
    let unread = dir.write("unreadable.st", b"PROGRAM p\nEND_PROGRAM\n");
    #[allow(unused_mut)]
    let mut is_root = false;
    unsafe {
        if libc::geteuid() == 0 {
            is_root = true;
        }
    }
    if !is_root {
        use std::os::unix::fs::PermissionsExt;
        let _ = std::fs::set_permissions(&unread, std::fs::Permissions::from_mode(0o000));
        cases.push(("unreadable file", vec!["check".into(), unread.to_string_lossy().to_string()]));
    } else {
        rep.stats.class("fixed.unreadable-file-skipped-as-root");
    }
    for (what, args) in cases {
        if let Some(o) = observe_check(&args) {
            rep.stats.case(true, hash_str(what));
            rep.stats.class(&format!("fixed.{}", what.replace(' ', "-")));
            if let Err((k, d)) = channels_agree(&o, codes, what) {
                rep.failures.push((Failure::new("fixed-case", &k, d, json!({"case": what})), vec![]));
            }
        }
    }
}

/// Invocations that report very many diagnostics (255, 256, 257, 512 faulty files next to a valid
/// one, as files and as a directory; as many missing paths; a file with as many unmatched
/// characters for `tokenize`): the channels must still agree - a failing run never exits 0.
fn many_diagnostics(rep: &mut Report, codes: &[String]) {
    let counts: Vec<usize> = vec![255, 256, 257, 512];
    let out = run_items(&counts, 4, |n, stats| {
        let dir = Scratch::new("c13many");
        let sub = dir.path.join("set");
        std::fs::create_dir_all(&sub).unwrap();
        let mut paths = vec![];
        for i in 0..*n {
            let p = sub.join(format!("bad{:04}.st", i));
            std::fs::write(&p, format!("PROGRAM pb{}\nVAR\nx : INT\nEND_VAR\nEND_PROGRAM\n", i).as_bytes()).unwrap();
            paths.push(p.to_string_lossy().to_string());
        }
        let good = sub.join("good.st");
        std::fs::write(&good, b"PROGRAM pgood\nVAR\nx : INT;\nEND_VAR\nx := 1;\nEND_PROGRAM\n").unwrap();
        paths.push(good.to_string_lossy().to_string());
        let fail = |kind: &str, detail: String| Failure::new("many-diagnostics", kind, detail, json!({"faulty_files": n}));
        let mut invocations: Vec<(String, Vec<String>)> = vec![];
        let mut a = vec!["check".to_string()];
        a.extend(paths.clone());
        invocations.push((format!("check {} faulty files + 1 valid", n), a));
        invocations.push((format!("check <dir with {} faulty files + 1 valid>", n), vec!["check".into(), sub.to_string_lossy().to_string()]));
        let mut m = vec!["check".to_string()];
        for i in 0..*n {
            m.push(dir.path.join(format!("missing{}.st", i)).to_string_lossy().to_string());
        }
        invocations.push((format!("check {} missing paths", n), m));
        for (what, args) in invocations {
            if let Some(o) = observe_check(&args) {
                stats.case(true, hash_str(&what));
                stats.class("many-diagnostics.check");
                channels_agree(&o, codes, &what).map_err(|(k, d)| fail(&k, d))?;
                if o.status == Some(0) {
                    return Err(fail("exit-zero-on-failure", format!("{} exits 0", what)));
                }
            }
        }
        // echo / tokenize
        let junk = dir.write("junk.st", "?".repeat(*n).as_bytes()).to_string_lossy().to_string();
        for (cmd, args) in [("tokenize", vec!["tokenize".to_string(), junk.clone()]), ("echo", { let mut e = vec!["echo".to_string()]; e.extend(paths.clone()); e })] {
            let out = run_cli(&args, None);
            if out.timed_out {
                continue;
            }
            stats.class(&format!("many-diagnostics.{}", cmd));
            if out.status == Some(0) || out.status == Some(101) || out.status.is_none() {
                return Err(fail("exit-zero-on-failure", format!("`{}` with {} problems exits {:?}", cmd, n, out.status)));
            }
        }
        Ok(())
    });
    rep.add(out);
}

pub fn run(ctx: &Ctx) -> i32 {
    let clock = Clock::start();
    let mut rep = Report::new(
        "C13",
        ctx.tier,
        ctx.seed,
        "exploration",
        "sets of 1..4 (now and then 8..21) generated files (valid / one planted semantic fault / syntax error / lexical error, disjoint names; an eighth of the sets saved as Windows-1252 with a comment of 1..1000 non-ASCII characters in front of every file) given to `ironplcc check` as explicit files in canonical, reversed and rotated order, as a flat directory, and as directory + extra valid file in both orders; `echo` and `tokenize` on the same files; fixed cases: missing path, missing path + good file, empty directory, no arguments, unreadable file; invocations with 255 / 256 / 257 / 512 diagnostics. Oracle per invocation: a normal exit (any status but the panic status 101, no death by signal); exit 0 <=> stdout has the line OK <=> no error[P....] on stderr; every code is listed in problem-codes.csv; same exit for every argument order; directory == file list (exit and multiset of (code, basename, line, column)); echo / tokenize exit 0 <=> every file parses / tokenizes in-process. Non-trivial: >= 2 files, a directory, or a faulty file; distinct by invocation.",
    );
    let gates = ctx.gates_for("C13");
    let off = gates.off_list();
    let codes = known_codes();
    fixed_cases(&mut rep, &codes, &gates);
    many_diagnostics(&mut rep, &codes);
    let cases = ctx.tier.pick(4_000, 60_000);
    let out = run_tapes("C13", ctx.seed, ctx.threads, cases, 600, |tape, stats, counting| {
        let g = Gates::with_off(off.clone());
        check_tape(tape, &g, &codes, stats, counting)
    });
    rep.add(out);
    rep.replay_witnesses(&ctx.findings, &|w| witness(w, &codes));
    rep.extra.insert("gates_off".into(), json!(off));
    rep.assumptions = vec!["C13 judges the agreement of exit status, OK line and diagnostics, not the correctness of the verdict (C02 / C03)".into(), "diagnostic sets are compared as multisets".into()];
    rep.wall_s = clock.secs();
    rep.finish()
}

/// witness {"kind":"check_args","layout":"empty_dir"|"no_args"|...}
pub fn witness(w: &Value, codes: &[String]) -> Result<(), String> {
    let dir = Scratch::new("c13w");
    let args: Vec<String> = match w["layout"].as_str().unwrap_or("") {
        "empty_dir" => {
            let e = dir.path.join("empty");
            std::fs::create_dir_all(&e).unwrap();
            vec!["check".into(), e.to_string_lossy().to_string()]
        }
        "no_args" => vec!["check".into()],
        "files" => {
            let mut a = vec!["check".to_string()];
            for (i, f) in w["files"].as_array().cloned().unwrap_or_default().iter().enumerate() {
                a.push(dir.write(&format!("f{}.st", i), &disk(f.as_str().unwrap_or(""))).to_string_lossy().to_string());
            }
            a
        }
        "dir_with_subdir" => {
            // a directory holding the files and an empty sub-directory must behave like the file list
            let d = dir.path.join("set");
            std::fs::create_dir_all(d.join("nested_dir")).unwrap();
            let mut files = vec!["check".to_string()];
            for (i, f) in w["files"].as_array().cloned().unwrap_or_default().iter().enumerate() {
                let p = d.join(format!("f{}.st", i));
                std::fs::write(&p, &disk(f.as_str().unwrap_or(""))).unwrap();
                files.push(p.to_string_lossy().to_string());
            }
            let of = observe_check(&files).ok_or("timeout")?;
            let od = observe_check(&["check".to_string(), d.to_string_lossy().to_string()]).ok_or("timeout")?;
            if of.status != od.status {
                return Err(format!("`check <dir>` exits {:?}, `check <files>` exits {:?}", od.status, of.status));
            }
            vec!["check".into(), d.to_string_lossy().to_string()]
        }
        l => return Err(format!("unknown layout {}", l)),
    };
    let o = observe_check(&args).ok_or("timeout")?;
    channels_agree(&o, codes, "witness").map_err(|(k, d)| format!("{}: {}", k, d))
}

pub fn replay(ctx: &Ctx, v: &Value) -> i32 {
    let codes = known_codes();
    let r: Result<(), String> = if v["check"] == "witness" {
        witness(&v["inputs"], &codes)
    } else if v["check"] == "fixed-case" {
        let gates = Gates::all_on();
        let mut rep = Report::new("C13", ctx.tier, ctx.seed, "exploration", "");
        fixed_cases(&mut rep, &codes, &gates);
        if rep.failures.is_empty() {
            Ok(())
        } else {
            Err(rep.failures.iter().map(|f| f.0.detail.clone()).collect::<Vec<_>>().join("; "))
        }
    } else {
        let tape: Vec<u8> = v["tape"].as_array().map(|a| a.iter().map(|x| x.as_u64().unwrap_or(0) as u8).collect()).unwrap_or_default();
        let gates = ctx.gates_for("C13");
        let mut s = Stats::default();
        check_tape(&tape, &gates, &codes, &mut s, false).map_err(|f| format!("{}: {}", f.kind, f.detail))
    };
    match r {
        Ok(()) => {
            println!("replay: property holds on this input");
            0
        }
        Err(e) => {
            println!("VIOLATION property=C13 replay={}", ctx.replay_path.clone().unwrap_or_default());
            eprintln!("{}", e);
            1
        }
    }
}

//! C01 – parsing is faithful.
//!
//! Generator: AST-first.  A tape drives `gen_syntax` to an `ironplc_dsl`
//! library in the image of a faithful parser; the harness' own printer spells it
//! (alternative productions of the same meaning chosen from the tape; mild
//! layout); `parse_program` must return exactly that library (derived equality,
//! plus a case-sensitive comparison of every identifier's spelling).

use crate::astwalk::{collect_ids, debug_diff};
use crate::gates::Gates;
use crate::gen_syntax::Gen;
use crate::lexeme::{layout, Lexeme, SpellOpts};
use crate::printer::Printer;
use crate::report::Report;
use crate::runner::*;
use crate::tape::Tape;
use crate::Ctx;
use ironplc_dsl::common::*;
use ironplc_dsl::core::FileId;
use ironplc_dsl::textual::*;
use ironplc_parser::options::ParseOptions;
use ironplc_parser::parse_program;
use serde_json::{json, Value};

pub struct Case {
    pub lib: Library,
    /// the same program with every '$' escape of a string decoded (the other faithful reading)
    pub lib_decoded: Library,
    pub lexemes: Vec<Lexeme>,
    pub text: String,
    pub productions: usize,
}

/// tape -> (expected library, text)
pub fn build(tape: &[u8], gates: &Gates, opts: &SpellOpts, max_elements: usize) -> Case {
    let mut g = Gen::new(gates, Tape::new(tape));
    let lib = g.library(max_elements);
    let rest = g.t.rest();
    let lib_decoded = {
        let mut g2 = Gen::new(gates, Tape::new(tape));
        g2.decode_escapes = true;
        g2.library(max_elements)
    };
    let mut p = Printer::new(gates, rest);
    p.library(&lib);
    let mut lt = p.t.rest();
    let lexemes = p.finish();
    let (lay, _) = layout(&lexemes, opts, &mut lt);
    let productions = gates.take_hits_peek();
    Case { lib, lib_decoded, lexemes, text: lay.text, productions }
}

pub fn compare(expected: &Library, text: &str) -> Result<(), (String, String)> {
    let fid = FileId::from_string("c01.st");
    let parsed = match crate::panicx::catch(|| parse_program(text, &fid, &ParseOptions::default())) {
        Ok(r) => r,
        Err((loc, msg)) => return Err(("panic".into(), format!("parse_program panicked at {}: {}", loc, msg))),
    };
    match parsed {
        Err(d) => Err((
            "rejected".into(),
            format!("parse_program rejected a well-formed program: {} {} at {}..{}", d.code, d.primary.message, d.primary.location.start, d.primary.location.end),
        )),
        Ok(actual) => {
            if &actual != expected {
                if actual.elements.len() != expected.elements.len() {
                    return Err((
                        "element-count".into(),
                        format!("library has {} elements, expected {}\n{}", actual.elements.len(), expected.elements.len(), debug_diff(expected, &actual)),
                    ));
                }
                return Err(("ast-mismatch".into(), debug_diff(expected, &actual)));
            }
            let ei: Vec<String> = collect_ids(expected).into_iter().map(|x| x.0).collect();
            let ai: Vec<String> = collect_ids(&actual).into_iter().map(|x| x.0).collect();
            if ei != ai {
                let k = ei.iter().zip(ai.iter()).position(|(a, b)| a != b).unwrap_or(ei.len().min(ai.len()));
                return Err((
                    "identifier-spelling".into(),
                    format!("identifier #{} differs: expected {:?} got {:?}", k, ei.get(k), ai.get(k)),
                ));
            }
            Ok(())
        }
    }
}

fn check_tape(tape: &[u8], gates: &Gates, stats: &mut Stats, counting: bool) -> Result<(), Failure> {
    // mostly the mild layout (blanks only); a quarter of the programs are laid out with comments
    // (also OSCAT-marker comments and blocks), line breaks, CRLF and re-cased keywords - the
    // expected library does not depend on the layout (identifier spellings are kept)
    let opts = if crate::tape::fnv(tape) % 4 == 0 {
        let mut o = crate::props::c08::opts_for(gates);
        o.ident_case = false;
        o
    } else {
        SpellOpts::mild()
    };
    let case = build(tape, gates, &opts, 4);
    if counting {
        stats.class(if opts.mild { "layout.mild" } else { "layout.wild" });
        let nontrivial = !case.lib.elements.is_empty() && case.productions >= 3;
        stats.case(nontrivial, hash_str(&case.text));
        stats.absorb_gates(gates);
        for e in &case.lib.elements {
            stats.class(match e {
                LibraryElementKind::DataTypeDeclaration(_) => "decl.type",
                LibraryElementKind::FunctionDeclaration(_) => "decl.function",
                LibraryElementKind::FunctionBlockDeclaration(_) => "decl.function_block",
                LibraryElementKind::ProgramDeclaration(_) => "decl.program",
                LibraryElementKind::ConfigurationDeclaration(_) => "decl.configuration",
                #[allow(unreachable_patterns)]
                _ => panic!("ironplc dsl variant unknown to the verification harness"),
            });
        }
        let text = case.text.clone();
        stats.sample(4, || json!(text));
    } else {
        gates.take_hits();
        gates.take_wanted();
    }
    match compare(&case.lib, &case.text) {
        Ok(()) => Ok(()),
        // strings with '$' escapes: the library may keep the text between the quotes or the
        // characters it denotes (all strings alike) - nothing else may differ
        Err(_) if case.lib_decoded != case.lib && compare(&case.lib_decoded, &case.text).is_ok() => Ok(()),
        Err((kind, detail)) => Err(Failure::new("random-program", &kind, detail, json!({"text": case.text}))),
    }
}

// ------------------------------------------------------- expression grid
const OPS: usize = 15;

fn lb(n: &str) -> ExprKind {
    ExprKind::late_bound(n)
}

fn wrap_program(e: ExprKind) -> Library {
    Library {
        elements: vec![LibraryElementKind::FunctionBlockDeclaration(FunctionBlockDeclaration {
            name: crate::gen_syntax::id("fb"),
            variables: vec![],
            edge_variables: vec![],
            body: FunctionBlockBodyKind::stmts(vec![StmtKind::assignment(Variable::named("r"), e)]),
            span: Default::default(),
        })],
    }
}

fn print_canonical(lib: &Library, gates: &Gates) -> String {
    let mut p = Printer::new(gates, Tape::empty());
    p.library(lib);
    let lex = p.finish();
    let (lay, _) = layout(&lex, &SpellOpts::canonical(), &mut Tape::empty());
    gates.take_hits();
    lay.text
}

/// all ordered operator pairs × both association shapes, all unary/binary mixes
fn grid_items() -> Vec<(String, Library)> {
    let gates = Gates::all_on();
    let g = Gen::new(&gates, Tape::empty());
    let mut g = g;
    let mut v = vec![];
    for a in 0..OPS {
        for b in 0..OPS {
            let left = {
                let inner = g.binop(a, lb("x"), lb("y"));
                g.binop(b, inner, lb("z"))
            };
            let right = {
                let inner = g.binop(b, lb("y"), lb("z"));
                g.binop(a, lb("x"), inner)
            };
            v.push((format!("pair({},{}).left", a, b), wrap_program(left)));
            v.push((format!("pair({},{}).right", a, b), wrap_program(right)));
        }
        for (un, u) in [(UnaryOp::Neg, "neg"), (UnaryOp::Not, "not")] {
            // -x op y ; -(x op y) ; x op -y
            let e1 = g.binop(a, ExprKind::unary(un.clone(), lb("x")), lb("y"));
            let e2 = ExprKind::unary(un.clone(), g.binop(a, lb("x"), lb("y")));
            let e3 = g.binop(a, lb("x"), ExprKind::unary(un.clone(), lb("y")));
            v.push((format!("unary({},{}).operand-left", u, a), wrap_program(e1)));
            v.push((format!("unary({},{}).whole", u, a), wrap_program(e2)));
            v.push((format!("unary({},{}).operand-right", u, a), wrap_program(e3)));
        }
    }
    // triples: all shapes for a sample of operator triples (every operator in every position)
    for a in 0..OPS {
        for k in 0..OPS {
            let b = (a * 7 + k * 3 + 1) % OPS;
            let c = (a + k * 5 + 2) % OPS;
            // ((x a y) b z) c w ; x a (y b (z c w)) ; (x a y) b (z c w)
            let s1 = {
                let i1 = g.binop(a, lb("x"), lb("y"));
                let i2 = g.binop(b, i1, lb("z"));
                g.binop(c, i2, lb("w"))
            };
            let s2 = {
                let i1 = g.binop(c, lb("z"), lb("w"));
                let i2 = g.binop(b, lb("y"), i1);
                g.binop(a, lb("x"), i2)
            };
            let s3 = {
                let i1 = g.binop(a, lb("x"), lb("y"));
                let i2 = g.binop(c, lb("z"), lb("w"));
                g.binop(b, i1, i2)
            };
            v.push((format!("triple({},{},{}).l", a, b, c), wrap_program(s1)));
            v.push((format!("triple({},{},{}).r", a, b, c), wrap_program(s2)));
            v.push((format!("triple({},{},{}).m", a, b, c), wrap_program(s3)));
        }
    }
    v
}


// ------------------------------------------------------- declaration grid
use crate::gen_syntax::{id, sint, uint};
use ironplc_dsl::core::SourceSpan;

fn iconst(v: u128) -> ConstantKind {
    ConstantKind::IntegerLiteral(IntegerLiteral { value: sint(v, false), data_type: None })
}
fn ev(n: &str) -> EnumeratedValue {
    EnumeratedValue::new(n)
}
fn arr_spec() -> ArraySpecificationKind {
    ArraySpecificationKind::Subranges(ArraySubranges { ranges: vec![Subrange { start: sint(1, false), end: sint(3, false) }], type_name: Type::from("INT") })
}
fn sub_spec() -> SubrangeSpecificationKind {
    SubrangeSpecificationKind::Specification(SubrangeSpecification { type_name: ElementaryTypeName::INT, subrange: Subrange { start: sint(0, false), end: sint(9, false) } })
}

/// every initialiser kind of `var_init_decl`
fn init_kinds_var() -> Vec<(&'static str, InitialValueAssignmentKind)> {
    use InitialValueAssignmentKind as K;
    vec![
        ("simple", K::Simple(SimpleInitializer { type_name: Type::from("INT"), initial_value: None })),
        ("simple-const", K::Simple(SimpleInitializer { type_name: Type::from("INT"), initial_value: Some(iconst(5)) })),
        ("derived-const", K::Simple(SimpleInitializer { type_name: Type::from("MyT"), initial_value: Some(iconst(5)) })),
        ("enum-type", K::EnumeratedType(EnumeratedInitialValueAssignment { type_name: Type::from("MyE"), initial_value: Some(ev("va")) })),
        ("enum-values", K::EnumeratedValues(EnumeratedValuesInitializer { values: vec![ev("va"), ev("vb")], initial_value: None })),
        ("enum-values-init", K::EnumeratedValues(EnumeratedValuesInitializer { values: vec![ev("va"), ev("vb")], initial_value: Some(ev("vb")) })),
        ("late", K::LateResolvedType(Type::from("MyT"))),
        ("struct-init", K::Structure(StructureInitializationDeclaration { type_name: Type::from("MyS"), elements_init: vec![StructureElementInit { name: id("fx"), init: StructInitialValueAssignmentKind::Constant(iconst(1)) }] })),
        ("string", K::String(StringInitializer { length: None, width: StringType::String, initial_value: None, keyword_span: SourceSpan::default() })),
        ("wstring-len-init", K::String(StringInitializer { length: Some(uint(10)), width: StringType::WString, initial_value: Some("ab".chars().collect()), keyword_span: SourceSpan::default() })),
        ("array", K::Array(ArrayInitialValueAssignment { spec: arr_spec(), initial_values: vec![] })),
        ("array-init", K::Array(ArrayInitialValueAssignment { spec: arr_spec(), initial_values: vec![ArrayInitialElementKind::Constant(iconst(1)), ArrayInitialElementKind::Constant(iconst(2))] })),
    ]
}
fn init_kinds_function_var() -> Vec<(&'static str, InitialValueAssignmentKind)> {
    init_kinds_var().into_iter().filter(|(n, _)| ["simple", "simple-const", "derived-const", "enum-type", "enum-values", "enum-values-init", "late"].contains(n)).collect()
}
fn init_kinds_inout() -> Vec<(&'static str, InitialValueAssignmentKind)> {
    use InitialValueAssignmentKind as K;
    vec![
        ("late-elementary", K::LateResolvedType(Type::from("INT"))),
        ("late-derived", K::LateResolvedType(Type::from("MyT"))),
        ("subrange", K::Subrange(sub_spec())),
        ("enum-values", K::EnumeratedValues(EnumeratedValuesInitializer { values: vec![ev("va"), ev("vb")], initial_value: None })),
        ("array", K::Array(ArrayInitialValueAssignment { spec: arr_spec(), initial_values: vec![] })),
    ]
}
fn init_kinds_incomplete() -> Vec<(&'static str, InitialValueAssignmentKind)> {
    use InitialValueAssignmentKind as K;
    vec![
        ("simple", K::Simple(SimpleInitializer { type_name: Type::from("BOOL"), initial_value: None })),
        ("subrange", K::Subrange(sub_spec())),
        ("enum-values", K::EnumeratedValues(EnumeratedValuesInitializer { values: vec![ev("va"), ev("vb")], initial_value: None })),
        ("enum-type", K::EnumeratedType(EnumeratedInitialValueAssignment { type_name: Type::from("MyE"), initial_value: None })),
        ("array", K::Array(ArrayInitialValueAssignment { spec: arr_spec(), initial_values: vec![] })),
        ("string-len", K::String(StringInitializer { length: Some(uint(8)), width: StringType::String, initial_value: None, keyword_span: SourceSpan::default() })),
        ("wstring", K::String(StringInitializer { length: None, width: StringType::WString, initial_value: None, keyword_span: SourceSpan::default() })),
    ]
}

fn sym(name: &str, vt: VariableType, q: DeclarationQualifier, init: InitialValueAssignmentKind) -> VarDecl {
    VarDecl { identifier: VariableIdentifier::Symbol(id(name)), var_type: vt, qualifier: q, initializer: init }
}

/// every POU kind x VAR block class x qualifier x initialiser kind the grammar admits
fn decl_grid_items() -> Vec<(String, Library)> {
    use DeclarationQualifier::*;
    let mut cells: Vec<(String, &'static str, Vec<VarDecl>, Vec<EdgeVarDecl>)> = vec![];
    for pou in ["fb", "program", "function"] {
        let var_quals: Vec<DeclarationQualifier> = if pou == "function" { vec![Unspecified, Constant] } else { vec![Unspecified, Constant, Retain, NonRetain] };
        let var_kinds = if pou == "function" { init_kinds_function_var() } else { init_kinds_var() };
        for q in &var_quals {
            for (kn, k) in &var_kinds {
                cells.push((format!("{}.VAR.{:?}.{}", pou, q, kn), pou, vec![sym("v1", VariableType::Var, q.clone(), k.clone())], vec![]));
            }
        }
        for (vt, vn) in [(VariableType::Input, "VAR_INPUT"), (VariableType::Output, "VAR_OUTPUT")] {
            for q in [Unspecified, Retain, NonRetain] {
                for (kn, k) in &init_kinds_var() {
                    cells.push((format!("{}.{}.{:?}.{}", pou, vn, q, kn), pou, vec![sym("v1", vt.clone(), q.clone(), k.clone())], vec![]));
                }
            }
        }
        for (kn, k) in &init_kinds_inout() {
            cells.push((format!("{}.VAR_IN_OUT.{}", pou, kn), pou, vec![sym("v1", VariableType::InOut, Unspecified, k.clone())], vec![]));
        }
        if pou != "program" {
            for q in [Unspecified, Retain, NonRetain] {
                for dir in [EdgeDirection::Rising, EdgeDirection::Falling] {
                    cells.push((format!("{}.edge.{:?}.{:?}", pou, q, dir), pou, vec![], vec![EdgeVarDecl { identifier: id("e1"), direction: dir, qualifier: q.clone() }]));
                }
            }
        }
        if pou != "function" {
            for q in [Unspecified, Constant] {
                for t in ["INT", "MyT"] {
                    cells.push((format!("{}.VAR_EXTERNAL.{:?}.{}", pou, q, t), pou, vec![sym("g1", VariableType::External, q.clone(), InitialValueAssignmentKind::Simple(SimpleInitializer { type_name: Type::from(t), initial_value: None }))], vec![]));
                }
            }
            for q in [Unspecified, Retain, NonRetain] {
                for (kn, k) in &init_kinds_incomplete() {
                    let d = VarDecl {
                        identifier: VariableIdentifier::Direct(DirectVariableIdentifier {
                            name: Some(id("l1")),
                            address_assignment: AddressAssignment { location: LocationPrefix::I, size: SizePrefix::Unspecified, address: vec![], position: SourceSpan::default() },
                            span: SourceSpan::default(),
                        }),
                        var_type: VariableType::Var,
                        qualifier: q.clone(),
                        initializer: k.clone(),
                    };
                    cells.push((format!("{}.incomplete-located.{:?}.{}", pou, q, kn), pou, vec![d], vec![]));
                }
            }
        }
        if pou == "program" {
            for q in [Unspecified, Constant, Retain, NonRetain] {
                for named in [true, false] {
                    for init in [None, Some(ConstantKind::Boolean(BooleanLiteral::new(Boolean::True)))] {
                        let d = VarDecl {
                            identifier: VariableIdentifier::Direct(DirectVariableIdentifier {
                                name: if named { Some(id("l1")) } else { None },
                                address_assignment: AddressAssignment { location: LocationPrefix::Q, size: SizePrefix::X, address: vec![1, 2], position: SourceSpan::default() },
                                span: SourceSpan::default(),
                            }),
                            var_type: VariableType::Var,
                            qualifier: q.clone(),
                            initializer: InitialValueAssignmentKind::Simple(SimpleInitializer { type_name: Type::from("BOOL"), initial_value: init.clone() }),
                        };
                        cells.push((format!("program.located.{:?}.{}.{}", q, if named { "named" } else { "unnamed" }, if init.is_some() { "init" } else { "noinit" }), pou, vec![d], vec![]));
                    }
                }
            }
        }
    }
    let mut out = vec![];
    for (name, pou, vars, edges) in cells {
        for neighbour in [false, true] {
            let mut vars = vars.clone();
            if neighbour {
                // a second block of another class after the cell: order and separation must be kept
                vars.push(sym("n1", VariableType::Output, DeclarationQualifier::Unspecified, InitialValueAssignmentKind::Simple(SimpleInitializer { type_name: Type::from("BOOL"), initial_value: None })));
            }
            let stmt = StmtKind::assignment(Variable::named("x"), ExprKind::late_bound("y"));
            let elem = match pou {
                "fb" => LibraryElementKind::FunctionBlockDeclaration(FunctionBlockDeclaration { name: id("pou1"), variables: vars, edge_variables: edges.clone(), body: FunctionBlockBodyKind::stmts(vec![stmt]), span: SourceSpan::default() }),
                "program" => LibraryElementKind::ProgramDeclaration(ProgramDeclaration { name: id("pou1"), variables: vars, access_variables: vec![], body: FunctionBlockBodyKind::stmts(vec![stmt]) }),
                _ => LibraryElementKind::FunctionDeclaration(FunctionDeclaration { name: id("pou1"), return_type: Type::from("INT"), variables: vars, edge_variables: edges.clone(), body: vec![stmt] }),
            };
            out.push((format!("{}{}", name, if neighbour { "+neighbour" } else { "" }), Library { elements: vec![elem] }));
        }
    }
    out
}

fn run_decl_grid(rep: &mut Report, gates: &Gates) {
    let items = decl_grid_items();
    let off = gates.off_list();
    let n = items.len();
    let out = run_items(&items, 8, |(name, lib), stats| {
        let g = Gates::with_off(off.clone());
        // gated cells are skipped (counted)
        if (name.contains("VAR_IN_OUT") && false) || (name.contains("incomplete-located") && name.contains("wstring") && g.is_off("INCOMPLETE_LOCATED_WSTRING")) {
            stats.class("grid.declaration.gated");
            return Ok(());
        }
        let text = print_canonical(lib, &g);
        stats.case(true, hash_str(&text));
        stats.class("grid.declaration");
        if name.starts_with("program.located.Retain.unnamed.init") {
            let t = text.clone();
            stats.sample(8, || json!({"grid": name, "text": t}));
        }
        compare(lib, &text).map_err(|(kind, detail)| Failure::new("declaration-grid", &kind, format!("{}: {}", name, detail), json!({"grid": name, "text": text})))
    });
    rep.add(out);
    rep.extra.insert("declaration_grid_cells".into(), json!(n));
}

/// text-first census of one cell: Ok(class) or a failure (kind, detail)
pub fn census_cell(cell: &crate::textgrid::Cell, gates: &Gates) -> Result<&'static str, (String, String)> {
    if gates.is_off("PROGRAM_EDGE_INPUTS") && cell.program_edge {
        return Ok("text-grid.gated");
    }
    let fid = FileId::from_string("c01.st");
    let parsed = match crate::panicx::catch(|| parse_program(&cell.text, &fid, &ParseOptions::default())) {
        Ok(r) => r,
        Err((loc, msg)) => return Err(("panic".into(), format!("parse_program panicked at {}: {}", loc, msg))),
    };
    match parsed {
        // whether a legal combination belongs to the *supported* subset is decided by the AST-first
        // grid; here a rejection is only counted
        Err(_) => Ok(if cell.legal { "text-grid.legal.rejected" } else { "text-grid.illegal.rejected" }),
        Ok(lib) => {
            let ids = collect_ids(&lib);
            match crate::textgrid::census(cell, &ids) {
                Ok(()) => Ok(if cell.legal { "text-grid.legal.accepted-complete" } else { "text-grid.illegal.accepted-complete" }),
                Err(e) => {
                    if cell.legal {
                        Err(("declaration-dropped".into(), e))
                    } else {
                        // outside the IEC grammar: leniency of the parser is not judged
                        Ok("text-grid.illegal.accepted-with-drop")
                    }
                }
            }
        }
    }
}

fn run_text_grid(rep: &mut Report, gates: &Gates, ctx: &Ctx) {
    let items = crate::textgrid::cells();
    let off = gates.off_list();
    let n = items.len();
    let rejected = std::sync::Mutex::new(Vec::<String>::new());
    let out = run_items(&items, 8, |cell, stats| {
        let g = Gates::with_off(off.clone());
        stats.case(true, hash_str(&cell.text));
        match census_cell(cell, &g) {
            Ok(class) => {
                stats.class(class);
                if class == "text-grid.legal.rejected" && !cell.name.ends_with("+neighbour") {
                    rejected.lock().unwrap().push(cell.name.clone());
                }
                if cell.name == "PROGRAM/VAR_INPUT RETAIN/inline-enum-init+neighbour" {
                    let t = cell.text.clone();
                    stats.sample(8, || json!({"text_grid": cell.name, "text": t}));
                }
                Ok(())
            }
            Err((kind, detail)) => Err(Failure::new("text-grid", &kind, format!("{}: {}", cell.name, detail), json!({"cell": cell.name, "text": cell.text}))),
        }
    });
    rep.add(out);
    rep.extra.insert("text_grid_cells".into(), json!(n));
    let mut r = rejected.into_inner().unwrap();
    r.sort();
    rep.extra.insert("text_grid_legal_but_rejected".into(), json!(r));
    // random multi-POU units composed from the same productions
    let cases = ctx.tier.pick(30_000, 600_000);
    let out = run_tapes("C01", ctx.seed ^ 0x7e47, ctx.threads, cases, 200, |tape, stats, counting| {
        let g = Gates::with_off(off.clone());
        let cell = crate::textgrid::random_unit(&mut Tape::new(tape));
        if counting {
            stats.case(cell.idents.len() > 3, hash_str(&cell.text));
        }
        match census_cell(&cell, &g) {
            Ok(class) => {
                if counting {
                    stats.class(&class.replace("text-grid", "text-random"));
                }
                Ok(())
            }
            Err((kind, detail)) => Err(Failure::new("text-random", &kind, detail, json!({"text": cell.text}))),
        }
    });
    rep.add(out);
}

fn run_grid(rep: &mut Report, gates: &Gates) {
    let items = grid_items();
    let off = gates.off_list();
    let out = run_items(&items, 8, |(name, lib), stats| {
        let g = Gates::with_off(off.clone());
        let text = print_canonical(lib, &g);
        stats.case(true, hash_str(&text));
        stats.class("grid.expression");
        if name.ends_with("pair(9,11).right") || name.ends_with("pair(10,10).right") {
            let t = text.clone();
            stats.sample(6, || json!({"grid": name, "text": t}));
        }
        compare(lib, &text).map_err(|(kind, detail)| Failure::new("expression-grid", &kind, format!("{}: {}", name, detail), json!({"grid": name, "text": text})))
    });
    rep.add(out);
}

pub fn run(ctx: &Ctx) -> i32 {
    let clock = Clock::start();
    let mut rep = Report::new(
        "C01",
        ctx.tier,
        ctx.seed,
        "exploration",
        "tape -> dsl library in the image of a faithful parser (gen_syntax) -> harness printer (alternative productions from the tape, mild layout) -> parse_program must return the same library (derived ==, plus case-sensitive identifier spellings in visit order). Exhaustive grids: all 225 ordered binary operator pairs x both association shapes, all unary/binary mixes, 225 operator triples x 3 shapes; every POU kind x VAR block class x qualifier x initialiser kind the grammar admits (alone and followed by a neighbour block). Text-first census (for what the AST cannot hold): 3 POU kinds x 14 block headers x 24 declaration forms written as text (exhaustive grid + random multi-POU units); when the combination is derivable from IEC B.1.4.3/B.1.5 and the parser accepts it, every user identifier written must be the span of an Id of the library (nothing dropped). Non-trivial: >= 1 declaration and >= 3 distinct grammar productions exercised; distinct by hash of the program text.",
    );
    let gates = ctx.gates_for("C01");
    run_grid(&mut rep, &gates);
    run_decl_grid(&mut rep, &gates);
    run_text_grid(&mut rep, &gates, ctx);
    rep.exhaustive = Some(false);
    rep.extra.insert("expression_grid_exhaustive".into(), json!(true));
    let cases = ctx.tier.pick(200_000, 3_000_000);
    let off = gates.off_list();
    let out = run_tapes("C01", ctx.seed, ctx.threads, cases, 1500, |tape, stats, counting| {
        let g = Gates::with_off(off.clone());
        check_tape(tape, &g, stats, counting)
    });
    rep.add(out);
    crate::fuzzrun::tape_campaign(ctx, &mut rep, "C01", &gates);
    rep.replay_witnesses(&ctx.findings, &|w| witness(w));
    rep.extra.insert("gates_off".into(), json!(gates.off_list()));
    rep.assumptions = vec![
        "the expected AST follows the dsl's documented representation choices (DESIGN Appendix B)".into(),
        "constructs whose information the dsl types cannot represent (e.g. base type of a structure-initialisation TYPE) are not judged".into(),
    ];
    rep.wall_s = clock.secs();
    rep.finish()
}

/// Witness kinds: {"kind":"parse_debug_contains","text":..,"needle":..} passes when the
/// text parses and the Debug rendering of the library contains the needle;
/// {"kind":"parse_ok","text":..}.
pub fn witness(w: &Value) -> Result<(), String> {
    let text = w["text"].as_str().ok_or("witness without text")?;
    let fid = FileId::from_string("witness.st");
    let r = std::panic::catch_unwind(|| parse_program(text, &fid, &ParseOptions::default()));
    let r = match r {
        Ok(r) => r,
        Err(_) => return Err("panic".into()),
    };
    match w["kind"].as_str().unwrap_or("") {
        "parse_ok" => r.map(|_| ()).map_err(|d| format!("rejected: {}", d.primary.message)),
        "parse_debug_contains" => {
            let lib = r.map_err(|d| format!("rejected: {}", d.primary.message))?;
            let dbg = format!("{:?}", lib);
            let needle = w["needle"].as_str().unwrap_or("");
            if dbg.contains(needle) {
                Ok(())
            } else {
                Err(format!("library does not contain {:?}", needle))
            }
        }
        k => Err(format!("unknown witness kind {}", k)),
    }
}

pub fn replay(ctx: &Ctx, v: &Value) -> i32 {
    let gates = ctx.gates_for("C01");
    let r = match v["check"].as_str().unwrap_or("") {
        "random-program" => {
            let tape: Vec<u8> = v["tape"].as_array().map(|a| a.iter().map(|x| x.as_u64().unwrap_or(0) as u8).collect()).unwrap_or_default();
            let mut s = Stats::default();
            check_tape(&tape, &gates, &mut s, false).map_err(|f| format!("{}: {}", f.kind, f.detail))
        }
        "declaration-grid" => {
            let name = v["inputs"]["grid"].as_str().unwrap_or("");
            match decl_grid_items().into_iter().find(|(n, _)| n == name) {
                Some((_, lib)) => {
                    let text = print_canonical(&lib, &gates);
                    compare(&lib, &text).map_err(|(k, d)| format!("{}: {}", k, d))
                }
                None => Err("grid item not found".into()),
            }
        }
        "expression-grid" => {
            let name = v["inputs"]["grid"].as_str().unwrap_or("");
            match grid_items().into_iter().find(|(n, _)| n == name) {
                Some((_, lib)) => {
                    let text = print_canonical(&lib, &gates);
                    compare(&lib, &text).map_err(|(k, d)| format!("{}: {}", k, d))
                }
                None => Err("grid item not found".into()),
            }
        }
        "text-grid" => {
            let name = v["inputs"]["cell"].as_str().unwrap_or("");
            match crate::textgrid::cells().into_iter().find(|c| c.name == name) {
                Some(c) => census_cell(&c, &gates).map(|_| ()).map_err(|(k, d)| format!("{}: {}", k, d)),
                None => Err("grid cell not found".into()),
            }
        }
        "text-random" => {
            let tape: Vec<u8> = v["tape"].as_array().map(|a| a.iter().map(|x| x.as_u64().unwrap_or(0) as u8).collect()).unwrap_or_default();
            let cell = crate::textgrid::random_unit(&mut Tape::new(&tape));
            census_cell(&cell, &gates).map(|_| ()).map_err(|(k, d)| format!("{}: {}", k, d))
        }
        "witness" => witness(&v["inputs"]),
        c => Err(format!("unknown check {}", c)),
    };
    match r {
        Ok(()) => {
            println!("replay: property holds on this input");
            0
        }
        Err(e) => {
            println!("VIOLATION property=C01 replay={}", ctx.replay_path.clone().unwrap_or_default());
            eprintln!("{}", e);
            1
        }
    }
}

/// one tape through the in-process oracle (used by the coverage-guided `tapes` fuzz target)
pub fn fuzz_one(tape: &[u8], gates: &Gates) -> Result<(), Failure> {
    let mut s = Stats::default();
    check_tape(tape, gates, &mut s, false)?;
    let cell = crate::textgrid::random_unit(&mut Tape::new(tape));
    census_cell(&cell, gates).map(|_| ()).map_err(|(kind, detail)| Failure::new("text-random", &kind, detail, json!({"text": cell.text})))
}

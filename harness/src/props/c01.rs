//! C01 – parsing is faithful.
//!
//! Generator: AST-first.  A tape drives `gen_syntax` to an `ironplc_dsl`
//! library in the image of a faithful parser; the harness' own printer spells it
//! (alternative productions of the same meaning chosen from the tape; mild
//! layout); `parse_program` must return exactly that library (derived equality,
//! plus a case-sensitive comparison of every identifier's spelling).

use crate::astwalk::{collect_ids, debug_diff};
use crate::gates::Gates;
use crate::gen_syntax::Gen;
use crate::lexeme::{layout, Lexeme, SpellOpts};
use crate::printer::Printer;
use crate::report::Report;
use crate::runner::*;
use crate::tape::Tape;
use crate::Ctx;
use ironplc_dsl::common::*;
use ironplc_dsl::core::FileId;
use ironplc_dsl::textual::*;
use ironplc_parser::options::ParseOptions;
use ironplc_parser::parse_program;
use serde_json::{json, Value};

pub struct Case {
    pub lib: Library,
    pub lexemes: Vec<Lexeme>,
    pub text: String,
    pub productions: usize,
}

/// tape -> (expected library, text)
pub fn build(tape: &[u8], gates: &Gates, opts: &SpellOpts, max_elements: usize) -> Case {
    let mut g = Gen::new(gates, Tape::new(tape));
    let lib = g.library(max_elements);
    let rest = g.t.rest();
    let mut p = Printer::new(gates, rest);
    p.library(&lib);
    let mut lt = p.t.rest();
    let lexemes = p.finish();
    let (lay, _) = layout(&lexemes, opts, &mut lt);
    let productions = gates.take_hits_peek();
    Case { lib, lexemes, text: lay.text, productions }
}

pub fn compare(expected: &Library, text: &str) -> Result<(), (String, String)> {
    let fid = FileId::from_string("c01.st");
    let parsed = match crate::panicx::catch(|| parse_program(text, &fid, &ParseOptions::default())) {
        Ok(r) => r,
        Err((loc, msg)) => return Err(("panic".into(), format!("parse_program panicked at {}: {}", loc, msg))),
    };
    match parsed {
        Err(d) => Err((
            "rejected".into(),
            format!("parse_program rejected a well-formed program: {} {} at {}..{}", d.code, d.primary.message, d.primary.location.start, d.primary.location.end),
        )),
        Ok(actual) => {
            if &actual != expected {
                if actual.elements.len() != expected.elements.len() {
                    return Err((
                        "element-count".into(),
                        format!("library has {} elements, expected {}\n{}", actual.elements.len(), expected.elements.len(), debug_diff(expected, &actual)),
                    ));
                }
                return Err(("ast-mismatch".into(), debug_diff(expected, &actual)));
            }
            let ei: Vec<String> = collect_ids(expected).into_iter().map(|x| x.0).collect();
            let ai: Vec<String> = collect_ids(&actual).into_iter().map(|x| x.0).collect();
            if ei != ai {
                let k = ei.iter().zip(ai.iter()).position(|(a, b)| a != b).unwrap_or(ei.len().min(ai.len()));
                return Err((
                    "identifier-spelling".into(),
                    format!("identifier #{} differs: expected {:?} got {:?}", k, ei.get(k), ai.get(k)),
                ));
            }
            Ok(())
        }
    }
}

fn check_tape(tape: &[u8], gates: &Gates, stats: &mut Stats, counting: bool) -> Result<(), Failure> {
    let case = build(tape, gates, &SpellOpts::mild(), 4);
    if counting {
        let nontrivial = !case.lib.elements.is_empty() && case.productions >= 3;
        stats.case(nontrivial, hash_str(&case.text));
        stats.absorb_gates(gates);
        for e in &case.lib.elements {
            stats.class(match e {
                LibraryElementKind::DataTypeDeclaration(_) => "decl.type",
                LibraryElementKind::FunctionDeclaration(_) => "decl.function",
                LibraryElementKind::FunctionBlockDeclaration(_) => "decl.function_block",
                LibraryElementKind::ProgramDeclaration(_) => "decl.program",
                LibraryElementKind::ConfigurationDeclaration(_) => "decl.configuration",
            });
        }
        let text = case.text.clone();
        stats.sample(4, || json!(text));
    } else {
        gates.take_hits();
        gates.take_wanted();
    }
    match compare(&case.lib, &case.text) {
        Ok(()) => Ok(()),
        Err((kind, detail)) => Err(Failure::new("random-program", &kind, detail, json!({"text": case.text}))),
    }
}

// ------------------------------------------------------- expression grid
const OPS: usize = 15;

fn lb(n: &str) -> ExprKind {
    ExprKind::late_bound(n)
}

fn wrap_program(e: ExprKind) -> Library {
    Library {
        elements: vec![LibraryElementKind::FunctionBlockDeclaration(FunctionBlockDeclaration {
            name: crate::gen_syntax::id("fb"),
            variables: vec![],
            edge_variables: vec![],
            body: FunctionBlockBodyKind::stmts(vec![StmtKind::assignment(Variable::named("r"), e)]),
            span: Default::default(),
        })],
    }
}

fn print_canonical(lib: &Library, gates: &Gates) -> String {
    let mut p = Printer::new(gates, Tape::empty());
    p.library(lib);
    let lex = p.finish();
    let (lay, _) = layout(&lex, &SpellOpts::canonical(), &mut Tape::empty());
    gates.take_hits();
    lay.text
}

/// all ordered operator pairs × both association shapes, all unary/binary mixes
fn grid_items() -> Vec<(String, Library)> {
    let gates = Gates::all_on();
    let g = Gen::new(&gates, Tape::empty());
    let mut g = g;
    let mut v = vec![];
    for a in 0..OPS {
        for b in 0..OPS {
            let left = {
                let inner = g.binop(a, lb("x"), lb("y"));
                g.binop(b, inner, lb("z"))
            };
            let right = {
                let inner = g.binop(b, lb("y"), lb("z"));
                g.binop(a, lb("x"), inner)
            };
            v.push((format!("pair({},{}).left", a, b), wrap_program(left)));
            v.push((format!("pair({},{}).right", a, b), wrap_program(right)));
        }
        for (un, u) in [(UnaryOp::Neg, "neg"), (UnaryOp::Not, "not")] {
            // -x op y ; -(x op y) ; x op -y
            let e1 = g.binop(a, ExprKind::unary(un.clone(), lb("x")), lb("y"));
            let e2 = ExprKind::unary(un.clone(), g.binop(a, lb("x"), lb("y")));
            let e3 = g.binop(a, lb("x"), ExprKind::unary(un.clone(), lb("y")));
            v.push((format!("unary({},{}).operand-left", u, a), wrap_program(e1)));
            v.push((format!("unary({},{}).whole", u, a), wrap_program(e2)));
            v.push((format!("unary({},{}).operand-right", u, a), wrap_program(e3)));
        }
    }
    // triples: all shapes for a sample of operator triples (every operator in every position)
    for a in 0..OPS {
        for k in 0..OPS {
            let b = (a * 7 + k * 3 + 1) % OPS;
            let c = (a + k * 5 + 2) % OPS;
            // ((x a y) b z) c w ; x a (y b (z c w)) ; (x a y) b (z c w)
            let s1 = {
                let i1 = g.binop(a, lb("x"), lb("y"));
                let i2 = g.binop(b, i1, lb("z"));
                g.binop(c, i2, lb("w"))
            };
            let s2 = {
                let i1 = g.binop(c, lb("z"), lb("w"));
                let i2 = g.binop(b, lb("y"), i1);
                g.binop(a, lb("x"), i2)
            };
            let s3 = {
                let i1 = g.binop(a, lb("x"), lb("y"));
                let i2 = g.binop(c, lb("z"), lb("w"));
                g.binop(b, i1, i2)
            };
            v.push((format!("triple({},{},{}).l", a, b, c), wrap_program(s1)));
            v.push((format!("triple({},{},{}).r", a, b, c), wrap_program(s2)));
            v.push((format!("triple({},{},{}).m", a, b, c), wrap_program(s3)));
        }
    }
    v
}

fn run_grid(rep: &mut Report, gates: &Gates) {
    let items = grid_items();
    let off = gates.off_list();
    let out = run_items(&items, 8, |(name, lib), stats| {
        let g = Gates::with_off(off.clone());
        let text = print_canonical(lib, &g);
        stats.case(true, hash_str(&text));
        stats.class("grid.expression");
        if name.ends_with("pair(9,11).right") || name.ends_with("pair(10,10).right") {
            let t = text.clone();
            stats.sample(6, || json!({"grid": name, "text": t}));
        }
        compare(lib, &text).map_err(|(kind, detail)| Failure::new("expression-grid", &kind, format!("{}: {}", name, detail), json!({"grid": name, "text": text})))
    });
    rep.add(out);
}

pub fn run(ctx: &Ctx) -> i32 {
    let clock = Clock::start();
    let mut rep = Report::new(
        "C01",
        ctx.tier,
        ctx.seed,
        "exploration",
        "tape -> dsl library in the image of a faithful parser (gen_syntax) -> harness printer (alternative productions from the tape, mild layout) -> parse_program must return the same library (derived ==, plus case-sensitive identifier spellings in visit order). Exhaustive grid: all 225 ordered binary operator pairs x both association shapes, all unary/binary mixes, 225 operator triples x 3 shapes. Non-trivial: >= 1 declaration and >= 3 distinct grammar productions exercised; distinct by hash of the program text.",
    );
    let gates = ctx.gates_for("C01");
    run_grid(&mut rep, &gates);
    rep.exhaustive = Some(false);
    rep.extra.insert("expression_grid_exhaustive".into(), json!(true));
    let cases = ctx.tier.pick(200_000, 3_000_000);
    let off = gates.off_list();
    let out = run_tapes("C01", ctx.seed, ctx.threads, cases, 1500, |tape, stats, counting| {
        let g = Gates::with_off(off.clone());
        check_tape(tape, &g, stats, counting)
    });
    rep.add(out);
    rep.replay_witnesses(&ctx.findings, &|w| witness(w));
    rep.extra.insert("gates_off".into(), json!(gates.off_list()));
    rep.assumptions = vec![
        "the expected AST follows the dsl's documented representation choices (DESIGN Appendix B)".into(),
        "constructs whose information the dsl types cannot represent (e.g. base type of a structure-initialisation TYPE) are not judged".into(),
    ];
    rep.wall_s = clock.secs();
    rep.finish()
}

/// Witness kinds: {"kind":"parse_debug_contains","text":..,"needle":..} passes when the
/// text parses and the Debug rendering of the library contains the needle;
/// {"kind":"parse_ok","text":..}.
pub fn witness(w: &Value) -> Result<(), String> {
    let text = w["text"].as_str().ok_or("witness without text")?;
    let fid = FileId::from_string("witness.st");
    let r = std::panic::catch_unwind(|| parse_program(text, &fid, &ParseOptions::default()));
    let r = match r {
        Ok(r) => r,
        Err(_) => return Err("panic".into()),
    };
    match w["kind"].as_str().unwrap_or("") {
        "parse_ok" => r.map(|_| ()).map_err(|d| format!("rejected: {}", d.primary.message)),
        "parse_debug_contains" => {
            let lib = r.map_err(|d| format!("rejected: {}", d.primary.message))?;
            let dbg = format!("{:?}", lib);
            let needle = w["needle"].as_str().unwrap_or("");
            if dbg.contains(needle) {
                Ok(())
            } else {
                Err(format!("library does not contain {:?}", needle))
            }
        }
        k => Err(format!("unknown witness kind {}", k)),
    }
}

pub fn replay(ctx: &Ctx, v: &Value) -> i32 {
    let gates = ctx.gates_for("C01");
    let r = match v["check"].as_str().unwrap_or("") {
        "random-program" => {
            let tape: Vec<u8> = v["tape"].as_array().map(|a| a.iter().map(|x| x.as_u64().unwrap_or(0) as u8).collect()).unwrap_or_default();
            let mut s = Stats::default();
            check_tape(&tape, &gates, &mut s, false).map_err(|f| format!("{}: {}", f.kind, f.detail))
        }
        "expression-grid" => {
            let name = v["inputs"]["grid"].as_str().unwrap_or("");
            match grid_items().into_iter().find(|(n, _)| n == name) {
                Some((_, lib)) => {
                    let text = print_canonical(&lib, &gates);
                    compare(&lib, &text).map_err(|(k, d)| format!("{}: {}", k, d))
                }
                None => Err("grid item not found".into()),
            }
        }
        "witness" => witness(&v["inputs"]),
        c => Err(format!("unknown check {}", c)),
    };
    match r {
        Ok(()) => {
            println!("replay: property holds on this input");
            0
        }
        Err(e) => {
            println!("VIOLATION property=C01 replay={}", ctx.replay_path.clone().unwrap_or_default());
            eprintln!("{}", e);
            1
        }
    }
}

//! C07 – recursion is rejected exactly when the declaration graph has a cycle.
//!
//! Directed graphs (self-loops included) are realised once as function-block
//! instance graphs and once as type alias / structure graphs; a reference cycle
//! test decides what `analyze` must answer.

use crate::props::c02::{analyze_text, codes_of, Verdict};
use crate::report::Report;
use crate::runner::*;
use crate::tape::{mix, Tape};
use crate::Ctx;
use serde_json::{json, Value};

#[derive(Clone, Debug)]
pub struct Graph {
    pub n: usize,
    /// adj[i][j] = edge i -> j
    pub adj: Vec<Vec<bool>>,
}

impl Graph {
    pub fn from_bits(n: usize, bits: u64) -> Graph {
        let mut adj = vec![vec![false; n]; n];
        for i in 0..n {
            for j in 0..n {
                adj[i][j] = bits >> (i * n + j) & 1 == 1;
            }
        }
        Graph { n, adj }
    }
    pub fn edges(&self) -> usize {
        self.adj.iter().map(|r| r.iter().filter(|x| **x).count()).sum()
    }
    /// reference: DFS colouring
    pub fn cyclic(&self) -> bool {
        fn dfs(g: &Graph, v: usize, colour: &mut Vec<u8>) -> bool {
            colour[v] = 1;
            for w in 0..g.n {
                if g.adj[v][w] {
                    if colour[w] == 1 {
                        return true;
                    }
                    if colour[w] == 0 && dfs(g, w, colour) {
                        return true;
                    }
                }
            }
            colour[v] = 2;
            false
        }
        let mut colour = vec![0u8; self.n];
        for v in 0..self.n {
            if colour[v] == 0 && dfs(self, v, &mut colour) {
                return true;
            }
        }
        false
    }
    /// cross-check: transitive closure has a node reaching itself
    pub fn cyclic_closure(&self) -> bool {
        let n = self.n;
        let mut r = self.adj.clone();
        for k in 0..n {
            for i in 0..n {
                for j in 0..n {
                    if r[i][k] && r[k][j] {
                        r[i][j] = true;
                    }
                }
            }
        }
        (0..n).any(|i| r[i][i])
    }
    pub fn reconvergent(&self) -> bool {
        // some node has two distinct predecessors
        (0..self.n).any(|j| (0..self.n).filter(|&i| self.adj[i][j]).count() >= 2)
    }
    /// the order in which the declarations are written: a quarter top-down (every reference points
    /// forward - the order in which a walk that follows references gets deepest), a quarter
    /// bottom-up, the rest shuffled
    fn order(&self, salt: u64) -> Vec<usize> {
        let mut v: Vec<usize> = (0..self.n).collect();
        match mix(salt ^ 0x0bde) % 4 {
            0 => return v,
            1 => {
                v.reverse();
                return v;
            }
            _ => {}
        }
        let mut z = salt;
        for i in (1..v.len()).rev() {
            z = mix(z);
            v.swap(i, (z % (i as u64 + 1)) as usize);
        }
        v
    }
    pub fn describe(&self) -> String {
        let mut e = vec![];
        for i in 0..self.n {
            for j in 0..self.n {
                if self.adj[i][j] {
                    e.push(format!("{}->{}", i, j));
                }
            }
        }
        format!("n={} [{}]", self.n, e.join(" "))
    }
}

/// a reference to a declared name in another letter case than its declaration (identifiers are
/// case-insensitive): lower, UPPER or Capitalised, chosen from the hash
fn recase(name: &str, z: u64) -> String {
    match mix(z ^ 0xca5e) % 3 {
        0 => name.to_string(),
        1 => name.to_ascii_uppercase(),
        _ => {
            let mut c = name.chars();
            match c.next() {
                Some(f) => f.to_ascii_uppercase().to_string() + c.as_str(),
                None => String::new(),
            }
        }
    }
}

/// a variable / element that is no edge of the graph, written before an edge declaration: plain,
/// initialised, of an enumeration, array or string type, or of a structure type with a structure
/// initialiser (the visitor must keep its place in the enclosing declaration across all of them)
fn decoration(z: u64, tag: &str, in_struct: bool) -> Option<String> {
    match mix(z ^ 0xdec0) % 9 {
        0 => Some(format!("dc{} : INT;\n", tag)),
        1 => Some(format!("dc{} : INT := 3;\n", tag)),
        2 => Some(format!("dc{} : c7_cfg := (c7_lim := 10);\n", tag)),
        3 => Some(format!("dc{} : c7_en := c7_a;\n", tag)),
        4 => Some(format!("dc{} : ARRAY[1..2] OF INT;\n", tag)),
        // (a structure element cannot be a string with a length in this parser)
        5 if !in_struct => Some(format!("dc{} : STRING[5];\n", tag)),
        _ => None,
    }
}
/// declarations that take no part in the graph (every kind of TYPE declaration - also the
/// "structure initialisation" form -, a function, a program, a configuration): a sort that mislays
/// a declaration kind must not turn it into a cycle
fn bystanders(z: u64) -> String {
    const EXTRA: &[&str] = &[
        "TYPE\nc7x_pt : STRUCT\nc7x_a : INT;\nEND_STRUCT;\nEND_TYPE\nTYPE\nc7x_pt2 : c7x_pt := (c7x_a := 1);\nEND_TYPE\n",
        "TYPE\nc7x_str : STRING[5] := 'ab';\nEND_TYPE\n",
        "TYPE\nc7x_sub : INT(1..5) := 2;\nEND_TYPE\n",
        "TYPE\nc7x_arr : ARRAY[1..2] OF INT := [1, 2];\nEND_TYPE\n",
        // (a simple TYPE with an initial value, `x : INT := 5`, is answered with P9999 by the pinned tree
        // before the recursion check runs: not used)
        "TYPE\nc7x_en2 : (c7x_v1, c7x_v2) := c7x_v1;\nEND_TYPE\nTYPE\nc7x_al : c7x_en2;\nEND_TYPE\n",
        "FUNCTION c7x_f : INT\nVAR_INPUT\nc7x_i : INT;\nEND_VAR\nc7x_f := c7x_i;\nEND_FUNCTION\n",
        "PROGRAM c7x_p\nVAR\nc7x_y : INT;\nEND_VAR\nc7x_y := c7x_f(1);\nEND_PROGRAM\nFUNCTION c7x_f : INT\nVAR_INPUT\nc7x_i : INT;\nEND_VAR\nc7x_f := c7x_i;\nEND_FUNCTION\n",
        "PROGRAM c7x_q\nVAR\nc7x_y : INT;\nEND_VAR\nc7x_y := 1;\nEND_PROGRAM\nCONFIGURATION c7x_c\nRESOURCE c7x_r ON c7x_cpu\nTASK c7x_t(INTERVAL := T#10ms, PRIORITY := 1);\nPROGRAM c7x_i WITH c7x_t : c7x_q;\nEND_RESOURCE\nEND_CONFIGURATION\n",
    ];
    let mut out = String::new();
    if mix(z ^ 0xb757) % 3 != 0 {
        return out;
    }
    let pick = mix(z ^ 0x1234);
    let mut used_f = false;
    for (k, e) in EXTRA.iter().enumerate() {
        if pick >> k & 1 == 1 {
            // the function is declared by two of the entries: only once
            if e.contains("FUNCTION c7x_f") {
                if used_f {
                    continue;
                }
                used_f = true;
            }
            out.push_str(e);
        }
    }
    out
}

const DECORATION_TYPES: &str = "TYPE\nc7_cfg : STRUCT\nc7_lim : INT;\nEND_STRUCT;\nEND_TYPE\nTYPE\nc7_en : (c7_a, c7_b);\nEND_TYPE\n";

/// node = FUNCTION_BLOCK, edge = an instance variable of the target type
pub fn realise_fb(g: &Graph, salt: u64, arrays: bool) -> (String, Vec<(usize, usize)>) {
    let mut soft = vec![];
    let mut decorated = false;
    let mut s = String::new();
    let mut z = salt;
    // a third of the realisations also have bodies that invoke the instances, and name some of the
    // instances (and plain variables) like declarations of the unit - the block itself, one that
    // contains it, any other: a variable's *name* is no reference to a declaration
    let with_bodies = mix(salt ^ 0xb0d1) % 3 == 0;
    for &i in g.order(salt).iter() {
        s.push_str(&format!("FUNCTION_BLOCK fb{}\n", i));
        let mut any = false;
        let mut taken: Vec<String> = vec![];
        let mut calls: Vec<String> = vec![];
        let name_for = |default: String, z: u64, taken: &mut Vec<String>| -> String {
            if with_bodies && mix(z ^ 0x9a3e) % 3 == 0 {
                let k = (mix(z ^ 0x51) % g.n as u64) as usize;
                let n = format!("fb{}", k);
                if !taken.contains(&n) {
                    taken.push(n.clone());
                    return recase(&n, z);
                }
            }
            default
        };
        for j in 0..g.n {
            if g.adj[i][j] {
                z = mix(z);
                let kw = ["VAR", "VAR_INPUT", "VAR_OUTPUT"][(z % 3) as usize];
                if let Some(d) = decoration(z ^ (i * 131 + j) as u64, &format!("{}_{}", i, j), false) {
                    s.push_str(&format!("VAR\n{}END_VAR\n", d));
                    decorated = true;
                }
                if arrays && (z >> 8) % 4 == 0 {
                    // an array of instances (whether that "contains an instance" is not settled: soft edge)
                    soft.push((i, j));
                    s.push_str(&format!("{}\ninst{}_{} : ARRAY[1..2] OF {};\nEND_VAR\n", kw, i, j, recase(&format!("fb{}", j), z ^ (i * 31 + j) as u64)));
                } else {
                    let name = name_for(format!("inst{}_{}", i, j), z, &mut taken);
                    s.push_str(&format!("{}\n{} : {};\nEND_VAR\n", kw, name, recase(&format!("fb{}", j), z ^ (i * 31 + j) as u64)));
                    calls.push(name);
                }
                // the same edge a second time (two instances of one type): a wide graph, no new cycle
                if mix(z ^ 0x2e) % 4 == 0 {
                    s.push_str(&format!("VAR\ninst{}_{}b, inst{}_{}c : fb{};\nEND_VAR\n", i, j, i, j, j));
                    calls.push(format!("inst{}_{}c", i, j));
                }
                any = true;
            }
        }
        if !any {
            let name = name_for(format!("leaf{}", i), mix(z ^ i as u64), &mut taken);
            s.push_str(&format!("VAR\n{} : INT;\nEND_VAR\n", name));
        }
        // now and then a VAR_EXTERNAL of a function block type - the block itself (a peer instance),
        // one that contains it, any other: an external variable refers to a global instance, it
        // contains nothing, so it is no edge
        if mix(salt ^ (i as u64 * 2713) ^ 0xe7) % 5 == 0 {
            let j = (mix(salt ^ (i as u64 * 389) ^ 0xe8) % g.n as u64) as usize;
            s.push_str(&format!("VAR_EXTERNAL\next{}_{} : {};\nEND_VAR\n", i, j, recase(&format!("fb{}", j), salt ^ (i * 17 + j) as u64)));
        }
        if with_bodies {
            for (k, c) in calls.iter().enumerate() {
                if mix(z ^ (k as u64 * 977 + i as u64)) % 4 != 0 {
                    s.push_str(&format!("{}();\n", recase(c, z ^ k as u64)));
                }
            }
        }
        s.push_str("END_FUNCTION_BLOCK\n");
    }
    if decorated {
        s.push_str(DECORATION_TYPES);
    }
    // a sixth of the (small) graphs name their blocks like the standard function blocks: a user may
    // declare FUNCTION_BLOCK TON, and what is declared in the unit is a node of the graph whatever
    // it is called (other rules may object to the name; "recursive" is decided by the edges)
    if g.n <= 10 && mix(salt ^ 0x57d) % 6 == 0 {
        s = rename_standard(&s, g.n);
    }
    (s, soft)
}

pub const STANDARD_NAMES: [&str; 10] = ["ton", "tof", "tp", "sr", "rs", "r_trig", "f_trig", "ctu", "ctd", "ctud"];

/// every whole word fbK / FBK / FbK (K < n) becomes the K-th standard function block name in the
/// same letter-case style
fn rename_standard(text: &str, n: usize) -> String {
    let b: Vec<char> = text.chars().collect();
    let mut out = String::new();
    let mut i = 0;
    while i < b.len() {
        let word_start = i == 0 || !(b[i - 1].is_ascii_alphanumeric() || b[i - 1] == '_');
        if word_start && i + 2 < b.len() && b[i].eq_ignore_ascii_case(&'f') && b[i + 1].eq_ignore_ascii_case(&'b') && b[i + 2].is_ascii_digit() {
            let mut j = i + 2;
            while j < b.len() && b[j].is_ascii_digit() {
                j += 1;
            }
            let word_end = j == b.len() || !(b[j].is_ascii_alphanumeric() || b[j] == '_');
            let k: usize = b[i + 2..j].iter().collect::<String>().parse().unwrap_or(usize::MAX);
            if word_end && k < n && k < STANDARD_NAMES.len() {
                let name = STANDARD_NAMES[k];
                let styled = if b[i].is_ascii_uppercase() && b[i + 1].is_ascii_uppercase() {
                    name.to_ascii_uppercase()
                } else if b[i].is_ascii_uppercase() {
                    let mut c = name.chars();
                    c.next().map(|f| f.to_ascii_uppercase().to_string() + c.as_str()).unwrap_or_default()
                } else {
                    name.to_string()
                };
                out.push_str(&styled);
                i = j;
                continue;
            }
        }
        out.push(b[i]);
        i += 1;
    }
    out
}

/// node = data type: leaf = enumeration, out-degree 1 = alias (when the target resolves to an
/// enumeration) or one-element structure, out-degree >= 2 = structure with one element per edge
pub fn realise_type(g: &Graph, salt: u64, arrays: bool) -> (String, Vec<(usize, usize)>) {
    let mut soft = vec![];
    let mut decorated = false;
    // which nodes resolve to an enumeration through alias chains (only meaningful for acyclic parts)
    let outdeg: Vec<usize> = (0..g.n).map(|i| g.adj[i].iter().filter(|x| **x).count()).collect();
    let mut z = salt;
    let mut alias = vec![false; g.n];
    for i in 0..g.n {
        if outdeg[i] == 1 {
            z = mix(z);
            alias[i] = z % 2 == 0;
        }
    }
    // an alias must (for acyclic graphs) end in a leaf enumeration; otherwise use a structure
    let is_enum_like = |start: usize, alias: &Vec<bool>| -> bool {
        let mut cur = start;
        for _ in 0..=g.n {
            if outdeg[cur] == 0 {
                return true;
            }
            if outdeg[cur] == 1 && alias[cur] {
                cur = (0..g.n).find(|&j| g.adj[cur][j]).unwrap();
            } else {
                return false;
            }
        }
        // alias cycle: keep the aliases (the cycle is what is being tested)
        true
    };
    let snapshot = alias.clone();
    for i in 0..g.n {
        if alias[i] {
            let tgt = (0..g.n).find(|&j| g.adj[i][j]).unwrap();
            if !is_enum_like(tgt, &snapshot) {
                alias[i] = false;
            }
        }
    }
    let mut s = String::new();
    for &i in g.order(salt ^ 0x55).iter() {
        s.push_str("TYPE\n");
        if outdeg[i] == 0 {
            // (a third of the enumerations with a default value)
            // (a value may be written with the type in front of it - the declaration's own name:
            // a name used inside its own declaration is no reference to another declaration)
            let q = |z: u64| if mix(salt ^ (i as u64 * 4409) ^ z) % 3 == 0 { format!("{}#", recase(&format!("t{}", i), salt ^ z)) } else { String::new() };
            let dflt = if mix(salt ^ (i as u64 * 911)) % 3 == 0 { format!(" := {}v{}a", q(1), i) } else { String::new() };
            let (qa, qb) = if mix(salt ^ (i as u64 * 6113)) % 4 == 0 { (q(2), q(3)) } else { (String::new(), String::new()) };
            s.push_str(&format!("t{} : ({}v{}a, {}v{}b){};\n", i, qa, i, qb, i, dflt));
        } else if outdeg[i] == 1 && alias[i] {
            let j = (0..g.n).find(|&j| g.adj[i][j]).unwrap();
            // half of the aliases of enumerations carry an initial value (`t1 : t2 := v;` is an
            // enumeration declaration from the start, `t1 : t2;` is resolved late): a value of the
            // enumeration at the end of the alias chain - of t0 when the chain is a cycle
            let dflt = if mix(salt ^ (i as u64 * 523)) % 2 == 0 {
                let mut cur = j;
                let mut root = None;
                for _ in 0..=g.n {
                    if outdeg[cur] == 0 {
                        root = Some(cur);
                        break;
                    }
                    match (0..g.n).find(|&k| g.adj[cur][k]) {
                        Some(k) if outdeg[cur] == 1 => cur = k,
                        _ => break,
                    }
                }
                // (plain, or with a type in front: the alias itself, or the enumeration at the end)
                match (mix(salt ^ (i as u64 * 7019)) % 4, root) {
                    (0, _) => format!(" := {}#v{}a", recase(&format!("t{}", i), salt ^ 5), root.unwrap_or(0)),
                    (1, Some(r)) => format!(" := {}#v{}a", recase(&format!("t{}", r), salt ^ 6), r),
                    _ => format!(" := v{}a", root.unwrap_or(0)),
                }
            } else {
                String::new()
            };
            s.push_str(&format!("t{} : {}{};\n", i, recase(&format!("t{}", j), salt ^ (i * 31 + j) as u64), dflt));
        } else if outdeg[i] == 1 && mix(salt ^ (i as u64 * 389)) % 3 == 0 {
            // an alias of a type that is no enumeration (a structure, an array, another such alias);
            // half of them written with an initial value all the same (`t1 : t2 := v;` is an
            // enumeration declaration for the parser whatever t2 turns out to be - ill-typed when t2
            // is a structure, but a cycle through it is a cycle)
            let j = (0..g.n).find(|&j| g.adj[i][j]).unwrap();
            let dflt = if mix(salt ^ (i as u64 * 271)) % 2 == 0 { " := v0a" } else { "" };
            s.push_str(&format!("t{} : {}{};\n", i, recase(&format!("t{}", j), salt ^ (i * 31 + j) as u64), dflt));
        } else if outdeg[i] == 1 && arrays && mix(salt ^ (i as u64 * 77)) % 4 == 0 {
            // an array type whose elements are of the target type
            let j = (0..g.n).find(|&j| g.adj[i][j]).unwrap();
            soft.push((i, j));
            s.push_str(&format!("t{} : ARRAY[1..2] OF {};\n", i, recase(&format!("t{}", j), salt ^ (i * 31 + j) as u64)));
        } else {
            s.push_str(&format!("t{} : STRUCT\n", i));
            for j in 0..g.n {
                if g.adj[i][j] {
                    if let Some(d) = decoration(salt ^ ((i * 16 + j) as u64 * 733), &format!("{}_{}", i, j), true) {
                        s.push_str(&d);
                        decorated = true;
                    }
                    if arrays && mix(salt ^ ((i * 16 + j) as u64 * 131)) % 4 == 0 {
                        soft.push((i, j));
                        s.push_str(&format!("e{}_{} : ARRAY[0..1] OF {};\n", i, j, recase(&format!("t{}", j), salt ^ (i * 31 + j) as u64)));
                    } else {
                        s.push_str(&format!("e{}_{} : {};\n", i, j, recase(&format!("t{}", j), salt ^ (i * 31 + j) as u64)));
                    }
                    if mix(salt ^ ((i * 16 + j) as u64 * 59)) % 4 == 0 {
                        s.push_str(&format!("e{}_{}b : t{};\n", i, j, j));
                    }
                }
            }
            s.push_str("END_STRUCT;\n");
        }
        s.push_str("END_TYPE\n");
    }
    if decorated {
        s.push_str(DECORATION_TYPES);
    }
    (s, soft)
}

/// mixed realisation: every node is a FUNCTION_BLOCK or a STRUCT (kind from the salt, at least one
/// of each when n >= 2); an edge is an instance variable / a structure element of the target type.
/// "A function block transitively contains an instance of itself" also when the path runs through
/// structures.
pub fn realise_mixed(g: &Graph, salt: u64, arrays: bool) -> Option<(String, Vec<(usize, usize)>)> {
    let mut soft = vec![];
    let mut decorated = false;
    if g.n < 2 {
        return None;
    }
    let mut z = mix(salt ^ 0x3d);
    let mut is_fb: Vec<bool> = (0..g.n)
        .map(|_| {
            z = mix(z);
            z % 2 == 0
        })
        .collect();
    if is_fb.iter().all(|x| *x) {
        is_fb[(z % g.n as u64) as usize] = false;
    }
    if is_fb.iter().all(|x| !*x) {
        is_fb[(z % g.n as u64) as usize] = true;
    }
    let name = |j: usize| if is_fb[j] { format!("fb{}", j) } else { format!("ts{}", j) };
    let mut s = String::new();
    for &i in g.order(salt ^ 0x99).iter() {
        if is_fb[i] {
            s.push_str(&format!("FUNCTION_BLOCK fb{}\nVAR\n", i));
            let mut any = false;
            for j in 0..g.n {
                if g.adj[i][j] {
                    if let Some(d) = decoration(salt ^ ((i * 16 + j) as u64 * 419), &format!("{}_{}", i, j), false) {
                        s.push_str(&d);
                        decorated = true;
                    }
                    if arrays && mix(salt ^ ((i * 16 + j) as u64 * 977)) % 4 == 0 {
                        soft.push((i, j));
                        s.push_str(&format!("inst{}_{} : ARRAY[1..2] OF {};\n", i, j, recase(&name(j), salt ^ (i * 31 + j) as u64)));
                    } else {
                        s.push_str(&format!("inst{}_{} : {};\n", i, j, recase(&name(j), salt ^ (i * 31 + j) as u64)));
                    }
                    if mix(salt ^ ((i * 16 + j) as u64 * 61)) % 4 == 0 {
                        s.push_str(&format!("inst{}_{}b : {};\n", i, j, name(j)));
                    }
                    any = true;
                }
            }
            if !any {
                s.push_str(&format!("leaf{} : INT;\n", i));
            }
            s.push_str("END_VAR\nEND_FUNCTION_BLOCK\n");
        } else {
            s.push_str(&format!("TYPE\nts{} : STRUCT\n", i));
            let mut any = false;
            for j in 0..g.n {
                if g.adj[i][j] {
                    if let Some(d) = decoration(salt ^ ((i * 16 + j) as u64 * 521), &format!("{}_{}", i, j), true) {
                        s.push_str(&d);
                        decorated = true;
                    }
                    if arrays && mix(salt ^ ((i * 16 + j) as u64 * 613)) % 4 == 0 {
                        soft.push((i, j));
                        s.push_str(&format!("e{}_{} : ARRAY[0..1] OF {};\n", i, j, recase(&name(j), salt ^ (i * 31 + j) as u64)));
                    } else {
                        s.push_str(&format!("e{}_{} : {};\n", i, j, recase(&name(j), salt ^ (i * 31 + j) as u64)));
                    }
                    if mix(salt ^ ((i * 16 + j) as u64 * 67)) % 4 == 0 {
                        s.push_str(&format!("e{}_{}b : {};\n", i, j, name(j)));
                    }
                    any = true;
                }
            }
            if !any {
                s.push_str(&format!("leaf{} : INT;\n", i));
            }
            s.push_str("END_STRUCT;\nEND_TYPE\n");
        }
    }
    if decorated {
        s.push_str(DECORATION_TYPES);
    }
    Some((s, soft))
}

pub fn judge(text: &str, cyclic: bool) -> Result<bool, (String, String)> {
    let (v, _) = analyze_text(text, "c07.st");
    let codes = match v {
        Verdict::Ok => vec![],
        Verdict::Err(ds) => codes_of(&ds),
        Verdict::ParseErr(e) => return Err(("generator-health".into(), format!("graph program does not parse: {}", e))),
        Verdict::Panic(e) => return Err(("panic".into(), e)),
    };
    let recursive = codes.iter().any(|c| c == "P0010" || c == "P0013");
    if cyclic && !recursive {
        return Err(("cycle-accepted".into(), format!("the declaration graph has a cycle but no recursion code was reported (codes {:?})", codes)));
    }
    if !cyclic && recursive {
        return Err(("acyclic-rejected".into(), format!("the declaration graph is acyclic but was reported as recursive (codes {:?})", codes)));
    }
    // health: an acyclic unit should analyse Ok
    Ok(cyclic || codes.is_empty())
}

/// the same unit given to the analyzer as two or three sources (the declarations dealt out by
/// `salt`): "a compilation unit is rejected as recursive exactly when ..." - a cycle is a cycle
/// wherever the files are cut.  Returns None when the text has fewer than two declarations.
pub fn judge_split(text: &str, cyclic: bool, salt: u64) -> Option<Result<bool, (String, String)>> {
    let mut chunks: Vec<String> = vec![];
    let mut cur = String::new();
    for line in text.split_inclusive('\n') {
        cur.push_str(line);
        let l = line.trim_end().to_ascii_uppercase();
        if l == "END_FUNCTION_BLOCK" || l == "END_TYPE" || l == "END_FUNCTION" || l == "END_PROGRAM" || l == "END_CONFIGURATION" {
            chunks.push(std::mem::take(&mut cur));
        }
    }
    if !cur.trim().is_empty() {
        chunks.push(cur);
    }
    if chunks.len() < 2 {
        return None;
    }
    let nfiles = 2 + (salt % 2) as usize;
    let mut files: Vec<String> = vec![String::new(); nfiles];
    for (k, c) in chunks.iter().enumerate() {
        let f = (crate::tape::mix(salt ^ (k as u64).wrapping_mul(0x9E37)) % nfiles as u64) as usize;
        files[f].push_str(c);
    }
    let files: Vec<String> = files.into_iter().filter(|f| !f.trim().is_empty()).collect();
    if files.len() < 2 {
        return None;
    }
    let mut libs = vec![];
    for (i, f) in files.iter().enumerate() {
        match crate::panicx::catch(|| ironplc_parser::parse_program(f, &ironplc_dsl::core::FileId::from_string(&format!("c07_{}.st", i)), &ironplc_parser::options::ParseOptions::default())) {
            Ok(Ok(l)) => libs.push(l),
            Ok(Err(e)) => return Some(Err(("generator-health".into(), format!("a part of the graph program does not parse: {} {}", e.code, e.primary.message)))),
            Err((loc, m)) => return Some(Err(("panic".into(), format!("{} {}", loc, m)))),
        }
    }
    let refs: Vec<&ironplc_dsl::common::Library> = libs.iter().collect();
    let codes: Vec<String> = match crate::panicx::catch(|| ironplc_analyzer::stages::analyze(&refs)) {
        Ok(Ok(())) => vec![],
        Ok(Err(ds)) => ds.iter().map(|d| d.code.clone()).collect(),
        Err((loc, m)) => return Some(Err(("panic".into(), format!("{} {}", loc, m)))),
    };
    let recursive = codes.iter().any(|c| c == "P0010" || c == "P0013");
    if cyclic && !recursive {
        return Some(Err(("cycle-accepted".into(), format!("given as {} sources: the declaration graph has a cycle but no recursion code was reported (codes {:?})", files.len(), codes))));
    }
    if !cyclic && recursive {
        return Some(Err(("acyclic-rejected".into(), format!("given as {} sources: the declaration graph is acyclic but was reported as recursive (codes {:?})", files.len(), codes))));
    }
    Some(Ok(cyclic || codes.is_empty()))
}

fn check_graph(g: &Graph, salt: u64, arrays: bool, stats: &mut Stats, counting: bool) -> Result<(), Failure> {
    let cyc = g.cyclic();
    if g.n <= 4 && cyc != g.cyclic_closure() {
        return Err(Failure::new("reference", "oracle-disagreement", "DFS and transitive closure disagree", json!({"graph": g.describe()})));
    }
    let mut realisations = vec![("fb", realise_fb(g, salt, arrays)), ("type", realise_type(g, salt, arrays))];
    if let Some(m) = realise_mixed(g, salt, arrays) {
        realisations.push(("mixed", m));
    }
    let extra = bystanders(salt);
    for (kind, (text, soft)) in realisations {
        // bystander declarations before or after the graph
        let text = if extra.is_empty() {
            text
        } else if salt & 1 == 0 {
            format!("{}{}", extra, text)
        } else {
            format!("{}{}", text, extra)
        };
        // edges realised through ARRAY OF are soft: a cycle that exists only through them is not
        // judged (the property names instances, aliases and structure elements); a cycle on the
        // hard edges must be reported, a graph without any cycle must not be
        let cyc_hard = if soft.is_empty() {
            cyc
        } else {
            let mut h = g.clone();
            for (i, j) in &soft {
                h.adj[*i][*j] = false;
            }
            h.cyclic()
        };
        if cyc && !cyc_hard {
            if counting {
                stats.case(true, hash_str(&text));
                stats.class(&format!("{}.cycle-only-through-arrays(not judged)", kind));
            }
            // totality is still observed
            if let Err((k, d)) = judge(&text, true) {
                if k == "panic" || k == "generator-health" {
                    return Err(Failure::new(&format!("graph-{}", kind), &k, format!("{}: {}", g.describe(), d), json!({"graph": g.describe(), "cyclic": cyc, "text": text, "realisation": kind})));
                }
            }
            continue;
        }
        let r = judge(&text, cyc);
        if counting {
            let nt = g.n >= 2 && g.edges() >= 1;
            stats.case(nt, hash_str(&text));
            stats.class(&format!("{}.{}", kind, if cyc { "cyclic" } else { "acyclic" }));
            if !soft.is_empty() {
                stats.class(&format!("{}.with-array-edges", kind));
            }
            if !cyc && g.reconvergent() {
                stats.class(&format!("{}.acyclic.reconvergent", kind));
            }
            if let Ok(false) = r {
                stats.class(&format!("{}.acyclic-not-ok(health)", kind));
            }
            if g.n == 3 && g.edges() == 3 {
                let t = text.clone();
                let d = g.describe();
                stats.sample(4, || json!({"graph": d, "cyclic": cyc, "kind": kind, "text": t}));
            }
        }
        r.map_err(|(k, d)| Failure::new(&format!("graph-{}", kind), &k, format!("{}: {}", g.describe(), d), json!({"graph": g.describe(), "cyclic": cyc, "text": text, "realisation": kind})))?;
        // the same unit as several sources
        if let Some(r2) = judge_split(&text, cyc, salt) {
            if counting {
                stats.class(&format!("{}.given-as-several-sources", kind));
            }
            r2.map_err(|(k, d)| Failure::new(&format!("graph-{}", kind), &k, format!("{}: {}", g.describe(), d), json!({"graph": g.describe(), "cyclic": cyc, "text": text, "realisation": kind, "split_salt": salt})))?;
        }
    }
    Ok(())
}

/// "however deep or wide the graph is": chains, fans, layered and sparse random DAGs on 40 / 120 /
/// 400 nodes, half of them with one edge back to an earlier node
fn large_graph(t: &mut Tape) -> (Graph, &'static str) {
    let n = *t.pick(&[40usize, 120, 400]);
    let mut adj = vec![vec![false; n]; n];
    let shape = match t.below(5) {
        0 => {
            for i in 0..n - 1 {
                adj[i][i + 1] = true;
            }
            "chain"
        }
        1 => {
            for i in 1..n {
                adj[0][i] = true;
            }
            "fan-out"
        }
        2 => {
            for i in 0..n - 1 {
                adj[i][n - 1] = true;
            }
            "fan-in"
        }
        3 => {
            let w = 8;
            for i in 0..n {
                let next = (i / w + 1) * w;
                if next >= n {
                    break;
                }
                for _ in 0..1 + t.below(3) {
                    let j = next + t.below(w.min(n - next));
                    adj[i][j] = true;
                }
            }
            "layered"
        }
        _ => {
            for i in 0..n - 1 {
                for _ in 0..2 {
                    let j = i + 1 + t.below(n - i - 1);
                    adj[i][j] = true;
                }
            }
            "sparse-dag"
        }
    };
    if t.flag() {
        // an edge from a node back to one of the nodes that reach it (itself included): a cycle
        // of any length between 1 and the depth of the graph
        let a = t.below(n);
        let mut reach = vec![false; n];
        reach[a] = true;
        let mut stack = vec![a];
        while let Some(v) = stack.pop() {
            for u in 0..n {
                if adj[u][v] && !reach[u] {
                    reach[u] = true;
                    stack.push(u);
                }
            }
        }
        let anc: Vec<usize> = (0..n).filter(|&u| reach[u]).collect();
        let b = anc[t.below(anc.len())];
        adj[a][b] = true;
    }
    (Graph { n, adj }, shape)
}

/// large graphs go through the binary (a stack that overflows there is C04's business and must
/// not take the harness with it): recursion codes on stderr <=> the graph has a cycle
fn check_large_graph(g: &Graph, shape: &str, salt: u64, stats: &mut Stats, counting: bool) -> Result<(), Failure> {
    let cyc = g.cyclic();
    let (kind, text) = match salt % 3 {
        0 => ("fb", realise_fb(g, salt, false).0),
        1 => ("type", realise_type(g, salt, false).0),
        _ => match realise_mixed(g, salt, false) {
            Some(m) => ("mixed", m.0),
            None => ("fb", realise_fb(g, salt, false).0),
        },
    };
    let dir = crate::drive::Scratch::new("c07");
    let p = dir.write("graph.st", text.as_bytes()).to_string_lossy().to_string();
    let out = crate::drive::run_cli(&["check".to_string(), p], None);
    if out.timed_out {
        stats.inconclusive += 1;
        return Ok(());
    }
    let codes: Vec<String> = crate::drive::parse_cli_diags(&out.stderr).into_iter().map(|d| d.code).collect();
    if counting {
        stats.case(true, hash_str(&text));
        stats.class(&format!("large.{}.n{}.{}.{}", shape, g.n, kind, if cyc { "cyclic" } else { "acyclic" }));
    }
    let abnormal = !matches!(out.status, Some(c) if c != 101);
    if abnormal {
        // not a verdict at all: counted, reported by C04's declaration-graph family
        if counting {
            stats.class("large.abnormal-exit(not judged)");
        }
        return Ok(());
    }
    let recursive = codes.iter().any(|c| c == "P0010" || c == "P0013");
    let fail = |k: &str, d: String| Failure::new(&format!("large-graph-{}", kind), k, d, json!({"shape": shape, "nodes": g.n, "cyclic": cyc, "text": text, "realisation": kind}));
    if cyc && !recursive {
        return Err(fail("cycle-accepted", format!("{} graph on {} nodes has a cycle but no recursion code was reported (exit {:?}, codes {:?})", shape, g.n, out.status, codes)));
    }
    if !cyc && recursive {
        return Err(fail("acyclic-rejected", format!("acyclic {} graph on {} nodes was reported as recursive (codes {:?})", shape, g.n, codes)));
    }
    if !cyc && !codes.is_empty() && counting {
        stats.class("large.acyclic-not-ok(health)");
    }
    Ok(())
}

fn random_graph(t: &mut Tape) -> Graph {
    let n = 5 + t.below(8);
    // edge probability drawn per case: sparse DAG-ish ... dense
    let p = *t.pick(&[1usize, 2, 3, 5, 8, 16, 40]);
    let dag_bias = t.ratio(1, 2);
    let mut adj = vec![vec![false; n]; n];
    for i in 0..n {
        for j in 0..n {
            let allowed = if dag_bias { j > i } else { true };
            if allowed && t.below(100) < p {
                adj[i][j] = true;
            }
        }
    }
    // optionally add one back edge / self loop far from node 0
    if dag_bias && t.ratio(1, 3) {
        let a = t.below(n);
        let b = t.below(a + 1);
        adj[a][b] = true;
    }
    Graph { n, adj }
}

pub fn run(ctx: &Ctx) -> i32 {
    let clock = Clock::start();
    let mut rep = Report::new(
        "C07",
        ctx.tier,
        ctx.seed,
        "exploration",
        "directed graphs with self-loops: ALL graphs on 1..4 nodes (2+16+512+65536, exhaustive) and random graphs on 5..12 nodes (edge density drawn per case, DAG-biased half of the time with an optional single back edge), each realised as a function-block instance graph (VAR / VAR_INPUT / VAR_OUTPUT instances; now and then a VAR_EXTERNAL of a block type, the block's own included: no edge) as a type graph (alias / structure element; enumeration values and defaults now and then written with the declaration's own name or the root enumeration's name in front: no edge) and as a mixed graph (every node a function block or a structure, edges = instance variables / structure elements; in a third of the graphs a quarter of the edges go through ARRAY OF and are soft: cycles only through them are not judged), declarations in a seed-derived order, every reference spelled in lower, UPPER or Capitalised case, other variables / elements (plain, initialised, enumeration, array, string, structure with initialiser) declared before the edge declarations, a quarter of the edges declared twice (two instances / elements of one type); in a third of the units bystander declarations of every other kind (all TYPE forms incl. structure initialisation, function, program, configuration); in a third of the function-block realisations bodies that invoke the instances, with instances and variables named like declarations of the unit. Large graphs (chains, fan-out, fan-in, layered and sparse DAGs on 40 / 120 / 400 nodes, half with one back edge) through `ironplcc check`. Oracle: reference DFS cycle test (cross-checked by transitive closure for n<=4): cyclic => P0010 or P0013 reported; acyclic => neither. Non-trivial: >= 2 nodes and >= 1 edge; distinct by program text.",
    );
    // exhaustive part
    let mut items: Vec<(usize, u64)> = vec![];
    for n in 1..=3usize {
        for bits in 0..(1u64 << (n * n)) {
            items.push((n, bits));
        }
    }
    let n4: Vec<u64> = if ctx.tier == Tier::Thorough || std::env::var("VERIF_C07_SAMPLE").is_err() {
        (0..65536u64).collect()
    } else {
        (0..4000u64).map(|k| mix(ctx.seed ^ k) % 65536).collect()
    };
    for b in n4 {
        items.push((4, b));
    }
    let seed = ctx.seed;
    let out = run_items(&items, ctx.threads, |(n, bits), stats| {
        let g = Graph::from_bits(*n, *bits);
        check_graph(&g, mix(seed ^ (*bits << 8) ^ *n as u64), mix(seed ^ *bits) % 3 == 0, stats, true)
    });
    rep.add(out);
    rep.exhaustive = Some(false);
    rep.extra.insert("exhaustive_up_to_nodes".into(), json!(4));
    let cases = ctx.tier.pick(60_000, 1_500_000);
    let out = run_tapes("C07", ctx.seed, ctx.threads, cases, 200, |tape, stats, counting| {
        let mut t = Tape::new(tape);
        let g = random_graph(&mut t);
        let salt = t.u64();
        check_graph(&g, salt, salt % 3 == 0, stats, counting)
    });
    rep.add(out);
    let cases = ctx.tier.pick(240, 6_000);
    let out = run_tapes("C07", ctx.seed ^ 0x1a26e, ctx.threads, cases, 24, |tape, stats, counting| {
        // (the 24 tape bytes are a seed: a large graph draws thousands of choices)
        let ext = crate::tape::derived(tape, 8192);
        let mut t = Tape::new(&ext);
        let (g, shape) = large_graph(&mut t);
        let salt = t.u64();
        check_large_graph(&g, shape, salt, stats, counting)
    });
    rep.add(out);
    let bad: u64 = rep.stats.classes.iter().filter(|(k, _)| k.contains("health")).map(|(_, v)| *v).sum();
    if bad * 20 > rep.stats.evaluations.max(1) {
        rep.infra_errors.push(format!("{} acyclic graph programs did not analyse Ok", bad));
    }
    rep.replay_witnesses(&ctx.findings, &|w| witness(w));
    rep.assumptions = vec!["VAR_IN_OUT edges are not generated; ARRAY OF edges are soft (a third of the graphs carry some): a cycle that exists only through arrays is not judged, because whether an array 'contains an instance' is not settled by the property".into()];
    rep.wall_s = clock.secs();
    rep.finish()
}

pub fn witness(w: &Value) -> Result<(), String> {
    let text = w["text"].as_str().ok_or("no text")?;
    let cyclic = w["cyclic"].as_bool().ok_or("no cyclic flag")?;
    judge(text, cyclic).map(|_| ()).map_err(|(k, d)| format!("{}: {}", k, d))
}

pub fn replay(ctx: &Ctx, v: &Value) -> i32 {
    match witness(&v["inputs"]) {
        Ok(()) => {
            println!("replay: property holds on this input");
            0
        }
        Err(e) => {
            println!("VIOLATION property=C07 replay={}", ctx.replay_path.clone().unwrap_or_default());
            eprintln!("{}", e);
            1
        }
    }
}

//! C05 – every reported position points at the text it is about.
//!
//! (a) tokens tile the source (text == source[span], contiguous, ordered, char boundaries,
//!     line/column recomputed from the text alone);
//! (b) every identifier of a parsed library carries the span of its own spelling and the file id;
//! (c) diagnostic labels lie inside their file and cover the construct the message is about
//!     (planted faults of the C02 generator: the marker occurrence is known by construction).

use crate::astwalk::collect_ids;
use crate::gates::Gates;
use crate::gen_syntax::Gen;
use crate::gen_valid::*;
use crate::lexeme::{layout, Class, Layout, Lexeme, PosIndex, SpellOpts};
use crate::printer::{Printer, ELEMENTARY};
use crate::props::c02::spell_unit;
use crate::report::Report;
use crate::runner::*;
use crate::tape::Tape;
use crate::Ctx;
use ironplc_analyzer::stages::analyze;
use ironplc_dsl::core::FileId;
use ironplc_dsl::diagnostic::{Diagnostic, Label};
use ironplc_parser::options::ParseOptions;
use ironplc_parser::token::TokenType;
use ironplc_parser::{parse_program, tokenize_program};
use serde_json::{json, Value};

const OSCAT_OPEN: &str = "(*@KEY@:DESCRIPTION*)";
const OSCAT_CLOSE: &str = "(*@KEY@:END_DESCRIPTION*)";

/// (a) – computed from the text alone
pub fn check_tiling(text: &str) -> Result<(), (String, String)> {
    let fid = FileId::from_string("c05.st");
    let (tokens, diags) = match crate::panicx::catch(|| tokenize_program(text, &fid, &ParseOptions::default())) {
        Ok(x) => x,
        Err((loc, msg)) => return Err(("panic".into(), format!("tokenize_program panicked at {}: {}", loc, msg))),
    };
    let pos = PosIndex::new(text);
    // error ranges (P0031) may stand in for tokens
    let mut err_ranges: Vec<(usize, usize)> = vec![];
    for d in &diags {
        let (s, e) = (d.primary.location.start, d.primary.location.end);
        if s > e || e > text.len() || !text.is_char_boundary(s) || !text.is_char_boundary(e) {
            return Err(("lexical-error-label".into(), format!("diagnostic {} label {}..{} is outside the text / not on char boundaries (len {})", d.code, s, e, text.len())));
        }
        if d.code == "P0031" {
            err_ranges.push((s, e));
        }
    }
    // OSCAT body region (blanked before lexing)
    // (every description block: from an opening marker to the first closing marker behind it)
    let mut regions: Vec<(usize, usize)> = vec![];
    {
        let mut from = 0usize;
        while let Some(a) = text[from..].find(OSCAT_OPEN) {
            let body = from + a + OSCAT_OPEN.len();
            match text[body..].find(OSCAT_CLOSE) {
                Some(len) => {
                    regions.push((body, body + len));
                    from = body + len + OSCAT_CLOSE.len();
                }
                None => break,
            }
        }
    }
    let mut cursor = 0usize;
    let mut unit_ok = [true, true, true]; // bytes, chars, utf16
    let mut prev_real_type: Option<TokenType> = None;
    let mut ei = 0;
    for (i, tk) in tokens.iter().enumerate() {
        let (s, e) = (tk.span.start, tk.span.end);
        if tk.text.is_empty() {
            // synthetic token: only a ';' inserted after END_IF (modulo trivia)
            if tk.token_type != TokenType::Semicolon {
                return Err(("synthetic-token".into(), format!("token #{} has empty text but type {:?}", i, tk.token_type)));
            }
            continue;
        }
        if s > e || e > text.len() || !text.is_char_boundary(s) || !text.is_char_boundary(e) {
            return Err(("token-span".into(), format!("token #{} {:?} span {}..{} is not a valid char-boundary range of the text (len {})", i, tk.text, s, e, text.len())));
        }
        // gaps must be covered by reported lexical errors
        while cursor < s {
            if ei < err_ranges.len() && err_ranges[ei].0 == cursor && err_ranges[ei].1 <= s {
                cursor = err_ranges[ei].1;
                ei += 1;
            } else {
                return Err(("gap".into(), format!("bytes {}..{} ({:?}) are covered neither by a token nor by a reported P0031 range", cursor, s, &text[cursor..s.min(cursor + 30)])));
            }
        }
        if s < cursor {
            return Err(("overlap".into(), format!("token #{} {:?} starts at {} before the end {} of the previous token", i, tk.text, s, cursor)));
        }
        let slice = &text[s..e];
        if slice != tk.text {
            let in_oscat = regions.iter().any(|(a, b)| s >= *a && e <= *b);
            // blanking must preserve byte offsets: one blank per byte, line feeds kept
            let blanked: String = slice.bytes().map(|c| if c == b'\n' { '\n' } else { ' ' }).collect();
            if !(in_oscat && blanked == tk.text) {
                // the OSCAT markers sit inside this token (a string literal or a comment): the
                // preprocessor blanked part of the token
                if !regions.is_empty() {
                    let inside = |p: usize| regions.iter().any(|(a, b)| p >= *a && p < *b);
                    let same_bytes: Vec<u8> = slice.bytes().enumerate().map(|(k, c)| if inside(s + k) && c != b'\n' { b' ' } else { c }).collect();
                    if same_bytes == tk.text.as_bytes() {
                        return Err(("token-text-oscat-inside-token".into(), format!("token #{} ({:?}) contains the OSCAT description markers; the text between them was blanked inside the token", i, tk.token_type)));
                    }
                }
                return Err(("token-text".into(), format!("token #{} text {:?} differs from source[{}..{}] = {:?}", i, tk.text, s, e, slice)));
            }
        }
        let (line, cb, cc, cu) = pos.pos(s);
        if tk.line != line {
            return Err(("token-line".into(), format!("token #{} {:?} at byte {} reports line {} but {} line breaks precede it", i, tk.text, s, tk.line, line)));
        }
        for (k, c) in [cb, cc, cu].iter().enumerate() {
            if tk.col != *c {
                unit_ok[k] = false;
            }
        }
        if !unit_ok.iter().any(|x| *x) {
            return Err((
                "token-column".into(),
                format!("token #{} {:?} at byte {} (line {}) reports column {}; column of its start is {} bytes / {} chars / {} UTF-16 units and no single unit fits all tokens so far", i, tk.text, s, line, tk.col, cb, cc, cu),
            ));
        }
        cursor = e;
        prev_real_type = Some(tk.token_type.clone());
    }
    let _ = prev_real_type;
    while cursor < text.len() {
        if ei < err_ranges.len() && err_ranges[ei].0 == cursor {
            cursor = err_ranges[ei].1;
            ei += 1;
        } else {
            return Err(("gap".into(), format!("trailing bytes {}..{} are not covered", cursor, text.len())));
        }
    }
    Ok(())
}

/// (b) identifiers: source[span] == original, file id, and agreement with the lexeme table
pub fn check_ids(text: &str, lay: &Layout, lexemes: &[Lexeme], spelled: &[String], file: &str) -> Result<usize, (String, String)> {
    let fid = FileId::from_string(file);
    let lib = match crate::panicx::catch(|| parse_program(text, &fid, &ParseOptions::default())) {
        Ok(Ok(l)) => l,
        Ok(Err(_)) => return Ok(0), // not accepted: C01's business
        Err((loc, msg)) => return Err(("panic".into(), format!("{} {}", loc, msg))),
    };
    let ids = collect_ids(&lib);
    // identifier lexemes by start offset
    let mut ident_at = std::collections::HashMap::new();
    for p in &lay.pieces {
        if let Some(li) = p.lexeme {
            if lexemes[li].class == Class::Ident {
                ident_at.insert(p.start, (p.end, li));
            }
        }
    }
    let mut covered = std::collections::HashSet::new();
    let mut n = 0;
    for (orig, s, e, f) in &ids {
        if *s == 0 && *e == 0 && (orig.is_empty() || ELEMENTARY.contains(&orig.to_ascii_uppercase().as_str())) {
            continue; // fabricated from a keyword
        }
        n += 1;
        if f != file {
            return Err(("id-file".into(), format!("identifier {:?} carries file id {:?}, expected {:?}", orig, f, file)));
        }
        if *s > *e || *e > text.len() || !text.is_char_boundary(*s) || !text.is_char_boundary(*e) {
            return Err(("id-span".into(), format!("identifier {:?} span {}..{} is not inside the text", orig, s, e)));
        }
        if &text[*s..*e] != orig {
            return Err(("id-span".into(), format!("identifier {:?} carries span {}..{} whose text is {:?}", orig, s, e, &text[*s..*e])));
        }
        match ident_at.get(s) {
            Some((end, li)) if end == e && &spelled[*li] == orig => {
                covered.insert(*s);
            }
            _ => return Err(("id-not-a-lexeme".into(), format!("identifier {:?} span {}..{} is not an identifier lexeme of the printed program", orig, s, e))),
        }
    }
    // every identifier lexeme that reaches the AST is the span of some Id
    for (start, (_, li)) in ident_at.iter() {
        if !covered.contains(start) && !lexemes[*li].text.ends_with("_b") {
            return Err(("id-missing".into(), format!("identifier lexeme {:?} at byte {} is the span of no identifier in the library", spelled[*li], start)));
        }
    }
    Ok(n)
}

fn label_in_text(l: &Label, text: &str, file: &str) -> Result<(), String> {
    if l.file_id.to_string() != file {
        return Err(format!("label names file {:?}, the only file is {:?}", l.file_id.to_string(), file));
    }
    let (s, e) = (l.location.start, l.location.end);
    if s > e || e > text.len() || !text.is_char_boundary(s) || !text.is_char_boundary(e) {
        return Err(format!("label {}..{} is not a char-boundary range of the file (len {})", s, e, text.len()));
    }
    label_on_word_boundaries(s, e, text)
}

/// A label covers "the spelling of the construct the message talks about": whatever the construct
/// is, it is made of whole lexemes, so a (non-empty) label neither starts nor ends in the middle of
/// a word (identifier, keyword, number) - a span counted in another unit than bytes, or taken
/// from a neighbouring position, almost always does
fn label_on_word_boundaries(s: usize, e: usize, text: &str) -> Result<(), String> {
    if s == e {
        return Ok(());
    }
    let b = text.as_bytes();
    let word = |c: u8| c.is_ascii_alphanumeric() || c == b'_';
    if s > 0 && word(b[s - 1]) && word(b[s]) {
        let from = s.saturating_sub(12);
        return Err(format!("label {}..{} starts in the middle of the word {:?}", s, e, String::from_utf8_lossy(&b[from..(s + 12).min(b.len())])));
    }
    if e < b.len() && word(b[e - 1]) && word(b[e]) {
        let from = e.saturating_sub(12);
        return Err(format!("label {}..{} ends in the middle of the word {:?}", s, e, String::from_utf8_lossy(&b[from..(e + 12).min(b.len())])));
    }
    Ok(())
}

fn occurrences(text: &str, word: &str) -> Vec<usize> {
    let lower = text.to_ascii_lowercase();
    let w = word.to_ascii_lowercase();
    let mut v = vec![];
    let mut from = 0;
    while let Some(p) = lower[from..].find(&w) {
        let s = from + p;
        let e = s + w.len();
        let before_ok = s == 0 || !(lower.as_bytes()[s - 1].is_ascii_alphanumeric() || lower.as_bytes()[s - 1] == b'_');
        let after_ok = e == lower.len() || !(lower.as_bytes()[e].is_ascii_alphanumeric() || lower.as_bytes()[e] == b'_');
        if before_ok && after_ok {
            v.push(s);
        }
        from = s + 1;
    }
    v
}

/// (c) labels of the diagnostics produced for a unit with one planted fault
pub fn check_labels(text: &str, planted: &Planted, gates: &Gates) -> Result<bool, (String, String)> {
    let file = "c05c.st";
    let fid = FileId::from_string(file);
    let lib = match crate::panicx::catch(|| parse_program(text, &fid, &ParseOptions::default())) {
        Ok(Ok(l)) => l,
        Ok(Err(_)) => return Ok(false),
        Err((loc, msg)) => return Err(("panic".into(), format!("{} {}", loc, msg))),
    };
    let ds: Vec<Diagnostic> = match crate::panicx::catch(|| analyze(&[&lib])) {
        Ok(Ok(())) => return Ok(false),
        Ok(Err(ds)) => ds,
        Err((loc, msg)) => return Err(("panic".into(), format!("{} {}", loc, msg))),
    };
    for d in &ds {
        if d.code == "P9999" {
            continue;
        }
        label_in_text(&d.primary, text, file).map_err(|e| ("label-outside-file".to_string(), format!("{} primary: {}", d.code, e)))?;
        for s in &d.secondary {
            label_in_text(s, text, file).map_err(|e| ("label-outside-file".to_string(), format!("{} secondary: {}", d.code, e)))?;
        }
    }
    // a diagnostic that says which name it is about (name= / variable= / identifier= in its
    // description) and whose primary label is one word: the word is that name
    for d in &ds {
        if d.code == "P9999" {
            continue;
        }
        let (s, e) = (d.primary.location.start, d.primary.location.end);
        let covered = &text[s..e];
        if covered.is_empty() || !covered.bytes().all(|c| c.is_ascii_alphanumeric() || c == b'_') {
            continue;
        }
        for item in &d.described {
            if let Some((k, v)) = item.split_once('=') {
                if (k == "name" || k == "variable" || k == "identifier") && !v.is_empty() && v.bytes().all(|c| c.is_ascii_alphanumeric() || c == b'_') && !covered.eq_ignore_ascii_case(v) {
                    return Err(("label-wrong-construct".into(), format!("{} says {}={} but its primary label {}..{} covers {:?}", d.code, k, v, s, e, covered)));
                }
            }
        }
    }
    let want = planted.kind.code();
    let d = match ds.iter().find(|d| d.code == want) {
        Some(d) => d,
        None => return Ok(false), // C02's business
    };
    let (s, e) = (d.primary.location.start, d.primary.location.end);
    let marker = match &planted.marker {
        Some(m) => m.clone(),
        None => {
            // P0004: the label must be a non-empty part of the text
            if planted.kind == FaultKind::SubrangeLimits {
                if !gates.want("SUBRANGE_LABEL") {
                    return Ok(false);
                }
                if s == e {
                    return Err(("label-empty".into(), format!("{} label {}..{} is empty: it does not cover the subrange the message talks about", want, s, e)));
                }
            }
            return Ok(true);
        }
    };
    let occ = occurrences(text, &marker);
    let covered = &text[s..e];
    match planted.kind {
        FaultKind::CallMixed | FaultKind::CallBadFormal | FaultKind::CallArgCount | FaultKind::CallBadOutput | FaultKind::CallNotInstance => {
            // label starts at an occurrence of the instance name and ends at the closing ')' of that call
            // (comments inside the invocation may contain anything: judged with comments removed)
            let mut bare = String::new();
            // (line comments first: from `//` to the end of the line)
            let no_line_comments: String = covered.lines().map(|l| match l.find("//") { Some(p) => &l[..p], None => l }).collect::<Vec<_>>().join("\n");
            let mut rest = no_line_comments.as_str();
            while let Some(a) = rest.find("(*") {
                bare.push_str(&rest[..a]);
                match rest[a..].find("*)") {
                    Some(b) => rest = &rest[a + b + 2..],
                    None => {
                        rest = "";
                    }
                }
            }
            bare.push_str(rest);
            if !occ.contains(&s) || !covered.ends_with(')') || bare.contains(';') {
                return Err(("label-wrong-construct".into(), format!("{} label {}..{} covers {:?}; expected the invocation of {:?}", want, s, e, covered, marker)));
            }
        }
        _ => {
            // exactly an occurrence of the name - or, for a value written with its type prefix, the
            // whole `Type#value` ending in an occurrence of the name
            let plain = occ.contains(&s) && covered.eq_ignore_ascii_case(&marker);
            let prefixed = covered.len() > marker.len()
                && covered.is_char_boundary(covered.len() - marker.len())
                && occ.contains(&(e - marker.len()))
                && covered[..covered.len() - marker.len()].trim_end().ends_with('#')
                && covered[..covered.len() - marker.len()].trim_end().trim_end_matches('#').trim_end().chars().all(|c| c.is_ascii_alphanumeric() || c == '_');
            if !(plain || prefixed) {
                return Err((
                    "label-wrong-construct".into(),
                    format!("{} ({:?}) label {}..{} covers {:?}; expected an occurrence of {:?} (at {:?})", want, d.described, s, e, covered, marker, occ),
                ));
            }
        }
    }
    Ok(true)
}

/// line / column shown by the CLI (`file:L:C`) and by LSP (`range.start`) for the planted fault's
/// diagnostic equal the recomputed position of the label start found in-process
fn check_shown_positions(text: &str, planted: &Planted) -> Result<(), (String, String)> {
    use crate::drive::*;
    let file = "c05c.st";
    let fid = FileId::from_string(file);
    let lib = match crate::panicx::catch(|| parse_program(text, &fid, &ParseOptions::default())) {
        Ok(Ok(l)) => l,
        _ => return Ok(()),
    };
    let ds = match crate::panicx::catch(|| analyze(&[&lib])) {
        Ok(Err(ds)) => ds,
        _ => return Ok(()),
    };
    let want = planted.kind.code();
    let d = match ds.iter().find(|d| d.code == want) {
        Some(d) => d,
        None => return Ok(()),
    };
    let pos = PosIndex::new(text);
    let (line, _, col_chars, col_utf16) = pos.pos(d.primary.location.start);
    // command line
    let dir = Scratch::new("c05");
    let p = dir.write("c05c.st", text.as_bytes()).to_string_lossy().to_string();
    let out = run_cli(&["check".to_string(), p.clone()], None);
    if !out.timed_out {
        let shown: Vec<(usize, usize)> = parse_cli_diags(&out.stderr).into_iter().filter(|x| x.code == want && x.file.is_some()).map(|x| (x.line, x.col)).collect();
        if !shown.is_empty() && !shown.contains(&(line + 1, col_chars + 1)) {
            return Err(("cli-position".into(), format!("{}: label starts at line {} column {} (1-based), the command line shows {:?}", want, line + 1, col_chars + 1, shown)));
        }
    }
    // language server
    let uri = format!("file://{}", p);
    // the text arrives either at once or as the last of several versions of the document (first a
    // text in which everything stands elsewhere): the positions are those of the CURRENT text
    let earlier = format!("(* earlier version *)\n\n{}", text.replacen(&planted.marker.clone().unwrap_or_default(), "zz_other_name", 1));
    let msgs = match crate::tape::fnv(text.as_bytes()) % 3 {
        0 => vec![lsp_initialize(0), lsp_initialized(), lsp_did_open(&uri, 1, text), lsp_shutdown(1), lsp_exit()],
        1 => vec![lsp_initialize(0), lsp_initialized(), lsp_did_open(&uri, 1, &earlier), lsp_did_change(&uri, 2, &[text]), lsp_shutdown(1), lsp_exit()],
        _ => vec![lsp_initialize(0), lsp_initialized(), lsp_did_open(&uri, 1, text), lsp_did_change(&uri, 2, &[&earlier]), lsp_did_change(&uri, 3, &[text]), lsp_shutdown(1), lsp_exit()],
    };
    let run = lsp_run(&msgs);
    if !run.timed_out {
        // (the publication for the last notification is the one about the current text)
        let last = run.frames.iter().rposition(|f| f["method"] == "textDocument/publishDiagnostics");
        for (fi, f) in run.frames.iter().enumerate() {
            if Some(fi) == last && f["method"] == "textDocument/publishDiagnostics" {
                let shown: Vec<(u64, u64)> = f["params"]["diagnostics"]
                    .as_array()
                    .cloned()
                    .unwrap_or_default()
                    .iter()
                    .filter(|x| x["code"] == want)
                    .map(|x| (x["range"]["start"]["line"].as_u64().unwrap_or(u64::MAX), x["range"]["start"]["character"].as_u64().unwrap_or(u64::MAX)))
                    .collect();
                if !shown.is_empty() && !shown.contains(&(line as u64, col_utf16 as u64)) && !shown.contains(&(line as u64, col_chars as u64)) {
                    return Err(("lsp-position".into(), format!("{}: label starts at line {} character {} (0-based), publishDiagnostics shows {:?}", want, line, col_chars, shown)));
                }
            }
        }
    }
    Ok(())
}

fn with_oscat(text: &str, t: &mut Tape, gates: &Gates) -> String {
    let mut body = String::new();
    let n = t.count(0, 6);
    for _ in 0..n {
        match t.below(6) {
            0 => body.push_str("version 1.1 "),
            1 => body.push('\n'),
            2 => body.push_str("\r\n"),
            3 => {
                if gates.want("OSCAT_BODY_NON_ASCII") {
                    body.push_str("größe € ")
                } else {
                    body.push_str("size ")
                }
            }
            4 => body.push_str("(* nested *) "),
            _ => body.push_str("programmer hm "),
        }
    }
    format!("{}{}{}\n{}", OSCAT_OPEN, body, OSCAT_CLOSE, text)
}

fn check_tape_ab(tape: &[u8], gates: &Gates, stats: &mut Stats, counting: bool) -> Result<(), Failure> {
    let mut g = Gen::new(gates, Tape::new(tape));
    let lib = g.library(3);
    let mut p = Printer::new(gates, g.t.rest());
    p.library(&lib);
    let mut lt = p.t.rest();
    let mut lexemes = p.finish();
    // now and then one name of the program is replaced, at all its occurrences, by a word that the
    // lexer treats specially (EN / ENO have token types of their own; T, N, ms, INTERVAL ... are
    // keywords only in some places).  Whether such a program is accepted is not this property's
    // business - when it is, its identifiers carry their spans like any others
    let special_name = lt.ratio(1, 12);
    if special_name {
        // (names ending in _b mark the one identifier the dsl cannot hold - check_ids exempts them by that suffix)
        let idents: Vec<String> = lexemes.iter().filter(|l| l.class == Class::Ident && !l.text.ends_with("_b")).map(|l| l.text.to_ascii_lowercase()).collect();
        if !idents.is_empty() {
            let x = idents[lt.below(idents.len())].clone();
            let w = *lt.pick(&["EN", "ENO", "en", "Eno", "T", "N", "S", "R", "L", "D", "P", "SD", "DS", "SL", "ms", "INTERVAL", "PRIORITY", "SINGLE", "ON", "TIME", "OVERLAP", "R_EDGE"]);
            for l in lexemes.iter_mut() {
                if l.class == Class::Ident && l.text.to_ascii_lowercase() == x {
                    l.text = w.to_string();
                }
            }
        }
    }
    let mut opts = SpellOpts::wild();
    opts.comments = gates.want("TOKEN_COLUMN_AFTER_COMMENT");
    opts.non_ascii = opts.comments;
    opts.line_comments = gates.want("TRIVIA_LINE_COMMENT");
    opts.touch = gates.want("LEXEMES_MAY_TOUCH");
    let (lay, spelled) = layout(&lexemes, &opts, &mut lt);
    let oscat = lt.ratio(1, 6);
    let text = if oscat { with_oscat(&lay.text, &mut lt, gates) } else { lay.text.clone() };
    // direct addresses also in lower and mixed case (same length, so every offset stays): the lexer
    // takes them as address tokens whatever the parser thinks of them later, and a token's text is
    // the source slice at its span
    let text = if !oscat && lt.ratio(1, 8) {
        let mut b = text.into_bytes();
        for pc in &lay.pieces {
            if let Some(li) = pc.lexeme {
                if lexemes[li].class == Class::Address {
                    for k in pc.start..pc.end {
                        if lt.flag() {
                            b[k] = b[k].to_ascii_lowercase();
                        }
                    }
                }
            }
        }
        String::from_utf8(b).unwrap_or_default()
    } else {
        text
    };
    // optional lexical error
    let mut text = text;
    let mut lexerr = false;
    if lt.ratio(1, 8) {
        // (characters no lexeme begins with: visible ones, and the invisible ones that editors and
        // concatenated files leave behind - a byte-order mark in mid-file, no-break and zero-width
        // blanks, control characters)
        let junk = *lt.pick(&["?", "??", "@", "~", "\\", "§", "`", "\u{feff}", "\u{a0}", "\u{200b}", "€", "\u{1a}", "\u{0}", "😀", "\u{feff}\u{feff}", "?\u{feff}", "\u{3000}", "\u{ad}"]);
        if junk.is_ascii() || gates.want("LEXICAL_ERROR_NON_ASCII") {
            // insert at a line start so that no token is split
            let pos = PosIndex::new(&text);
            let line = lt.below(pos.lines());
            let at = pos.line_start(line);
            if gates.want("TOKEN_COLUMN_AFTER_LEXICAL_ERROR") {
                text.insert_str(at, junk);
            } else {
                text.insert_str(at, &format!("{}\n", junk));
            }
            lexerr = true;
        }
    }
    if counting {
        let nt = text.contains("(*") || !text.is_ascii() || text.contains("\r\n") || lexerr;
        stats.case(nt, hash_str(&text));
        stats.class(if oscat { "a.oscat" } else { "a.plain" });
        if lexerr {
            stats.class("a.lexical-error");
        }
        if !text.is_ascii() {
            stats.class("a.non-ascii");
        }
        if text.contains("\r\n") {
            stats.class("a.crlf");
        }
        stats.absorb_gates(gates);
        let tx = text.clone();
        stats.sample(2, || json!({"tokens-tile": tx}));
    } else {
        gates.take_hits();
        gates.take_wanted();
    }
    check_tiling(&text).map_err(|(k, d)| Failure::new("tokens-tile", &k, d, json!({"text": text})))?;
    if !oscat && !lexerr {
        let n = match check_ids(&lay.text, &lay, &lexemes, &spelled, "idfile.st") {
            Ok(n) => n,
            // (a special word may be accepted as the keyword it also is - TIME as a type, ON in a
            // resource - and then is no identifier of the library: only the spans that ARE carried
            // are judged for these programs)
            Err((k, _)) if special_name && k == "id-missing" => 1,
            Err((k, d)) => return Err(Failure::new("identifier-spans", &k, d, json!({"text": lay.text}))),
        };
        if counting {
            stats.class_n("b.identifiers-checked", n as u64);
            if special_name {
                stats.class(if n > 0 { "b.special-word-as-name.accepted" } else { "b.special-word-as-name.rejected(not judged)" });
            }
        }
    }
    Ok(())
}

fn check_tape_c(tape: &[u8], gates: &Gates, stats: &mut Stats, counting: bool, shown_budget: &std::sync::atomic::AtomicI64) -> Result<(), Failure> {
    let profile = Profile::default();
    let mut t = Tape::new(tape);
    let unit = gen_unit(&mut t, gates, &profile);
    let derived = crate::tape::derived(tape, 256);
    let mut choice = Tape::new(&derived);
    for kind in ALL_FAULTS.iter() {
        let n = unit.sites[kind.index()];
        if n == 0 {
            continue;
        }
        let k = choice.below(n);
        let mut t2 = Tape::new(tape);
        let fu = gen_unit_with(&mut t2, gates, &profile, Some((*kind, k)));
        let planted = match &fu.planted {
            Some(p) => p.clone(),
            None => continue,
        };
        // canonical spelling, or (half of the cases) the wild one: comments and non-ASCII text before
        // the marker on its line, CRLF, re-cased identifiers - the label must still cover the marker
        let wild = choice.flag();
        let text = if wild {
            let mut p = Printer::new(gates, Tape::empty());
            p.library(&fu.lib);
            let lex = p.finish();
            gates.take_hits();
            let lt_bytes: Vec<u8> = (0..200).map(|_| choice.byte()).collect();
            let (lay, _) = layout(&lex, &crate::props::c08::opts_for(gates), &mut Tape::new(&lt_bytes));
            lay.text
        } else {
            spell_unit(&fu, gates)
        };
        if counting {
            stats.class(if wild { "c.spelling.wild" } else { "c.spelling.canonical" });
        }
        let r = check_labels(&text, &planted, gates);
        if counting {
            stats.case(true, hash_str(&text));
            stats.class(&format!("c.label.{}", kind.code()));
            if let Ok(false) = r {
                stats.class("c.not-judged");
            }
            if *kind == FaultKind::UndeclaredVar {
                let tx = text.clone();
                stats.sample(4, || json!({"faulty": tx, "marker": planted.marker}));
            }
        }
        let judged = matches!(r, Ok(true));
        r.map_err(|(k2, d)| Failure::new("diagnostic-labels", &k2, d, json!({"text": text, "fault": format!("{:?}", kind), "marker": planted.marker})))?;
        if counting && judged && shown_budget.fetch_sub(1, std::sync::atomic::Ordering::Relaxed) > 0 {
            stats.class("c.shown-positions(cli+lsp)");
            check_shown_positions(&text, &planted).map_err(|(k2, d)| Failure::new("shown-positions", &k2, d, json!({"text": text, "fault": format!("{:?}", kind), "code": kind.code()})))?;
        }
    }
    if counting {
        stats.absorb_gates(gates);
    } else {
        gates.take_hits();
        gates.take_wanted();
    }
    Ok(())
}

/// the `file:L:C` that `ironplcc check`, `ironplcc echo` (syntax errors) and `ironplcc tokenize`
/// (lexical errors) print for the first diagnostic of a text that does not parse / tokenize is
/// the line / column of the label start found in process (every sub-command reports positions)
pub fn check_shown_error_position(text: &str) -> Result<bool, (String, String)> {
    use crate::drive::*;
    let fid = FileId::from_string("c05s.st");
    let d = match crate::panicx::catch(|| parse_program(text, &fid, &ParseOptions::default())) {
        Ok(Err(d)) => d,
        _ => return Ok(false),
    };
    let s = d.primary.location.start;
    if s > text.len() || !text.is_char_boundary(s) {
        return Ok(false); // reported by (e)
    }
    let pos = PosIndex::new(text);
    let (line, _, col_chars, _) = pos.pos(s);
    let want = (line + 1, col_chars + 1);
    let dir = Scratch::new("c05s");
    let p = dir.write("c05s.st", text.as_bytes()).to_string_lossy().to_string();
    let mut cmds = vec!["check", "echo"];
    if d.code == "P0031" {
        cmds.push("tokenize");
    }
    for cmd in cmds {
        let out = run_cli(&[cmd.to_string(), p.clone()], None);
        if out.timed_out {
            continue;
        }
        let shown: Vec<(usize, usize)> = parse_cli_diags(&out.stderr).into_iter().filter(|x| x.code == d.code && x.file.is_some()).map(|x| (x.line, x.col)).collect();
        if !shown.is_empty() && !shown.contains(&want) {
            return Err((format!("{}-position", cmd), format!("{}: label starts at line {} column {} (1-based), `ironplcc {}` shows {:?}", d.code, want.0, want.1, cmd, shown)));
        }
    }
    Ok(true)
}

/// (e) syntax errors: the message of a P0002 diagnostic quotes the text the parser stopped at
/// ("Found text '...' that matched token ..."); the primary label must cover exactly that text.
/// Programs are broken by white space / a comment at a joint where IEC forbids it (inside a typed
/// literal, a duration, a date) or by token-level mutations.
fn check_tape_e(tape: &[u8], gates: &Gates, stats: &mut Stats, counting: bool, shown_budget: &std::sync::atomic::AtomicI64) -> Result<(), Failure> {
    let mut g = Gen::new(gates, Tape::new(tape));
    let lib = g.library(3);
    let mut p = Printer::new(gates, g.t.rest());
    p.library(&lib);
    let mut lex = p.finish();
    gates.take_hits();
    gates.take_wanted();
    let derived = crate::tape::derived(tape, 96);
    let mut choice = Tape::new(&derived);
    let glue: Vec<usize> = lex.iter().enumerate().filter(|(_, l)| l.join == crate::lexeme::Join::Glue).map(|(i, _)| i).collect();
    let how = if !glue.is_empty() && choice.ratio(2, 3) {
        // forbidden trivia at a glue joint
        let k = glue[choice.below(glue.len())];
        match choice.below(3) {
            0 => lex[k].join = crate::lexeme::Join::Space,
            1 => lex[k].join = crate::lexeme::Join::Line,
            _ => lex.insert(k, Lexeme { text: "(* c *)".into(), class: Class::Punct, join: crate::lexeme::Join::Glue, mark: None }),
        }
        "blank-at-glue-joint"
    } else {
        crate::props::c04::mutate_lexemes(&mut lex, &mut choice);
        "token-mutation"
    };
    let (lay, _) = layout(&lex, &SpellOpts::canonical(), &mut Tape::empty());
    let text = lay.text;
    let fid = FileId::from_string("c05e.st");
    let r = match crate::panicx::catch(|| parse_program(&text, &fid, &ParseOptions::default())) {
        Ok(r) => r,
        Err(_) => return Ok(()), // C04's business
    };
    let d = match r {
        Err(d) if d.code == "P0002" => d,
        _ => {
            if counting {
                stats.case(false, hash_str(&text));
                stats.class("e.no-syntax-error(skipped)");
            }
            return Ok(());
        }
    };
    let msg = d.primary.message.clone();
    let quoted = msg.find("Found text '").and_then(|a| {
        let rest = &msg[a + 12..];
        rest.rfind("' that matched token").map(|b| rest[..b].to_string())
    });
    let (s, e) = (d.primary.location.start, d.primary.location.end);
    if counting {
        stats.case(true, hash_str(&text));
        stats.class(&format!("e.syntax-error.{}", how));
    }
    let fail = |kind: &str, detail: String| Failure::new("syntax-error-label", kind, detail, json!({"text": text, "message": msg}));
    if d.primary.file_id.to_string() != "c05e.st" {
        return Err(fail("label-names-another-file", format!("P0002 label names the file {:?}, the text was parsed as \"c05e.st\"", d.primary.file_id.to_string())));
    }
    if e > text.len() || s > e || !text.is_char_boundary(s) || !text.is_char_boundary(e) {
        return Err(fail("label-outside-file", format!("P0002 label {}..{} is not inside the text ({} bytes)", s, e, text.len())));
    }
    if let Some(q) = quoted {
        // (the message writes line breaks and tabs as escapes)
        let shown = text[s..e].replace('\n', "\\n").replace('\r', "\\r").replace('\t', "\\t");
        if text[s..e] != q && shown != q {
            return Err(fail("label-wrong-construct", format!("P0002 says it found the text {:?}, its label {}..{} covers {:?}", q, s, e, &text[s..e])));
        }
        if counting {
            stats.class("e.label-equals-quoted-text");
        }
    }
    if counting && shown_budget.fetch_sub(1, std::sync::atomic::Ordering::Relaxed) > 0 {
        stats.class("e.shown-positions(check+echo)");
        check_shown_error_position(&text).map_err(|(k2, d2)| Failure::new("shown-error-position", &k2, d2, json!({"text": text})))?;
    }
    Ok(())
}

/// (g) name clashes: two declarations (every ordered pair of seven declaration forms) that share a
/// name, in one file or in two, the second spelling in another letter case: every label of every
/// diagnostic the analysis returns names one of the files, lies inside it and covers an occurrence
/// of the shared name (the construct "duplicated name" diagnostics talk about).  Whether and with
/// which code the set is rejected is C03's business.
pub fn check_clash_labels(files: &[(String, String)], name: &str) -> Result<bool, (String, String)> {
    let mut libs = vec![];
    for (f, text) in files {
        match crate::panicx::catch(|| parse_program(text, &FileId::from_string(f), &ParseOptions::default())) {
            Ok(Ok(l)) => libs.push(l),
            _ => return Ok(false),
        }
    }
    let refs: Vec<&ironplc_dsl::common::Library> = libs.iter().collect();
    let ds = match crate::panicx::catch(|| analyze(&refs)) {
        Ok(Err(ds)) => ds,
        _ => return Ok(false),
    };
    let mut judged = false;
    for d in ds.iter().filter(|d| d.code != "P9999") {
        for (which, l) in std::iter::once(("primary", &d.primary)).chain(d.secondary.iter().map(|l| ("secondary", l))) {
            let fname = l.file_id.to_string();
            let text = match files.iter().find(|(f, _)| *f == fname) {
                Some((_, t)) => t,
                None => return Err(("clash-label-file".into(), format!("{}: the {} label {:?} names the file {:?}, which is none of the files of the set", d.code, which, l.message, fname))),
            };
            let (s, e) = (l.location.start, l.location.end);
            if s > e || e > text.len() || !text.is_char_boundary(s) || !text.is_char_boundary(e) {
                return Err(("clash-label-range".into(), format!("{}: the {} label {}..{} is not a range of {:?} ({} bytes)", d.code, which, s, e, fname, text.len())));
            }
            label_on_word_boundaries(s, e, text).map_err(|m| ("clash-label-range".to_string(), format!("{}: {} label: {}", d.code, which, m)))?;
            if d.code == "P0019" || d.code == "P0020" {
                if !text[s..e].eq_ignore_ascii_case(name) {
                    return Err(("clash-label-text".into(), format!("{}: the {} label {}..{} of {:?} covers {:?}, the duplicated name is {:?}", d.code, which, s, e, fname, &text[s..e], name)));
                }
                judged = true;
            }
        }
    }
    Ok(judged)
}

/// the position `ironplcc check` prints for a duplicated-name diagnostic (`file:L:C`) and the one
/// the language server publishes are file and start of the PRIMARY label, also when another label
/// of the same diagnostic stands earlier in the same file
pub fn check_clash_shown(files: &[(String, String)]) -> Result<bool, (String, String)> {
    use crate::drive::*;
    let mut libs = vec![];
    for (f, text) in files {
        match crate::panicx::catch(|| parse_program(text, &FileId::from_string(f), &ParseOptions::default())) {
            Ok(Ok(l)) => libs.push(l),
            _ => return Ok(false),
        }
    }
    let refs: Vec<&ironplc_dsl::common::Library> = libs.iter().collect();
    let ds = match crate::panicx::catch(|| analyze(&refs)) {
        Ok(Err(ds)) => ds,
        _ => return Ok(false),
    };
    let d = match ds.iter().find(|d| d.code == "P0019" || d.code == "P0020") {
        Some(d) if ds.len() == 1 => d,
        _ => return Ok(false),
    };
    let pfile = d.primary.file_id.to_string();
    let ptext = match files.iter().find(|(f, _)| *f == pfile) {
        Some((_, t)) => t,
        None => return Ok(false), // reported by check_clash_labels
    };
    let (line, _, col_chars, col_utf16) = PosIndex::new(ptext).pos(d.primary.location.start.min(ptext.len()));
    let dir = Scratch::new("c05g");
    let mut paths = vec![];
    for (f, text) in files {
        paths.push(dir.write(f, text.as_bytes()).to_string_lossy().to_string());
    }
    let mut args = vec!["check".to_string()];
    args.extend(paths.iter().cloned());
    let out = run_cli(&args, None);
    if !out.timed_out {
        let shown: Vec<(String, usize, usize)> = parse_cli_diags(&out.stderr).into_iter().filter(|x| x.code == d.code && x.file.is_some()).map(|x| (x.file.clone().unwrap_or_default(), x.line, x.col)).collect();
        // (which of two equal declarations in two files is "the duplicate" follows the project's file order, not the argument order: judged only when the file agrees)
        let same_file: Vec<&(String, usize, usize)> = shown.iter().filter(|(f, _, _)| f.ends_with(&pfile)).collect();
        if !shown.is_empty() && (files.len() == 1 || !same_file.is_empty()) && !same_file.iter().any(|(_, l, c)| (*l, *c) == (line + 1, col_chars + 1)) {
            return Err(("clash-cli-position".into(), format!("{}: the primary label starts at {}:{}:{} (1-based), `ironplcc check` shows {:?}", d.code, pfile, line + 1, col_chars + 1, shown)));
        }
    }
    if files.len() == 1 {
        let uri = format!("file://{}", paths[0]);
        let run = lsp_run(&[lsp_initialize(0), lsp_initialized(), lsp_did_open(&uri, 1, &files[0].1), lsp_shutdown(1), lsp_exit()]);
        if !run.timed_out {
            for f in run.frames.iter().filter(|f| f["method"] == "textDocument/publishDiagnostics") {
                let shown: Vec<(u64, u64)> = f["params"]["diagnostics"].as_array().cloned().unwrap_or_default().iter().filter(|x| x["code"] == d.code.as_str()).map(|x| (x["range"]["start"]["line"].as_u64().unwrap_or(u64::MAX), x["range"]["start"]["character"].as_u64().unwrap_or(u64::MAX))).collect();
                if !shown.is_empty() && !shown.contains(&(line as u64, col_utf16 as u64)) && !shown.contains(&(line as u64, col_chars as u64)) {
                    return Err(("clash-lsp-position".into(), format!("{}: the primary label starts at line {} character {} (0-based), publishDiagnostics shows {:?}", d.code, line, col_chars, shown)));
                }
            }
        }
    } else {
        // several documents: every position the server publishes - the range of a diagnostic and,
        // when the server gives them, the locations of its related information (the other labels) -
        // names a document of the session and lies inside THAT document, on word boundaries; for a
        // duplicated name, the text there is the name
        let uris: Vec<String> = paths.iter().map(|p| format!("file://{}", p)).collect();
        let mut msgs = vec![lsp_initialize(0), lsp_initialized()];
        for (k, (_, text)) in files.iter().enumerate() {
            msgs.push(lsp_did_open(&uris[k], 1, text));
        }
        msgs.push(lsp_shutdown(1));
        msgs.push(lsp_exit());
        let run = lsp_run(&msgs);
        if !run.timed_out {
            let slice_of = |uri: &str, range: &serde_json::Value| -> Result<(String, usize, usize), String> {
                let k = uris.iter().position(|u| u == uri).ok_or_else(|| format!("names {} which is no document of the session", uri))?;
                let text = &files[k].1;
                let at = |p: &serde_json::Value| crate::props::c15::offset_of(text, p["line"].as_u64().unwrap_or(u64::MAX) as usize, p["character"].as_u64().unwrap_or(u64::MAX) as usize, crate::props::c15::Unit::Utf16);
                match (at(&range["start"]), at(&range["end"])) {
                    (Some(s), Some(e)) if s <= e => {
                        label_on_word_boundaries(s, e, text)?;
                        Ok((text[s..e].to_string(), s, e))
                    }
                    _ => Err(format!("range {} is not a range of {}", range, files[k].0)),
                }
            };
            for f in run.frames.iter().filter(|f| f["method"] == "textDocument/publishDiagnostics") {
                let puri = f["params"]["uri"].as_str().unwrap_or("");
                for x in f["params"]["diagnostics"].as_array().cloned().unwrap_or_default() {
                    if x["code"] == "P0030" {
                        continue;
                    }
                    let main = slice_of(puri, &x["range"]).map_err(|e| ("lsp-range".to_string(), format!("{}: the published range {}", x["code"], e)))?;
                    for r in x["relatedInformation"].as_array().cloned().unwrap_or_default() {
                        let ruri = r["location"]["uri"].as_str().unwrap_or("");
                        let rel = slice_of(ruri, &r["location"]["range"]).map_err(|e| ("lsp-related-location".to_string(), format!("{}: related information {:?} {}", x["code"], r["message"].as_str().unwrap_or(""), e)))?;
                        let word = |t: &str| !t.is_empty() && t.bytes().all(|c| c.is_ascii_alphanumeric() || c == b'_');
                        if (x["code"] == "P0019" || x["code"] == "P0020") && word(&main.0) && word(&rel.0) && !main.0.eq_ignore_ascii_case(&rel.0) {
                            return Err(("lsp-related-location".into(), format!("{}: the diagnostic is about {:?}, its related location {:?} in {} covers {:?}", x["code"], main.0, r["message"].as_str().unwrap_or(""), ruri, rel.0)));
                        }
                    }
                }
            }
        }
    }
    Ok(true)
}

/// generic label oracles over a set of files: every label of every diagnostic names a file of the
/// set, is a range of it on character and word boundaries, and a one-word primary label is the name
/// the description states (name= / variable= / identifier=)
pub fn check_set_labels(files: &[(String, String)]) -> Result<usize, (String, String)> {
    let mut libs = vec![];
    for (f, text) in files {
        match crate::panicx::catch(|| parse_program(text, &FileId::from_string(f), &ParseOptions::default())) {
            Ok(Ok(l)) => libs.push(l),
            _ => return Ok(0),
        }
    }
    let refs: Vec<&ironplc_dsl::common::Library> = libs.iter().collect();
    let ds = match crate::panicx::catch(|| analyze(&refs)) {
        Ok(Err(ds)) => ds,
        _ => return Ok(0),
    };
    let mut judged = 0;
    for d in ds.iter().filter(|d| d.code != "P9999") {
        for (which, l) in std::iter::once(("primary", &d.primary)).chain(d.secondary.iter().map(|l| ("secondary", l))) {
            let fname = l.file_id.to_string();
            let text = match files.iter().find(|(f, _)| *f == fname) {
                Some((_, t)) => t,
                None => return Err(("label-file".into(), format!("{}: the {} label {:?} names the file {:?}, which is none of the files of the set", d.code, which, l.message, fname))),
            };
            let (s, e) = (l.location.start, l.location.end);
            if s > e || e > text.len() || !text.is_char_boundary(s) || !text.is_char_boundary(e) {
                return Err(("label-range".into(), format!("{}: the {} label {}..{} is not a range of {:?} ({} bytes)", d.code, which, s, e, fname, text.len())));
            }
            label_on_word_boundaries(s, e, text).map_err(|m| ("label-range".to_string(), format!("{}: {} label: {}", d.code, which, m)))?;
            if which == "primary" {
                let covered = &text[s..e];
                if !covered.is_empty() && covered.bytes().all(|c| c.is_ascii_alphanumeric() || c == b'_') {
                    for item in &d.described {
                        if let Some((k, v)) = item.split_once('=') {
                            if (k == "name" || k == "variable" || k == "identifier") && !v.is_empty() && v.bytes().all(|c| c.is_ascii_alphanumeric() || c == b'_') {
                                if !covered.eq_ignore_ascii_case(v) {
                                    return Err(("label-wrong-construct".into(), format!("{} says {}={} but its primary label {}..{} of {:?} covers {:?}", d.code, k, v, s, e, fname, covered)));
                                }
                                judged += 1;
                            }
                        }
                    }
                }
            }
        }
    }
    Ok(judged)
}

/// (h) references that end nowhere, reached through a chain: an enumeration alias chain of 0..3
/// links (`A : B := v;`) whose last link names an enumeration that is declared nowhere, a variable
/// typed with the head of the chain; one file or two (types / use), declarations in either order,
/// LF or CRLF, a non-ASCII comment in front.  Judged by the generic label oracles.
fn chain_grid(rep: &mut Report) {
    let mut o = crate::runner::Outcome { stats: Stats::default(), failures: vec![] };
    let names = ["LEVEL_ALIAS", "OUTER", "Colour_2", "MISSING_ENUM"];
    for links in 0..=3usize {
        for order in 0..2 {
            for two_files in [false, true] {
                for style in 0..3 {
                    // chain: names[0] : names[1] := v; ... names[links-1] : MISSING := v;
                    let chain: Vec<String> = (0..links).map(|i| format!("{} : {} := lo_v;", names[i], if i + 1 == links { "MISSING_ENUM" } else { names[i + 1] })).collect();
                    let mut decls = chain.clone();
                    if order == 1 {
                        decls.reverse();
                    }
                    let head = if links == 0 { "MISSING_ENUM" } else { names[0] };
                    let types = if decls.is_empty() { String::new() } else { format!("TYPE\n{}\nEND_TYPE\n", decls.join("\n")) };
                    let usage = format!("PROGRAM chain_p\nVAR\nchain_x : {} := lo_v;\nEND_VAR\nEND_PROGRAM\n", head);
                    let dress = |t: String| match style {
                        0 => t,
                        1 => format!("(* é ü *)\n\n{}", t).replace('\n', "\r\n"),
                        _ => format!("   (* c *) {}", t),
                    };
                    let files: Vec<(String, String)> = if two_files {
                        if types.is_empty() {
                            continue;
                        }
                        vec![("a_types.st".to_string(), dress(types)), ("b_use.st".to_string(), dress(usage))]
                    } else {
                        vec![("one.st".to_string(), dress(if order == 0 { format!("{}{}", types, usage) } else { format!("{}{}", usage, types) }))]
                    };
                    o.stats.case(true, hash_str(&format!("{:?}", files)));
                    match check_set_labels(&files) {
                        Ok(0) => o.stats.class("h.chain.not-judged"),
                        Ok(_) => o.stats.class(&format!("h.chain.judged.links{}", links)),
                        Err((k, d)) => o.failures.push((Failure::new("set-labels", &k, d, json!({"files": files})), vec![])),
                    }
                }
            }
        }
    }
    rep.add(o);
}

/// (i) the label of a recursion diagnostic (P0010 / P0013) names a declaration that takes part in the
/// recursion: one that lies on a cycle of the reference graph.  All digraphs on <= 3 nodes (and a
/// sample on 4) in C07's three realisations, alone and behind unrelated declarations, in one file
/// and with the unrelated declarations in a file of their own
pub fn check_cycle_label(files: &[(String, String)], on_cycle: &[String]) -> Result<bool, (String, String)> {
    let mut libs = vec![];
    for (f, text) in files {
        match crate::panicx::catch(|| parse_program(text, &FileId::from_string(f), &ParseOptions::default())) {
            Ok(Ok(l)) => libs.push(l),
            _ => return Ok(false),
        }
    }
    let refs: Vec<&ironplc_dsl::common::Library> = libs.iter().collect();
    let ds = match crate::panicx::catch(|| analyze(&refs)) {
        Ok(Err(ds)) => ds,
        _ => return Ok(false),
    };
    let mut judged = false;
    for d in ds.iter().filter(|d| d.code == "P0010" || d.code == "P0013") {
        let fname = d.primary.file_id.to_string();
        let text = match files.iter().find(|(f, _)| *f == fname) {
            Some((_, t)) => t,
            None => return Err(("cycle-label-file".into(), format!("{}: the label names {:?}, which is no file of the set", d.code, fname))),
        };
        let (s, e) = (d.primary.location.start, d.primary.location.end);
        if s > e || e > text.len() || !text.is_char_boundary(s) || !text.is_char_boundary(e) {
            return Err(("cycle-label-range".into(), format!("{}: label {}..{} is no range of {}", d.code, s, e, fname)));
        }
        let covered = text[s..e].to_ascii_lowercase();
        if !on_cycle.iter().any(|n| *n == covered) {
            return Err(("cycle-label-off-the-cycle".into(), format!("{}: the label covers {:?} in {}; the declarations that lie on a cycle are {:?}", d.code, &text[s..e], fname, on_cycle)));
        }
        judged = true;
    }
    Ok(judged)
}

/// (j) a label that says "First ..." ("First use of name", "First instance", "First declaration") covers
/// the FIRST occurrence of the word it covers, however often the name is repeated: structures and
/// enumerations that repeat a name two, three and four times, in the same and in other letter cases
fn first_label_grid(rep: &mut Report) {
    let mut o = crate::runner::Outcome { stats: Stats::default(), failures: vec![] };
    let spell = |k: usize| ["dup_zz", "DUP_ZZ", "Dup_Zz", "dup_ZZ"][k % 4];
    let mut texts: Vec<String> = vec![];
    for reps in 2..=4usize {
        for cases in 0..2 {
            for other_between in [false, true] {
                let names: Vec<String> = (0..reps).map(|k| if cases == 0 { "dup_zz".to_string() } else { spell(k).to_string() }).collect();
                let mut elems: Vec<String> = vec![];
                let mut vals: Vec<String> = vec![];
                for (k, n) in names.iter().enumerate() {
                    elems.push(format!("{} : INT;", n));
                    vals.push(n.clone());
                    if other_between && k + 1 < reps {
                        elems.push(format!("other_{} : BOOL;", k));
                        vals.push(format!("other_{}", k));
                    }
                }
                texts.push(format!("TYPE\nrec_zz : STRUCT\n{}\nEND_STRUCT;\nEND_TYPE\n", elems.join("\n")));
                texts.push(format!("TYPE\nen_zz : ({});\nEND_TYPE\n", vals.join(", ")));
                texts.push(format!("(* dup_zz *) TYPE\n  en_zz :\n ({}) := other_9;\nEND_TYPE\n", vals.join(",\n  ")).replace("other_9", &vals[0]));
            }
        }
    }
    for text in texts {
        o.stats.case(true, hash_str(&text));
        let lib = match crate::panicx::catch(|| parse_program(&text, &FileId::from_string("first.st"), &ParseOptions::default())) {
            Ok(Ok(l)) => l,
            _ => {
                o.stats.class("j.first-label.not-judged");
                continue;
            }
        };
        let ds = match crate::panicx::catch(|| analyze(&[&lib])) {
            Ok(Err(ds)) => ds,
            _ => {
                o.stats.class("j.first-label.not-judged");
                continue;
            }
        };
        let mut judged = false;
        for d in ds.iter().filter(|d| d.code == "P0003" || d.code == "P0005") {
            for l in std::iter::once(&d.primary).chain(d.secondary.iter()) {
                if !l.message.starts_with("First") {
                    continue;
                }
                let (s, e) = (l.location.start, l.location.end);
                if s > e || e > text.len() || !text.is_char_boundary(s) || !text.is_char_boundary(e) {
                    o.failures.push((Failure::new("first-label", "range", format!("{}: label {:?} {}..{} is no range of the text", d.code, l.message, s, e), json!({"text": text})), vec![]));
                    continue;
                }
                let word = &text[s..e];
                // (occurrences outside comments: the texts have at most one comment, in front)
                let body_from = text.find("TYPE").unwrap_or(0);
                let first = occurrences(&text[body_from..], word).first().map(|p| p + body_from);
                judged = true;
                if first != Some(s) {
                    o.failures.push((
                        Failure::new("first-label", "not-the-first", format!("{}: the label {:?} covers {:?} at byte {}; the first occurrence of that name is at byte {:?}", d.code, l.message, word, s, first), json!({"text": text})),
                        vec![],
                    ));
                }
            }
        }
        o.stats.class(if judged { "j.first-label.judged" } else { "j.first-label.not-judged" });
    }
    rep.add(o);
}

fn cycle_grid(rep: &mut Report) {
    use crate::props::c07::{realise_fb, realise_mixed, realise_type, Graph};
    let mut items: Vec<(usize, u64, usize)> = vec![];
    for n in 1..=3usize {
        for bits in 0..(1u64 << (n * n)) {
            for real in 0..3 {
                items.push((n, bits, real));
            }
        }
    }
    for k in 0..600u64 {
        let bits = crate::tape::mix(k ^ 0xc1c1e) & 0xffff;
        items.push((4, bits, (k % 3) as usize));
    }
    let out = run_items(&items, 16, |&(n, bits, real), stats| {
        let g = Graph::from_bits(n, bits);
        if !g.cyclic() {
            return Ok(());
        }
        // nodes on a cycle: i reaches itself
        let mut reach = g.adj.clone();
        for k in 0..n {
            for i in 0..n {
                for j in 0..n {
                    if reach[i][k] && reach[k][j] {
                        reach[i][j] = true;
                    }
                }
            }
        }
        let salt = crate::tape::mix(bits ^ (n as u64) << 20 ^ real as u64);
        let (text, stem) = match real {
            0 => (realise_fb(&g, salt, false).0, "fb"),
            1 => (realise_type(&g, salt, false).0, "t"),
            _ => match realise_mixed(&g, salt, false) {
                Some((t, _)) => (t, "n"),
                None => return Ok(()),
            },
        };
        let on_cycle: Vec<String> = (0..n).filter(|&i| reach[i][i]).flat_map(|i| vec![format!("{}{}", stem, i), format!("fb{}", i), format!("t{}", i), format!("ts{}", i), crate::props::c07::STANDARD_NAMES[i].to_string()]).collect();
        let front = "TYPE\nlevel_zz : (low_zz, high_zz);\ncolour_zz : (red_zz, green_zz);\nEND_TYPE\nFUNCTION_BLOCK other_zz\nVAR\nq_zz : level_zz;\nEND_VAR\nEND_FUNCTION_BLOCK\n";
        let arrangements: Vec<Vec<(String, String)>> = vec![
            vec![("one.st".to_string(), text.clone())],
            vec![("one.st".to_string(), format!("{}{}", front, text))],
            vec![("one.st".to_string(), format!("{}{}", text, front))],
            vec![("a_front.st".to_string(), front.to_string()), ("b_cycle.st".to_string(), text.clone())],
            vec![("a_cycle.st".to_string(), text.clone()), ("b_front.st".to_string(), front.to_string())],
        ];
        for files in arrangements {
            stats.case(true, hash_str(&format!("{:?}", files)));
            match check_cycle_label(&files, &on_cycle) {
                Ok(true) => stats.class(&format!("i.cycle-label.judged.{}", stem)),
                Ok(false) => stats.class("i.cycle-label.not-judged"),
                Err((k, d)) => return Err(Failure::new("cycle-label", &k, d, json!({"files": files, "on_cycle": on_cycle}))),
            }
        }
        Ok(())
    });
    rep.add(out);
}

fn clash_forms(name: &str, tag: &str) -> Vec<(&'static str, String)> {
    vec![
        ("enum", format!("TYPE\n{} : (v1_{t}, v2_{t});\nEND_TYPE\n", name, t = tag)),
        ("struct", format!("TYPE\n{} : STRUCT\nm_{t} : INT;\nEND_STRUCT;\nEND_TYPE\n", name, t = tag)),
        ("subrange", format!("TYPE\n{} : INT(1..5);\nEND_TYPE\n", name)),
        ("array", format!("TYPE\n{} : ARRAY[1..2] OF INT;\nEND_TYPE\n", name)),
        ("function", format!("FUNCTION {} : INT\nVAR_INPUT\nin_{t} : INT;\nEND_VAR\n{} := in_{t};\nEND_FUNCTION\n", name, name, t = tag)),
        ("function_block", format!("FUNCTION_BLOCK {}\nVAR\nv_{t} : INT;\nEND_VAR\nv_{t} := 1;\nEND_FUNCTION_BLOCK\n", name, t = tag)),
        ("program", format!("PROGRAM {}\nVAR\nv_{t} : INT;\nEND_VAR\nv_{t} := 1;\nEND_PROGRAM\n", name, t = tag)),
    ]
}

fn clash_grid(rep: &mut Report) {
    let mut o = crate::runner::Outcome { stats: Stats::default(), failures: vec![] };
    let names = [("Motor", "Motor"), ("Motor", "MOTOR"), ("valve_1", "Valve_1"), ("X", "x")];
    let heads = ["", "(* header ü *)\n\n", "\r\n  "];
    for (ni, (n1, n2)) in names.iter().enumerate() {
        let a = clash_forms(n1, "a");
        let b = clash_forms(n2, "b");
        for (ka, ta) in a.iter() {
            for (kb, tb) in b.iter() {
                for two_files in [false, true] {
                    let head = heads[(ni + ka.len() + kb.len()) % heads.len()];
                    let files: Vec<(String, String)> = if two_files {
                        vec![("a_first.st".to_string(), format!("{}{}", head, ta)), ("b_second.st".to_string(), format!("{}{}", head, tb))]
                    } else {
                        vec![("one.st".to_string(), format!("{}{}\n{}", head, ta, tb))]
                    };
                    let key = format!("{:?}", files);
                    let r = check_clash_labels(&files, n1);
                    o.stats.case(true, hash_str(&key));
                    o.stats.class(&format!("g.clash.{}", if two_files { "two-files" } else { "one-file" }));
                    if ni == 1 && matches!(r, Ok(true)) {
                        match check_clash_shown(&files) {
                            Ok(true) => o.stats.class("g.clash.shown-positions(cli+lsp)"),
                            Ok(false) => o.stats.class("g.clash.shown-positions.not-judged"),
                            Err((k, d)) => o.failures.push((Failure::new("clash-shown", &k, d, json!({"files": files, "name": n1})), vec![])),
                        }
                    }
                    match r {
                        Ok(true) => o.stats.class(&format!("g.clash.judged.{}+{}", ka, kb)),
                        Ok(false) => o.stats.class("g.clash.not-judged(no P0019/P0020)"),
                        Err((k, d)) => o.failures.push((Failure::new("clash-labels", &k, d, json!({"files": files, "name": n1})), vec![])),
                    }
                }
            }
        }
    }
    rep.add(o);
}

/// (f) positions beyond 65 535: a line number, a column, a byte offset or a token length that
/// does not fit 16 bits is a position like any other (in-process tiling, the `file:L:C` of the
/// command line, the range of the language server)
fn large_positions(rep: &mut Report) {
    let variants: Vec<(&'static str, String, String)> = vec![
        ("70000-line-feeds-before", "\n".repeat(70_000), String::new()),
        ("70000-crlf-before", "\r\n".repeat(70_000), String::new()),
        ("66000-comment-lines-before", "(* c *)\n".repeat(66_000), String::new()),
        ("70000-blanks-before-on-the-line", String::new(), " ".repeat(70_000)),
        ("70000-byte-comment-before-on-the-line", String::new(), format!("(*{}*) ", "x".repeat(70_000))),
        ("70000-byte-string-before-on-the-line", String::new(), format!("s := '{}'; ", "y".repeat(70_000))),
    ];
    let out = run_items(&variants, 6, |(name, before, inline), stats| {
        use crate::drive::*;
        let text = format!("{}PROGRAM p\nVAR\nx : INT;\ns : STRING;\nEND_VAR\n{}x := nowhere;\nEND_PROGRAM\n", before, inline);
        let fail = |kind: &str, detail: String| Failure::new("large-positions", kind, format!("{}: {}", name, detail), json!({"variant": name}));
        stats.case(true, hash_str(name));
        stats.class(&format!("large-positions.{}", name));
        check_tiling(&text).map_err(|(k, d)| fail(&k, d))?;
        let at = text.find("nowhere").unwrap();
        let (line, _, col, _) = PosIndex::new(&text).pos(at);
        let dir = Scratch::new("c05f");
        let p = dir.write("big.st", text.as_bytes()).to_string_lossy().to_string();
        let out = run_cli(&["check".to_string(), p.clone()], None);
        if out.timed_out {
            stats.inconclusive += 1;
        } else {
            let shown: Vec<(usize, usize)> = parse_cli_diags(&out.stderr).into_iter().filter(|x| x.code == "P0015" && x.file.is_some()).map(|x| (x.line, x.col)).collect();
            if shown.is_empty() {
                return Err(fail("cli-no-diagnostic", format!("`check` reports no P0015 with a location (exit {:?})", out.status)));
            }
            if !shown.contains(&(line + 1, col + 1)) {
                return Err(fail("cli-position", format!("the undefined variable is at line {} column {} (1-based), the command line shows {:?}", line + 1, col + 1, shown)));
            }
        }
        let uri = format!("file://{}", p);
        let run = lsp_run(&[lsp_initialize(0), lsp_initialized(), lsp_did_open(&uri, 1, &text), lsp_semantic_tokens(json!(5), &uri), lsp_shutdown(6), lsp_exit()]);
        if run.timed_out {
            stats.inconclusive += 1;
            return Ok(());
        }
        let mut seen = false;
        for f in &run.frames {
            if f["method"] == "textDocument/publishDiagnostics" {
                for x in f["params"]["diagnostics"].as_array().cloned().unwrap_or_default() {
                    if x["code"] == "P0015" {
                        seen = true;
                        let got = (x["range"]["start"]["line"].as_u64().unwrap_or(u64::MAX), x["range"]["start"]["character"].as_u64().unwrap_or(u64::MAX));
                        if got != (line as u64, col as u64) {
                            return Err(fail("lsp-position", format!("the undefined variable is at line {} character {} (0-based), publishDiagnostics shows {:?}", line, col, got)));
                        }
                    }
                }
            }
        }
        if !seen {
            return Err(fail("lsp-no-diagnostic", "publishDiagnostics carries no P0015".into()));
        }
        Ok(())
    });
    rep.add(out);
}

pub fn run(ctx: &Ctx) -> i32 {
    let clock = Clock::start();
    let mut rep = Report::new(
        "C05",
        ctx.tier,
        ctx.seed,
        "exploration",
        "(a) tokens of generated programs in wild spelling (comments before tokens on a line, multi-line comments, CRLF, non-ASCII, OSCAT headers, one unlexable run - visible junk or an invisible character such as U+FEFF in mid-file, a no-break or zero-width blank, a control character) must tile the source: text == source[span], contiguous except reported P0031 ranges, char boundaries, line = number of LF before the start, column = distance from the line start in ONE unit (bytes, chars or UTF-16) for the whole file; (b) every Id reached by the dsl Visitor carries the file id and a span whose text is its spelling and which is an identifier lexeme of the harness' own lexeme table, and every identifier lexeme is the span of some Id; (c) units with one planted fault (C02 planter): every label lies inside the file on char boundaries and the primary label of the planted fault's diagnostic covers the marker the planter wrote (name-carrying codes: exactly an occurrence of the name; call-site codes: the invocation); for a sample of them the `file:L:C` printed by `ironplcc check` and the range.start of the LSP publishDiagnostics equal the recomputed line / column of that label start; (e) programs broken by a blank / comment at a joint where IEC forbids one or by token mutations: the primary label of the P0002 diagnostic covers exactly the text its message quotes; (f) six texts whose positions exceed 65 535 (line feeds, CRLF, comment lines, blanks / a comment / a string on the line before the fault): tiling in process, `file:L:C` of the command line and range.start of the language server; (g) name clashes over 49 pairs of declaration forms and (h) alias chains that end nowhere: every label names a file of the set, lies in it on word boundaries, a one-word primary label is the name the description states, and for two documents every range and related location the language server publishes lies in the document it names; (i) all cyclic digraphs on <= 3 nodes and 600 on 4 nodes in C07's three realisations, alone / behind / in front of unrelated declarations / with those in a file of their own: the primary label of P0010 / P0013 covers the name of a declaration that lies on a cycle. Non-trivial (a): comment / non-ASCII / CRLF / lexical error present; (c) always. Distinct by text hash.",
    );
    let gates = ctx.gates_for("C05");
    let off = gates.off_list();
    let cases = ctx.tier.pick(150_000, 2_000_000);
    let out = run_tapes("C05ab", ctx.seed, ctx.threads, cases, 900, |tape, stats, counting| {
        let g = Gates::with_off(off.clone());
        check_tape_ab(tape, &g, stats, counting)
    });
    rep.add(out);
    let shown_budget = std::sync::atomic::AtomicI64::new(ctx.tier.pick(300, 5000));
    let out = run_tapes("C05c", ctx.seed, ctx.threads, cases / 2, 900, |tape, stats, counting| {
        let g = Gates::with_off(off.clone());
        check_tape_c(tape, &g, stats, counting, &shown_budget)
    });
    rep.add(out);
    crate::fuzzrun::tape_campaign(ctx, &mut rep, "C05", &gates);
    let shown_budget_e = std::sync::atomic::AtomicI64::new(ctx.tier.pick(200, 3000));
    let out = run_tapes("C05e", ctx.seed, ctx.threads, cases / 3, 700, |tape, stats, counting| {
        let g = Gates::with_off(off.clone());
        check_tape_e(tape, &g, stats, counting, &shown_budget_e)
    });
    rep.add(out);
    // a fixed family: lexical errors and syntax errors at chosen positions through every sub-command
    {
        let mut o = crate::runner::Outcome { stats: Stats::default(), failures: vec![] };
        let texts: Vec<String> = vec![
            "FUNCTION_BLOCK f\nVAR\nx : INT;\nEND_VAR\nx := 1 ? 2;\nEND_FUNCTION_BLOCK\n".into(),
            "FUNCTION_BLOCK f\nVAR\nx : INT;\nEND_VAR\n\n   x := := 1;\nEND_FUNCTION_BLOCK\n".into(),
            "(* ü *) ~".into(),
            "TYPE\r\n  a : (x, y);\r\n  (* é *) b : ;\r\nEND_TYPE\r\n".into(),
            "PROGRAM p\nVAR\ns : STRING := 'äö';  t : INT := ;\nEND_VAR\nEND_PROGRAM\n".into(),
        ];
        for t in texts {
            o.stats.case(true, hash_str(&t));
            o.stats.class("e.shown-positions.fixed");
            match check_shown_error_position(&t) {
                Ok(true) => {}
                Ok(false) => o.stats.class("e.shown-positions.fixed.not-judged"),
                Err((k, d)) => o.failures.push((Failure::new("shown-error-position", &k, d, json!({"text": t})), vec![])),
            }
        }
        rep.add(o);
    }
    large_positions(&mut rep);
    clash_grid(&mut rep);
    chain_grid(&mut rep);
    cycle_grid(&mut rep);
    first_label_grid(&mut rep);
    rep.replay_witnesses(&ctx.findings, &|w| witness(w, &Gates::all_on()));
    rep.extra.insert("gates_off".into(), json!(off));
    rep.assumptions = vec![
        "form feed is not used as trivia here (whether it ends a line is not settled by the property)".into(),
        "P9999 diagnostics and file-level labels are exempt".into(),
    ];
    rep.wall_s = clock.secs();
    rep.finish()
}

/// witness {"kind":"tiling","text":..}  |  {"kind":"label","text":..,"code":..,"marker":..,"fault":"UndeclaredVar"}
pub fn witness(w: &Value, gates: &Gates) -> Result<(), String> {
    let text = w["text"].as_str().ok_or("no text")?;
    match w["kind"].as_str().unwrap_or("") {
        "tiling" => check_tiling(text).map_err(|(k, d)| format!("{}: {}", k, d)),
        "label" => {
            let kind = ALL_FAULTS.iter().find(|k| k.code() == w["code"].as_str().unwrap_or("")).ok_or("unknown code")?;
            let planted = Planted { kind: *kind, site: 0, site_class: String::new(), marker: w["marker"].as_str().map(String::from), decl_index: 0 };
            match check_labels(text, &planted, gates) {
                Ok(true) => Ok(()),
                Ok(false) => Err("witness not judged (does not parse, analyses Ok, or lacks the code)".into()),
                Err((k, d)) => Err(format!("{}: {}", k, d)),
            }
        }
        "shown-error-position" => match check_shown_error_position(text) {
            Ok(true) => Ok(()),
            Ok(false) => Err("witness not judged (the text parses)".into()),
            Err((k, d)) => Err(format!("{}: {}", k, d)),
        },
        k => Err(format!("unknown witness kind {}", k)),
    }
}

pub fn replay(ctx: &Ctx, v: &Value) -> i32 {
    let text = v["inputs"]["text"].as_str().unwrap_or("");
    let gates = ctx.gates_for("C05");
    let r: Result<(), String> = match v["check"].as_str().unwrap_or("") {
        "tokens-tile" => check_tiling(text).map_err(|(k, d)| format!("{}: {}", k, d)),
        "witness" => witness(&v["inputs"], &Gates::all_on()),
        "shown-error-position" => check_shown_error_position(text).map(|_| ()).map_err(|(k, d)| format!("{}: {}", k, d)),
        "set-labels" => {
            let files: Vec<(String, String)> = v["inputs"]["files"].as_array().cloned().unwrap_or_default().iter().map(|p| (p[0].as_str().unwrap_or("").to_string(), p[1].as_str().unwrap_or("").to_string())).collect();
            check_set_labels(&files).map(|_| ()).map_err(|(k, d)| format!("{}: {}", k, d))
        }
        "clash-shown" => {
            let files: Vec<(String, String)> = v["inputs"]["files"].as_array().cloned().unwrap_or_default().iter().map(|p| (p[0].as_str().unwrap_or("").to_string(), p[1].as_str().unwrap_or("").to_string())).collect();
            check_clash_shown(&files).map(|_| ()).map_err(|(k, d)| format!("{}: {}", k, d))
        }
        "clash-labels" => {
            let files: Vec<(String, String)> = v["inputs"]["files"].as_array().cloned().unwrap_or_default().iter().map(|p| (p[0].as_str().unwrap_or("").to_string(), p[1].as_str().unwrap_or("").to_string())).collect();
            check_clash_labels(&files, v["inputs"]["name"].as_str().unwrap_or("")).map(|_| ()).map_err(|(k, d)| format!("{}: {}", k, d))
        }
        _ => {
            let tape: Vec<u8> = v["tape"].as_array().map(|a| a.iter().map(|x| x.as_u64().unwrap_or(0) as u8).collect()).unwrap_or_default();
            let mut s = Stats::default();
            let r1 = check_tape_ab(&tape, &gates, &mut s, false);
            let b = std::sync::atomic::AtomicI64::new(1_000_000);
            let r2 = check_tape_c(&tape, &gates, &mut s, true, &b);
            r1.and(r2).map_err(|f| format!("{}: {}", f.kind, f.detail))
        }
    };
    match r {
        Ok(()) => {
            println!("replay: property holds on this input");
            0
        }
        Err(e) => {
            println!("VIOLATION property=C05 replay={}", ctx.replay_path.clone().unwrap_or_default());
            eprintln!("{}", e);
            1
        }
    }
}

/// one tape through the in-process oracles (used by the coverage-guided `tapes` fuzz target)
pub fn fuzz_one(tape: &[u8], gates: &Gates) -> Result<(), Failure> {
    let mut s = Stats::default();
    let zero = std::sync::atomic::AtomicI64::new(0);
    check_tape_ab(tape, gates, &mut s, false)?;
    check_tape_c(tape, gates, &mut s, false, &zero)
}

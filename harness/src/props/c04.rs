//! C04 – total and terminating: no input crashes or hangs lex, parse, analyse or render.
//!
//! Cases run in worker processes (`vcheck worker`): a panic is caught and reported by the
//! worker, an abort / stack overflow / kill shows as the death of the worker and is attributed
//! to the case in flight, CPU time per case is measured by the worker itself.

use crate::gates::Gates;
use crate::gen_syntax::Gen;
use crate::lexeme::{layout, Class, Lexeme, SpellOpts};
use crate::printer::Printer;
use crate::report::{Finding, Report};
use crate::runner::*;
use crate::tape::{mix, Tape};
use crate::Ctx;
use serde_json::{json, Value};
use std::io::{BufRead, BufReader, Read, Write};
use std::process::{Child, ChildStdin, ChildStdout, Command, Stdio};
use std::sync::Mutex;

pub const CPU_BUDGET_S: f64 = 20.0;
const MAX_LEN: usize = 64 * 1024;

// ------------------------------------------------------------------ the pipeline (worker side)
fn cpu_time() -> f64 {
    let mut ts = libc::timespec { tv_sec: 0, tv_nsec: 0 };
    unsafe {
        libc::clock_gettime(libc::CLOCK_PROCESS_CPUTIME_ID, &mut ts);
    }
    ts.tv_sec as f64 + ts.tv_nsec as f64 * 1e-9
}

/// Runs every stage on `text`.  Ok(stage reached) or Err((stage, location, message)) for a panic.
pub fn pipeline(text: &str) -> Result<&'static str, (String, String, String)> {
    use ironplc_dsl::core::FileId;
    use ironplc_parser::options::ParseOptions;
    let fid = FileId::from_string("c04.st");
    let (_, diags) = crate::panicx::catch(|| ironplc_parser::tokenize_program(text, &fid, &ParseOptions::default())).map_err(|(l, m)| ("tokenize".to_string(), l, m))?;
    let lib = crate::panicx::catch(|| ironplc_parser::parse_program(text, &fid, &ParseOptions::default())).map_err(|(l, m)| ("parse".to_string(), l, m))?;
    let lib = match lib {
        Ok(l) => l,
        Err(_) => return Ok(if diags.is_empty() { "syntax-error" } else { "lex-error" }),
    };
    let a = crate::panicx::catch(|| ironplc_analyzer::stages::analyze(&[&lib])).map_err(|(l, m)| ("analyze".to_string(), l, m))?;
    let r = crate::panicx::catch(|| ironplc_plc2plc::write_to_string(&lib)).map_err(|(l, m)| ("render".to_string(), l, m))?;
    if let Ok(t1) = r {
        // re-parse of the rendering must not crash either - as long as the rendering is itself an
        // input the property speaks about (bracket nesting up to 12: the renderer brackets every
        // binary expression, so a flat chain of 60 terms comes back 59 deep, and rejecting a text
        // that deep takes the pinned parser time that doubles per level - outside the stated bounds)
        let mut depth = 0i32;
        let mut max_depth = 0i32;
        for c in t1.bytes() {
            match c {
                b'(' | b'[' => {
                    depth += 1;
                    max_depth = max_depth.max(depth);
                }
                b')' | b']' => depth -= 1,
                _ => {}
            }
        }
        if max_depth <= 12 {
            let _ = crate::panicx::catch(|| ironplc_parser::parse_program(&t1, &fid, &ParseOptions::default())).map_err(|(l, m)| ("reparse".to_string(), l, m))?;
        }
    }
    Ok(if a.is_ok() { "analysed-ok" } else { "analysed-error" })
}

/// `vcheck worker`: protocol: "<len>\n<bytes>" per case; answer "R <cpu_s> <outcome...>\n"
pub fn worker_main() -> i32 {
    // generous stack so that the harness itself does not limit nesting below the property's bound
    // an input of at most 64 KiB has no business needing gigabytes: with 4 GiB of address space an
    // allocation whose size follows from a number in the source fails, the process aborts, and the
    // death is attributed to the case in flight (instead of sixteen workers eating the machine)
    unsafe {
        let lim = libc::rlimit { rlim_cur: 4u64 << 30, rlim_max: 4u64 << 30 };
        libc::setrlimit(libc::RLIMIT_AS, &lim);
    }
    let child = std::thread::Builder::new().stack_size(64 << 20).spawn(|| {
        let stdin = std::io::stdin();
        let mut inp = BufReader::new(stdin.lock());
        let stdout = std::io::stdout();
        let mut out = stdout.lock();
        loop {
            let mut line = String::new();
            if inp.read_line(&mut line).unwrap_or(0) == 0 {
                return 0;
            }
            let n: usize = match line.trim().parse() {
                Ok(n) => n,
                Err(_) => return 3,
            };
            let mut buf = vec![0u8; n];
            if inp.read_exact(&mut buf).is_err() {
                return 3;
            }
            let text = String::from_utf8_lossy(&buf).to_string();
            let t0 = cpu_time();
            // a case that spins is killed by SIGXCPU: soft CPU limit = used + 60 s
            unsafe {
                let lim = libc::rlimit { rlim_cur: (t0 as u64) + 60, rlim_max: libc::RLIM_INFINITY };
                libc::setrlimit(libc::RLIMIT_CPU, &lim);
            }
            let r = pipeline(&text);
            let dt = cpu_time() - t0;
            let msg = match r {
                Ok(stage) => format!("R {:.3} ok {}", dt, stage),
                Err((stage, loc, m)) => format!("R {:.3} panic {}\t{}\t{}", dt, stage, loc, m.replace('\n', " ").replace('\t', " ")),
            };
            if writeln!(out, "{}", msg).is_err() || out.flush().is_err() {
                return 0;
            }
        }
    });
    child.ok().and_then(|c| c.join().ok()).unwrap_or(4)
}

// ------------------------------------------------------------------ parent side
pub struct Worker {
    child: Child,
    stdin: ChildStdin,
    stdout: BufReader<ChildStdout>,
}

#[derive(Debug, Clone)]
pub enum Outcome4 {
    Ok { stage: String, cpu: f64 },
    Panic { stage: String, loc: String, msg: String },
    /// worker died (signal / abort / stack overflow) or stopped answering
    Died { how: String },
}

impl Worker {
    pub fn spawn() -> Worker {
        let exe = std::env::current_exe().expect("current exe");
        let mut child = Command::new(exe).arg("worker").stdin(Stdio::piped()).stdout(Stdio::piped()).stderr(Stdio::null()).spawn().expect("spawn worker");
        let stdin = child.stdin.take().unwrap();
        let stdout = BufReader::new(child.stdout.take().unwrap());
        Worker { child, stdin, stdout }
    }
    pub fn run(&mut self, text: &str) -> Outcome4 {
        let hdr = format!("{}\n", text.len());
        if self.stdin.write_all(hdr.as_bytes()).is_err() || self.stdin.write_all(text.as_bytes()).is_err() || self.stdin.flush().is_err() {
            return self.died();
        }
        let mut line = String::new();
        match self.stdout.read_line(&mut line) {
            Ok(n) if n > 0 => {
                let mut it = line.trim_end().splitn(4, ' ');
                let _r = it.next();
                let cpu: f64 = it.next().and_then(|x| x.parse().ok()).unwrap_or(0.0);
                match it.next() {
                    Some("ok") => Outcome4::Ok { stage: it.next().unwrap_or("").to_string(), cpu },
                    Some("panic") => {
                        let rest = it.next().unwrap_or("");
                        let mut p = rest.splitn(3, '\t');
                        Outcome4::Panic { stage: p.next().unwrap_or("").into(), loc: p.next().unwrap_or("").into(), msg: p.next().unwrap_or("").into() }
                    }
                    _ => Outcome4::Died { how: format!("garbled answer {:?}", line) },
                }
            }
            _ => self.died(),
        }
    }
    fn died(&mut self) -> Outcome4 {
        let st = self.child.wait().ok();
        let how = match st {
            Some(s) => {
                use std::os::unix::process::ExitStatusExt;
                if let Some(sig) = s.signal() {
                    format!("killed by signal {}", sig)
                } else {
                    format!("exit status {:?}", s.code())
                }
            }
            None => "unknown".into(),
        };
        Outcome4::Died { how }
    }
}

impl Drop for Worker {
    fn drop(&mut self) {
        let _ = self.child.kill();
        let _ = self.child.wait();
    }
}

thread_local! {
    static WORKER: std::cell::RefCell<Option<Worker>> = std::cell::RefCell::new(None);
}

/// run one input in this thread's worker (respawned after a death); a wedged worker is handled
/// by the per-process RLIMIT_CPU the worker inherits (set below)
pub fn run_isolated(text: &str) -> Outcome4 {
    WORKER.with(|w| {
        let mut w = w.borrow_mut();
        if w.is_none() {
            *w = Some(Worker::spawn());
        }
        let o = w.as_mut().unwrap().run(text);
        if let Outcome4::Died { .. } = o {
            *w = None;
        }
        o
    })
}

// ------------------------------------------------------------------ input families
const SOUP: &[&str] = &[
    "PROGRAM", "END_PROGRAM", "FUNCTION", "END_FUNCTION", "FUNCTION_BLOCK", "END_FUNCTION_BLOCK", "TYPE", "END_TYPE", "STRUCT", "END_STRUCT", "VAR", "VAR_INPUT",
    "VAR_OUTPUT", "VAR_IN_OUT", "VAR_EXTERNAL", "VAR_GLOBAL", "VAR_ACCESS", "VAR_CONFIG", "VAR_TEMP", "END_VAR", "CONSTANT", "RETAIN", "NON_RETAIN", "AT", "ARRAY", "OF",
    "IF", "THEN", "ELSIF", "ELSE", "END_IF", "CASE", "END_CASE", "FOR", "TO", "BY", "DO", "END_FOR", "WHILE", "END_WHILE", "REPEAT", "UNTIL", "END_REPEAT", "EXIT",
    "RETURN", "CONFIGURATION", "END_CONFIGURATION", "RESOURCE", "ON", "END_RESOURCE", "TASK", "WITH", "INITIAL_STEP", "STEP", "END_STEP", "TRANSITION", "FROM",
    "END_TRANSITION", "ACTION", "END_ACTION", "R_EDGE", "F_EDGE", "READ_ONLY", "READ_WRITE", "TRUE", "FALSE", "BOOL", "INT", "DINT", "REAL", "LREAL", "TIME", "DATE",
    "TOD", "DT", "STRING", "WSTRING", "BYTE", "WORD", "OR", "XOR", "AND", "&", "NOT", "MOD", "=", "<>", "<", ">", "<=", ">=", "+", "-", "*", "/", "**", ":=", "=>", "(", ")",
    "[", "]", "{", "}", ",", ";", ":", ".", "..", "#", "x", "y", "fb1", "INTERVAL", "PRIORITY", "N", "SD", "T", "D", "ms", "s", "1", "0", "42", "1.5", "1.0E5", "16#FF", "2#101",
    "8#17", "'str'", "\"wstr\"", "%IX1.2", "%QW3", "%I*", "%MD4", "T#1s", "TIME#5ms", "D#2024-01-20", "TOD#12:30:00", "DT#2024-01-20-12:30:00", "INT#5", "BOOL#1", "a.b", "a[1]",
];

fn family_bytes(t: &mut Tape) -> String {
    let n = match t.below(4) {
        0 => t.below(16),
        1 => t.below(200),
        2 => t.below(2000),
        _ => t.below(400),
    };
    let mut b = Vec::with_capacity(n);
    for _ in 0..n {
        b.push(t.byte());
    }
    // decode as the CLI would: UTF-8, else Windows-1252
    match String::from_utf8(b.clone()) {
        Ok(s) => s,
        Err(_) => encoding_rs::WINDOWS_1252.decode(&b).0.to_string(),
    }
}

fn family_soup(t: &mut Tape) -> String {
    let n = t.count(1, 60);
    let mut s = String::new();
    for _ in 0..n {
        if t.ratio(1, 12) {
            s.push_str(&long_token(t));
            s.push(' ');
            continue;
        }
        s.push_str(*t.pick(SOUP));
        s.push_str(*t.pick(&[" ", " ", "\n", "\t", "", " (* c *) ", "\r\n", " (*@KEY@:DESCRIPTION*) ", " (*@KEY@:END_DESCRIPTION*) ", " { ", " } "]));
    }
    s
}

/// a long string / comment token mixing ASCII with 2-, 3- and 4-byte characters at arbitrary
/// byte offsets (code that slices token text by byte count must respect char boundaries)
fn long_token(t: &mut Tape) -> String {
    let n = t.below(90);
    let mut body = String::new();
    for _ in 0..n {
        match t.below(6) {
            0 => body.push(*t.pick(&['é', 'ß', 'Ä', 'ñ'])),
            1 => body.push(*t.pick(&['€', '漢', '√'])),
            2 => body.push('😀'),
            _ => body.push((b'a' + t.below(26) as u8) as char),
        }
    }
    match t.below(4) {
        0 => format!("'{}'", body),
        1 => format!("\"{}\"", body),
        2 => format!("(* {} *)", body),
        _ => format!("(*{}", body), // unclosed
    }
}

pub fn mutate_lexemes(lex: &mut Vec<Lexeme>, t: &mut Tape) {
    let k = 1 + t.below(8);
    for _ in 0..k {
        if lex.is_empty() {
            return;
        }
        let i = t.below(lex.len());
        match t.below(8) {
            7 => {
                let w = long_token(t);
                let l = Lexeme { text: w, class: Class::Punct, join: crate::lexeme::Join::Space, mark: None };
                if t.flag() {
                    lex.insert(i, l);
                } else {
                    lex[i] = l;
                }
            }
            0 => {
                lex.remove(i);
            }
            1 => {
                let c = lex[i].clone();
                lex.insert(i, c);
            }
            2 => {
                if i + 1 < lex.len() {
                    lex.swap(i, i + 1);
                }
            }
            3 => {
                let j = t.below(lex.len());
                let c = lex[j].clone();
                lex[i] = c;
            }
            4 => {
                lex.truncate(i);
            }
            5 => {
                // unbalance a bracket
                let b = *t.pick(&["(", ")", "[", "]", "END_IF", "END_VAR", ";", "(*@KEY@:DESCRIPTION*)", "(*@KEY@:END_DESCRIPTION*)", "(* { *)", "(* } *)"]);
                lex.insert(i, Lexeme { text: b.to_string(), class: Class::Punct, join: crate::lexeme::Join::Space, mark: None });
            }
            _ => {
                let w = *t.pick(SOUP);
                lex[i] = Lexeme { text: w.to_string(), class: Class::Punct, join: crate::lexeme::Join::Space, mark: None };
            }
        }
    }
}

fn family_mutated(t: &mut Tape, gates: &Gates, valid: bool) -> String {
    // (a third of the units from the valid generator carry one planted fault of a rule chosen
    // uniformly - a consistent program in which one rule has something to report: every rule's error
    // path, labels and context values are computed - and half of those go through unmutated)
    let mut planted = false;
    let mut lex = if valid {
        let u = if t.ratio(1, 3) {
            let kd = crate::gen_valid::ALL_FAULTS[t.below(crate::gen_valid::ALL_FAULTS.len())];
            let key: Vec<u8> = (0..48).map(|_| t.byte()).collect();
            let mut big = crate::gen_valid::Profile::default();
            big.sfc = false;
            match crate::gen_valid::unit_with_fault_of(kd, &key, gates, &big) {
                Some(fu) => {
                    planted = true;
                    fu
                }
                None => crate::gen_valid::gen_unit(t, gates, &crate::gen_valid::Profile::default()),
            }
        } else {
            crate::gen_valid::gen_unit(t, gates, &crate::gen_valid::Profile::default())
        };
        let mut p = Printer::new(gates, Tape::empty());
        p.library(&u.lib);
        p.finish()
    } else {
        let mut g = Gen::new(gates, t.rest());
        let lib = g.library(3);
        let mut p = Printer::new(gates, g.t.rest());
        p.library(&lib);
        p.finish()
    };
    gates.take_hits();
    let derived = crate::tape::derived(&[t.byte(), t.byte(), t.byte(), t.byte()], 256);
    let mut mt = Tape::new(&derived);
    if (!planted && mt.ratio(5, 6)) || (planted && mt.flag()) {
        mutate_lexemes(&mut lex, &mut mt);
    }
    let (lay, _) = layout(&lex, &SpellOpts::canonical(), &mut Tape::empty());
    let mut text = lay.text;
    // now and then the file ends in text that cannot be matched (never-closed comment or string,
    // junk), of every length and with multi-byte characters at every phase
    if mt.ratio(1, 6) {
        text.push_str(&crate::lexeme::unmatched_tail(&mut mt));
    }
    text
}

fn big(t: &mut Tape) -> String {
    match t.below(10) {
        0 => "0".into(),
        1 => "1".into(),
        2 => format!("{}", (1u128 << (8 * (1 + t.below(16)) as u32).min(127)) - 1),
        3 => format!("{}", 1u128 << (t.below(128) as u32)),
        4 => format!("1{}", "0".repeat(t.below(60))),
        5 => format!("{}", u128::MAX),
        6 => format!("9{}", "9".repeat(t.below(45))),
        7 => format!("1_{}", "0_".repeat(t.below(20))) + "0",
        8 => format!("{}", t.u64()),
        _ => format!("{}.{}", t.u32(), "5".repeat(1 + t.below(40))),
    }
}

/// a long chain of one binary operator without any bracket (nesting depth 0, but a left-deep tree
/// as tall as the chain is long); while KF-C04-05 is known the chain stays below 100 terms
fn long_chain(t: &mut Tape, gates: &Gates) -> String {
    let max = if gates.want("LONG_OPERATOR_CHAIN") { *t.pick(&[200usize, 1000, 3000, 10000, 20000]) } else { 100 };
    let n = 2 + t.below(max);
    let op = *t.pick(&["+", " - ", "*", " OR ", " AND ", " = ", "+ -", " MOD "]);
    let term = *t.pick(&["1", "x", "(x)", "NOT x"]);
    let chain = std::iter::repeat(term).take(n).collect::<Vec<_>>().join(op);
    // the chain alone, or as an operand of an operator of another level (a sum compared with a
    // limit, a limit compared with a sum, a conjunction of a chain and a flag)
    let chain = match t.below(5) {
        0 | 1 => chain,
        2 => format!("{} {} 1000", chain, *t.pick(&[">", "=", "<>", "<=", "AND", "OR", "XOR"])),
        3 => format!("x {} {}", *t.pick(&["<", "=", "<>", ">=", "AND", "OR"]), chain),
        _ => format!("{} {} {}", chain, *t.pick(&["=", "<", "AND", "+", "*"]), chain),
    };
    match t.below(3) {
        0 => format!("PROGRAM p\nVAR\nx : INT;\nEND_VAR\nx := {};\nEND_PROGRAM\n", chain),
        1 => format!("FUNCTION_BLOCK p\nVAR\nx : INT;\nEND_VAR\nIF {} THEN\nx := 1;\nEND_IF;\nEND_FUNCTION_BLOCK\n", chain),
        _ => format!("FUNCTION p : INT\nVAR\nx : INT;\nEND_VAR\np := {};\nEND_FUNCTION\n", chain),
    }
}

/// a variable with many selectors (`s.a.a.a...`, `s[1][1]...`, mixed): 20 .. 400 of them are a
/// few hundred bytes of input with no nesting at all - work that doubles per selector does not end
fn long_selectors(t: &mut Tape) -> String {
    let n = *t.pick(&[20usize, 26, 30, 40, 64, 120, 400]);
    let sel = *t.pick(&[".a", "[1]", ".a[1]", ".a.b"]);
    let chain = format!("s{}", sel.repeat(n));
    match t.below(4) {
        0 => format!("PROGRAM p\nVAR\ns : INT;\nEND_VAR\n{} := 1;\nEND_PROGRAM\n", chain),
        1 => format!("PROGRAM p\nVAR\ns : INT;\nx : INT;\nEND_VAR\nx := {} + {};\nEND_PROGRAM\n", chain, chain),
        2 => format!("FUNCTION_BLOCK f\nVAR\ns : INT;\ng : f2;\nEND_VAR\ng(i := {}, o => {});\nEND_FUNCTION_BLOCK\n", chain, chain),
        _ => format!("FUNCTION f : INT\nVAR\ns : INT;\nEND_VAR\nIF {} = 1 THEN\nf := {};\nEND_IF;\nEND_FUNCTION\n", chain, chain),
    }
}

fn family_extreme(t: &mut Tape) -> String {
    let b = big(t);
    let b2 = big(t);
    match t.below(16) {
        0 => format!("PROGRAM p\nVAR\nx : INT := {};\nEND_VAR\nEND_PROGRAM\n", b),
        1 => format!("PROGRAM p\nVAR\nx : INT := -{};\nEND_VAR\nEND_PROGRAM\n", b),
        2 => format!("PROGRAM p\nVAR\nx : TIME := T#{}{};\nEND_VAR\nEND_PROGRAM\n", b, *t.pick(&["d", "h", "m", "s", "ms"])),
        3 => format!("PROGRAM p\nVAR\nx : TIME := T#-{}{};\nEND_VAR\nEND_PROGRAM\n", b, *t.pick(&["d", "h", "m", "s", "ms"])),
        4 => format!("CONFIGURATION c\nRESOURCE r ON cpu\nTASK t(INTERVAL := {}, PRIORITY := {});\nPROGRAM p WITH t : q;\nEND_RESOURCE\nEND_CONFIGURATION\n", *t.pick(&["T#1s", "5", "1.5", "TRUE", "'x'", "D#2024-01-01", "x"]), b),
        5 => format!("TYPE\nr : INT({}..{});\nEND_TYPE\n", b, b2),
        6 => format!("TYPE\nr : INT(-{}..{});\nEND_TYPE\n", b, b2),
        7 => format!("TYPE\na : ARRAY[{}..{}] OF INT := [{}({})];\nEND_TYPE\n", b, b2, b, b2),
        8 => {
            // a declared length, count or bound is a number someone may allocate or loop by: with and
            // without an initial value, both bracket spellings, in TYPE, VAR and structure elements
            let (o, c) = if t.flag() { ("[", "]") } else { ("(", ")") };
            let kw = *t.pick(&["STRING", "WSTRING"]);
            let q = if kw == "STRING" { "'" } else { "\"" };
            let init = if t.ratio(2, 3) { format!(" := {}{}{}", q, *t.pick(&["", "x", "abc", "$N", "0123456789"]), q) } else { String::new() };
            match t.below(5) {
                0 => format!("TYPE\ns : {}{}{}{}{};\nEND_TYPE\n", kw, o, b, c, init),
                1 => format!("PROGRAM p\nVAR\nw : {}{}{}{}{};\nEND_VAR\nEND_PROGRAM\n", kw, o, b, c, init),
                2 => format!("TYPE\nt : STRUCT\nm : {}{}{}{}{};\nEND_STRUCT;\nEND_TYPE\n", kw, o, b, c, init),
                3 => format!("PROGRAM p\nVAR\na : ARRAY[{}..{}] OF INT := [{}({}), 1];\nEND_VAR\nEND_PROGRAM\n", t.below(3), b2, b, t.below(9)),
                _ => format!("TYPE\ns : {}{}{}{}{};\nEND_TYPE\nPROGRAM p\nVAR CONSTANT\nw : s;\nv : s{};\nEND_VAR\nEND_PROGRAM\n", kw, o, b, c, init, init),
            }
        }
        12 if t.ratio(1, 3) => {
            // string literals made of '$' escapes of every kind: the named ones, two hex digits in a
            // single-byte string, four in a double-byte string - every boundary of the code space (NUL,
            // the last ASCII / Latin-1 character, both ends of the surrogate range, U+FFFE / U+FFFF) and
            // random ones - and escapes that are cut short
            let wide = t.flag();
            let q = if wide { "\"" } else { "'" };
            let n = 1 + t.below(4);
            let mut body = String::new();
            for _ in 0..n {
                match t.below(6) {
                    0 => body.push_str(*t.pick(&["$$", "$'", "$\"", "$L", "$N", "$P", "$R", "$T", "$l", "$n", "$p", "$r", "$t"])),
                    1 | 2 => {
                        let code: u32 = match t.below(3) {
                            0 => *t.pick(&[0x0000u32, 0x0001, 0x007F, 0x0080, 0x00FF, 0x0100, 0xD7FF, 0xD800, 0xDBFF, 0xDC00, 0xDFFF, 0xE000, 0xFFFD, 0xFFFE, 0xFFFF]),
                            _ => t.u16() as u32,
                        };
                        let hex = if wide { format!("{:04X}", code) } else { format!("{:02X}", code & 0xFF) };
                        body.push('$');
                        body.push_str(&if t.flag() { hex.to_ascii_lowercase() } else { hex });
                    }
                    3 => body.push_str(*t.pick(&["$", "$G", "$1", "$D8", "$D80", "$$$", "$ ", "$\n"])),
                    4 => body.push_str(*t.pick(&["a", "Z9", " ", "\u{e9}", "\u{20ac}", "\u{1f600}"])),
                    _ => body.push_str("$D800$DC00"),
                }
            }
            let kw = if wide { "WSTRING" } else { "STRING" };
            match t.below(3) {
                0 => format!("PROGRAM p\nVAR\nw : {} := {}{}{};\nEND_VAR\nEND_PROGRAM\n", kw, q, body, q),
                1 => format!("PROGRAM p\nVAR\nw : {};\nEND_VAR\nw := {}{}{};\nEND_PROGRAM\n", kw, q, body, q),
                _ => format!("TYPE\nlabel : {}[8] := {}{}{};\nEND_TYPE\n", kw, q, body, q),
            }
        }
        9 if t.flag() => {
            // numbers someone may count through: CASE selectors (values, wide subranges), array bounds
            // of a variable, a FOR range, a repetition count
            let lo = *t.pick(&["0", "1", "61", "-5"]);
            match t.below(4) {
                0 => format!("PROGRAM p\nVAR\ng : DINT;\nEND_VAR\nCASE g OF\n{}..{}: g := 3;\n{}: g := 4;\nEND_CASE;\nEND_PROGRAM\n", lo, b, b2),
                1 => format!("PROGRAM p\nVAR\ng : DINT;\na : ARRAY[{}..{}] OF BOOL;\nEND_VAR\ng := 1;\nEND_PROGRAM\n", lo, b),
                2 => format!("PROGRAM p\nVAR\ng : DINT;\nEND_VAR\nFOR g := {} TO {} BY {} DO\ng := g;\nEND_FOR;\nEND_PROGRAM\n", lo, b, b2),
                _ => format!("FUNCTION_BLOCK f\nVAR\ng : DINT;\nEND_VAR\nCASE g OF\n{}..{}, {}..{}: g := 1;\nELSE\ng := 2;\nEND_CASE;\nEND_FUNCTION_BLOCK\n", lo, b, b, b2),
            }
        }
        9 => format!("FUNCTION_BLOCK f\nINITIAL_STEP i:\nEND_STEP\nTRANSITION t1 (PRIORITY := {}) FROM i TO i\n:= TRUE;\nEND_TRANSITION\nEND_FUNCTION_BLOCK\n", b),
        10 => format!("PROGRAM p\nVAR\nx AT %{}{}{} : BOOL;\nEND_VAR\nEND_PROGRAM\n", *t.pick(&["I", "Q", "M"]), *t.pick(&["", "X", "B", "W", "D", "L"]), {
            let n = 1 + t.below(3);
            (0..n).map(|_| big(t).replace('.', "").replace('_', "")).collect::<Vec<_>>().join(".")
        }),
        11 => format!("PROGRAM p\nVAR\nx : DATE := D#{}-{}-{};\ny : TOD := TOD#{}:{}:{};\nEND_VAR\nEND_PROGRAM\n", b, t.below(20), t.below(40), b2, t.below(70), big(t)),
        12 => format!("PROGRAM p\nVAR\nx : REAL := {}.{}E{}{};\nEND_VAR\nEND_PROGRAM\n", b.replace('.', ""), t.below(1000), *t.pick(&["", "-", "+"]), big(t).replace('.', "").replace('_', "")),
        13 => {
            // nesting depth up to 12
            let d = 1 + t.below(12);
            format!("PROGRAM p\nVAR\nx : INT;\nEND_VAR\nx := {}1{};\nEND_PROGRAM\n", "(".repeat(d), ")".repeat(d))
        }
        14 => {
            // statement nesting up to depth 12, every statement kind, in every POU kind
            let d = 1 + t.below(12);
            let pou = t.below(3);
            let mut s = String::from(match pou {
                0 => "PROGRAM p\nVAR\nx : INT;\nEND_VAR\n",
                1 => "FUNCTION_BLOCK p\nVAR\nx : INT;\nEND_VAR\n",
                _ => "FUNCTION p : INT\nVAR\nx : INT;\nEND_VAR\n",
            });
            // one kind all the way down, or a mixture
            let uniform = if t.flag() { Some(t.below(5)) } else { None };
            let mut closers = vec![];
            for _ in 0..d {
                let k = uniform.unwrap_or_else(|| t.below(5));
                match k {
                    0 => {
                        s.push_str("IF x = 1 THEN\n");
                        closers.push("END_IF;\n");
                    }
                    1 => {
                        s.push_str("CASE x OF\n1:\n");
                        closers.push("END_CASE;\n");
                    }
                    2 => {
                        s.push_str("FOR x := 1 TO 2 DO\n");
                        closers.push("END_FOR;\n");
                    }
                    3 => {
                        s.push_str("WHILE x = 1 DO\n");
                        closers.push("END_WHILE;\n");
                    }
                    _ => {
                        s.push_str("REPEAT\n");
                        closers.push("UNTIL x = 1 END_REPEAT;\n");
                    }
                }
            }
            s.push_str("x := 1;\n");
            for c in closers.iter().rev() {
                s.push_str(c);
            }
            s.push_str(match pou {
                0 => "END_PROGRAM\n",
                1 => "END_FUNCTION_BLOCK\n",
                _ => "p := 1;\nEND_FUNCTION\n",
            });
            s
        }
        _ => {
            let d = 1 + t.below(12);
            format!("PROGRAM p\nVAR\nx : INT;\nEND_VAR\nx := {}y{};\nEND_PROGRAM\n", "f(".repeat(d), ")".repeat(d))
        }
    }
}

/// POUs composed as text from the IEC declaration productions (also what the AST cannot hold),
/// optionally with line-level mutations
fn family_text_decl(t: &mut Tape) -> String {
    let cell = crate::textgrid::random_unit(t);
    if t.ratio(1, 2) {
        return cell.text;
    }
    let mut lines: Vec<String> = cell.text.lines().map(String::from).collect();
    for _ in 0..(1 + t.below(3)) {
        if lines.is_empty() {
            break;
        }
        let i = t.below(lines.len());
        match t.below(4) {
            0 => {
                lines.remove(i);
            }
            1 => {
                let c = lines[i].clone();
                lines.insert(i, c);
            }
            2 => {
                let j = t.below(lines.len());
                lines.swap(i, j);
            }
            _ => {
                let w = *t.pick(SOUP);
                lines[i] = format!("{} {}", lines[i], w);
            }
        }
    }
    lines.join("\n") + "\n"
}

/// inputs near the 64 KiB bound: many generated units with disjoint name prefixes (valid, so all
/// stages run over the whole text), or one unit repeated verbatim (every name declared many times)
fn family_large(t: &mut Tape, gates: &Gates) -> String {
    let target = 16 * 1024 + t.below(48 * 1024);
    let repeat_same = t.ratio(1, 4);
    let mut out = String::new();
    let seed_bytes: Vec<u8> = (0..64).map(|_| t.byte()).collect();
    let mut k = 0;
    while out.len() < target && k < 4000 {
        let mut p = crate::gen_valid::Profile::default();
        p.config = false;
        p.prefix = if repeat_same { "r_".to_string() } else { format!("u{}_", k) };
        let sub = if repeat_same { seed_bytes.clone() } else { crate::tape::derived(&[seed_bytes[k % 64], (k >> 8) as u8, k as u8], 64) };
        let u = crate::gen_valid::gen_unit(&mut Tape::new(&sub), gates, &p);
        let mut pr = Printer::new(gates, Tape::empty());
        pr.library(&u.lib);
        let lex = pr.finish();
        let (lay, _) = layout(&lex, &SpellOpts::canonical(), &mut Tape::empty());
        if lay.text.is_empty() {
            break;
        }
        out.push_str(&lay.text);
        k += 1;
    }
    gates.take_hits();
    out
}

/// declaration graphs with cycles (one, several, nested, self-loops) realised as function blocks,
/// types or a mixture: the error paths of the recursion check must terminate too
fn family_graph(t: &mut Tape) -> String {
    let n = 1 + t.below(7);
    let dense = t.below(3);
    let mut adj = vec![vec![false; n]; n];
    for i in 0..n {
        for j in 0..n {
            adj[i][j] = match dense {
                0 => t.ratio(1, 6),
                1 => t.ratio(1, 3),
                _ => t.ratio(2, 3),
            };
        }
    }
    let g = crate::props::c07::Graph { n, adj };
    let salt = t.u64();
    match t.below(3) {
        0 => crate::props::c07::realise_fb(&g, salt, true).0,
        1 => crate::props::c07::realise_type(&g, salt, true).0,
        _ => crate::props::c07::realise_mixed(&g, salt, true).map(|x| x.0).unwrap_or_else(|| crate::props::c07::realise_fb(&g, salt, false).0),
    }
}

pub fn gen_input(t: &mut Tape, gates: &Gates) -> (String, &'static str) {
    let (s, fam) = match t.below(11) {
        10 if t.ratio(1, 3) => (long_chain(t, gates), "long-operator-chain"),
        10 if t.ratio(1, 4) && gates.want("LONG_SELECTOR_CHAIN") => (long_selectors(t), "long-selector-chain"),
        10 if t.ratio(1, 8) => (family_large(t, gates), "large-input"),
        10 if t.ratio(1, 3) => (family_graph(t), "declaration-graph"),
        10 => (family_text_decl(t), "text-declarations"),
        0 => (family_bytes(t), "bytes"),
        1 | 2 => (family_soup(t), "token-soup"),
        3 | 4 | 5 => (family_mutated(t, gates, false), "mutated-syntactic"),
        6 | 7 => (family_mutated(t, gates, true), "mutated-valid"),
        _ => (family_extreme(t), "extreme-literal"),
    };
    let mut s = s;
    if s.len() > MAX_LEN {
        let mut k = MAX_LEN;
        while !s.is_char_boundary(k) {
            k -= 1;
        }
        s.truncate(k);
    }
    (s, fam)
}

// ------------------------------------------------------------------ known panic signatures
#[derive(Clone, Debug)]
pub struct PanicSig {
    pub id: String,
    pub msg_prefix: String,
}

pub fn known_panics(findings: &[Finding]) -> Vec<PanicSig> {
    findings
        .iter()
        .filter(|f| f.status == "known" && f.signature["kind"] == "panic")
        .map(|f| PanicSig { id: f.id.clone(), msg_prefix: f.signature["message_prefix"].as_str().unwrap_or("\u{0}").to_string() })
        .collect()
}

fn check_tape(tape: &[u8], gates: &Gates, sigs: &[PanicSig], stats: &mut Stats, counting: bool) -> Result<(), Failure> {
    let mut t = Tape::new(tape);
    let (text, fam) = gen_input(&mut t, gates);
    let o = run_isolated(&text);
    if counting {
        let reached = matches!(&o, Outcome4::Ok { stage, .. } if stage != "lex-error");
        stats.case(reached || text.split_whitespace().count() >= 3, hash_str(&text));
        stats.class(&format!("family.{}", fam));
        match &o {
            Outcome4::Ok { stage, .. } => stats.class(&format!("stage.{}", stage)),
            _ => {}
        }
        if text.len() > 16 * 1024 {
            stats.class("size.over-16k");
        }
        stats.absorb_gates(gates);
        if stats.samples.len() < 4 && fam != "bytes" && hash_str(&text) % 5 == 0 {
            stats.samples.push(json!({"family": fam, "input": text.chars().take(400).collect::<String>()}));
        }
    } else {
        gates.take_wanted();
        gates.take_hits();
    }
    match o {
        Outcome4::Ok { cpu, stage } => {
            if cpu > CPU_BUDGET_S {
                // reproduce twice in a fresh worker before believing it
                let mut hits = 1;
                for _ in 0..2 {
                    let mut w = Worker::spawn();
                    if let Outcome4::Ok { cpu: c2, .. } = w.run(&text) {
                        if c2 > CPU_BUDGET_S {
                            hits += 1;
                        }
                    }
                }
                if hits == 3 {
                    return Err(Failure::new("total", "cpu-budget", format!("{} CPU seconds (> {}) for {} bytes (stage {})", cpu, CPU_BUDGET_S, text.len(), stage), json!({"text": text, "family": fam})));
                }
                stats.inconclusive += 1;
            }
            Ok(())
        }
        Outcome4::Panic { stage, loc, msg } => {
            if let Some(sig) = sigs.iter().find(|s| msg.starts_with(&s.msg_prefix)) {
                if counting {
                    *stats.known_seen.entry(sig.id.clone()).or_insert(0) += 1;
                }
                return Ok(());
            }
            Err(Failure::new("total", "panic", format!("{} panicked at {}: {}", stage, loc, msg), json!({"text": text, "family": fam, "panic_message": msg})))
        }
        Outcome4::Died { how } => {
            if how.contains("signal 24") {
                // SIGXCPU: more than 60 CPU seconds; believe it only if it reproduces twice more
                let mut hits = 1;
                for _ in 0..2 {
                    let mut w = Worker::spawn();
                    if let Outcome4::Died { how: h2 } = w.run(&text) {
                        if h2.contains("signal 24") {
                            hits += 1;
                        }
                    }
                }
                if hits < 3 {
                    stats.inconclusive += 1;
                    return Ok(());
                }
                return Err(Failure::new("total", "cpu-budget", format!("more than 60 CPU seconds for {} bytes (3/3 runs)", text.len()), json!({"text": text, "family": fam})));
            }
            Err(Failure::new("total", "abort", format!("the process died while handling the input: {}", how), json!({"text": text, "family": fam})))
        }
    }
}

/// corpus: the repository's fixtures, replayed through the same oracle
fn corpus() -> Vec<String> {
    let mut v = vec![];
    for dir in ["/repo/compiler/resources/test", "/repo/compiler/plc2plc/resources/test", "/repo/compiler/plc2x/resources/test", "/repo/examples"] {
        if let Ok(rd) = std::fs::read_dir(dir) {
            let mut paths: Vec<_> = rd.filter_map(|e| e.ok()).map(|e| e.path()).collect();
            paths.sort();
            for p in paths {
                if p.is_file() {
                    if let Ok(b) = std::fs::read(&p) {
                        v.push(String::from_utf8_lossy(&b).to_string());
                    }
                }
            }
        }
    }
    // the exhaustive text-first declaration grid (POU kind x block header x declaration form)
    for c in crate::textgrid::cells() {
        v.push(c.text);
    }
    v
}

pub fn run(ctx: &Ctx) -> i32 {
    let clock = Clock::start();
    let mut rep = Report::new(
        "C04",
        ctx.tier,
        ctx.seed,
        "exploration",
        "inputs <= 64 KiB, nesting <= 12: arbitrary bytes (decoded like the CLI: UTF-8 else Windows-1252), token soup over every keyword / operator / literal shape, generated programs (syntactic and valid generators) with 1..8 token-level mutations (delete, duplicate, swap, replace, truncate, unbalance), extreme literals (magnitudes 2^k-1, 2^k, 10^k, long fractions / underscore runs) in every position that converts a number, deep nesting of parentheses / IF / calls, POUs composed as text from every block header x declaration form (with line mutations); plus the repository's fixtures and the exhaustive text-first declaration grid. Each input runs in a worker process through tokenize, parse, analyze, render, re-parse of the rendering: no panic, no abort / signal, CPU time per case <= 20 s (3/3 reproduction). Non-trivial: input reached the parser or has >= 3 tokens; distinct by input text.",
    );
    let gates = ctx.gates_for("C04");
    let off = gates.off_list();
    let sigs = known_panics(&ctx.findings);
    // corpus replay
    let files = corpus();
    let out = run_items(&files, ctx.threads.min(8), |text, stats| {
        let mut text = text.clone();
        if text.len() > MAX_LEN {
            text.truncate(MAX_LEN);
        }
        stats.case(true, hash_str(&text));
        stats.class("family.corpus");
        match run_isolated(&text) {
            Outcome4::Ok { .. } => Ok(()),
            Outcome4::Panic { stage, loc, msg } => {
                if sigs.iter().any(|s| msg.starts_with(&s.msg_prefix)) {
                    Ok(())
                } else {
                    Err(Failure::new("total", "panic", format!("{} panicked at {}: {}", stage, loc, msg), json!({"text": text, "family": "corpus"})))
                }
            }
            Outcome4::Died { how } => Err(Failure::new("total", "abort", how, json!({"text": text, "family": "corpus"}))),
        }
    });
    rep.add(out);
    let cases = ctx.tier.pick(400_000, 6_000_000);
    let out = run_tapes("C04", ctx.seed, ctx.threads, cases, 1500, |tape, stats, counting| {
        let g = Gates::with_off(off.clone());
        check_tape(tape, &g, &sigs, stats, counting)
    });
    rep.add(out);
    // binary sample: exit status of check / echo / tokenize is 0 or 1
    let sample = ctx.tier.pick(120, 2000);
    let seeds: Vec<u64> = (0..sample as u64).collect();
    let seed = ctx.seed;
    let off2 = off.clone();
    let sigs2 = sigs.clone();
    let out = run_items(&seeds, ctx.threads, |k, stats| {
        let g = Gates::with_off(off2.clone());
        let tape = crate::tape::derived(&mix(seed ^ k.wrapping_mul(0x9E37)).to_le_bytes(), 600);
        let mut t = Tape::new(&tape);
        let (text, fam) = gen_input(&mut t, &g);
        g.take_hits();
        let dir = crate::drive::Scratch::new("c04");
        let p = dir.write("in.st", text.as_bytes()).to_string_lossy().to_string();
        for cmd in ["check", "echo", "tokenize"] {
            let o = crate::drive::run_cli(&[cmd.to_string(), p.clone()], None);
            stats.case(true, hash_str(&format!("{}{}", cmd, text)));
            stats.class(&format!("binary.{}", cmd));
            if o.timed_out {
                stats.inconclusive += 1;
                continue;
            }
            match o.status {
                Some(c) if c != 101 => {} // any exit status but the panic status; death by signal is None
                other => {
                    let known = sigs2.iter().any(|s| o.stderr.contains(&s.msg_prefix));
                    if !known {
                        return Err(Failure::new("binary", "abnormal-exit", format!("`ironplcc {}` ended with {:?}: {}", cmd, other, o.stderr.lines().last().unwrap_or("")), json!({"text": text, "family": fam, "command": cmd})));
                    }
                }
            }
        }
        Ok(())
    });
    rep.add(out);
    // the time budget at the command line: files made of text that is no token (every character its
    // own diagnostic) - one to a line, and (while not a known finding) thousands on ONE line, where
    // every diagnostic shows the whole line again
    {
        let mut cases: Vec<(&str, String)> = vec![("unlexable-characters.one-per-line", "?\n".repeat(3000)), ("unlexable-characters.short-lines", "?? @ ~\n".repeat(1500))];
        if gates.want("MANY_UNLEXABLE_CHARACTERS_ON_ONE_LINE") {
            cases.push(("unlexable-characters.16384-on-one-line", "?".repeat(16_384)));
            cases.push(("unlexable-characters.65536-on-one-line", "?".repeat(65_535)));
        }
        let items: Vec<(&str, String, &str)> = cases.iter().flat_map(|(n, t)| ["tokenize", "check"].into_iter().map(move |c| (*n, t.clone(), c))).collect();
        let out = run_items(&items, ctx.threads, |(name, text, cmd), stats| {
            stats.case(true, hash_str(&format!("{}{}", cmd, name)));
            stats.class(&format!("cli-budget.{}.{}", cmd, name));
            cli_within_budget(cmd, text).map_err(|d| Failure::new("cli-budget", "over-budget", format!("{}: {}", name, d), json!({"kind": "cli_budget", "command": cmd, "text": text})))
        });
        rep.add(out);
    }
    // thorough: coverage-guided campaign (libFuzzer) over the same in-target oracle
    if ctx.tier == Tier::Thorough && std::env::var("VERIF_NO_FUZZ").is_err() {
        fuzz_campaign(ctx, &mut rep);
    }
    // witnesses
    rep.replay_witnesses(&ctx.findings, &|w| witness(w));
    rep.extra.insert("gates_off".into(), json!(off));
    rep.extra.insert("known_panic_signatures".into(), json!(sigs.iter().map(|s| format!("{}: {}", s.id, s.msg_prefix)).collect::<Vec<_>>()));
    rep.assumptions = vec![
        "the budget is CPU time measured inside the worker (independent of machine load); an overrun is reported only when it reproduces 3/3 in fresh workers".into(),
        "known panics are tolerated by message prefix (known_findings.json signature), everything else is a violation".into(),
    ];
    rep.wall_s = clock.secs();
    rep.finish()
}

/// Builds and runs the cargo-fuzz target `total` for a wall-clock budget (a budget hit ends the
/// campaign; it is never a violation).  Crash artefacts become violations with a replay file.
fn fuzz_campaign(ctx: &Ctx, rep: &mut Report) {
    let root = verif_root();
    let budget: u64 = std::env::var("VERIF_FUZZ_SECONDS").ok().and_then(|s| s.parse().ok()).unwrap_or(240);
    let build = Command::new("cargo")
        .args(["+nightly", "fuzz", "build", "--fuzz-dir"])
        .arg(root.join("fuzz"))
        .args(["-s", "none", "total"])
        .current_dir(root.join("harness"))
        .env("CARGO_NET_OFFLINE", "true")
        .env("RUST_BACKTRACE", "0")
        .output();
    let ok = matches!(&build, Ok(o) if o.status.success());
    if !ok {
        let msg = build.map(|o| String::from_utf8_lossy(&o.stderr).lines().rev().take(5).collect::<Vec<_>>().join(" | ")).unwrap_or_else(|e| e.to_string());
        rep.infra_errors.push(format!("cargo +nightly fuzz build failed: {}", msg));
        return;
    }
    let bin = root.join(".build/h/x86_64-unknown-linux-gnu/release/total");
    let work = crate::drive::Scratch::new("fuzz");
    let corpus_dir = work.path.join("corpus");
    let arts = work.path.join("artifacts");
    std::fs::create_dir_all(&corpus_dir).unwrap();
    std::fs::create_dir_all(&arts).unwrap();
    for (i, text) in corpus().iter().enumerate() {
        let _ = std::fs::write(corpus_dir.join(format!("fixture{}", i)), text.as_bytes());
    }
    for k in 0..300u64 {
        let tape = crate::tape::derived(&mix(ctx.seed ^ k.wrapping_mul(0xABCD)).to_le_bytes(), 64 + (k as usize % 8) * 100);
        let _ = std::fs::write(corpus_dir.join(format!("tape{}", k)), &tape);
    }
    let jobs = ctx.threads.max(1);
    let out = Command::new(&bin)
        .arg(&corpus_dir)
        .args([
            format!("-max_total_time={}", budget),
            format!("-jobs={}", jobs),
            format!("-workers={}", jobs),
            "-len_control=0".into(),
            "-max_len=8192".into(),
            format!("-seed={}", ctx.seed.max(1)),
            "-print_final_stats=1".into(),
            format!("-artifact_prefix={}/", arts.to_string_lossy()),
        ])
        .current_dir(&work.path)
        .env("VERIF_ROOT", &root)
        .env("RUST_BACKTRACE", "0")
        .output();
    let mut execs: u64 = 0;
    if let Ok(rd) = std::fs::read_dir(&work.path) {
        for e in rd.filter_map(|e| e.ok()) {
            let n = e.file_name().to_string_lossy().to_string();
            if n.starts_with("fuzz-") && n.ends_with(".log") {
                if let Ok(t) = std::fs::read_to_string(e.path()) {
                    for l in t.lines() {
                        if let Some(v) = l.strip_prefix("stat::number_of_executed_units:") {
                            execs += v.trim().parse::<u64>().unwrap_or(0);
                        }
                    }
                }
            }
        }
    }
    let _ = out;
    rep.stats.class_n("fuzz.executions", execs);
    rep.stats.evaluations += execs;
    rep.extra.insert("libfuzzer".into(), json!({"executions": execs, "seconds": budget, "jobs": jobs, "seed_corpus": "repository fixtures + 300 choice tapes"}));
    if let Ok(rd) = std::fs::read_dir(&arts) {
        for e in rd.filter_map(|e| e.ok()) {
            let n = e.file_name().to_string_lossy().to_string();
            if n.starts_with("crash-") || n.starts_with("oom-") || n.starts_with("timeout-") {
                let bytes = std::fs::read(e.path()).unwrap_or_default();
                if n.starts_with("crash-") {
                    // confirm outside the fuzzer before believing it
                    if let Err(why) = fuzz_input_holds(&bytes) {
                        rep.failures.push((Failure::new("fuzz", "crash", why, json!({"bytes": bytes, "artifact": n})), vec![]));
                    } else {
                        rep.stats.inconclusive += 1;
                    }
                } else {
                    rep.stats.inconclusive += 1;
                }
            }
        }
    }
}

/// the fuzz target's oracle, outside the fuzzer: both views of the bytes through a worker
fn fuzz_input_holds(bytes: &[u8]) -> Result<(), String> {
    let text = match std::str::from_utf8(bytes) {
        Ok(s) => s.to_string(),
        Err(_) => bytes.iter().map(|&b| b as char).collect(),
    };
    let gates = Gates::with_off(crate::report::gates_off(&crate::report::load_findings(), "C04"));
    let (gen, _) = gen_input(&mut Tape::new(bytes), &gates);
    for t in [text, gen] {
        witness(&json!({"text": t}))?;
        if let Err((kind, detail)) = crate::props::c05::check_tiling(&t) {
            if ["panic", "token-span", "overlap", "gap", "token-text"].contains(&kind.as_str()) {
                return Err(format!("{}: {}", kind, detail));
            }
        }
    }
    Ok(())
}

/// witness {"kind":"no_panic","text":..}
/// CPU budget of one command-line invocation (seconds; the debug build of the pinned tree needs a few
/// seconds for the linear cases)
const CLI_CPU_BUDGET_S: u64 = 60;

/// runs `ironplcc <cmd> <file>` with its output discarded under a CPU-time limit (RLIMIT_CPU, so machine
/// load does not matter): Err when the limit ends it, or when it ends with the panic status
pub fn cli_within_budget(cmd: &str, text: &str) -> Result<(), String> {
    use std::os::unix::process::ExitStatusExt;
    let dir = crate::drive::Scratch::new("c04b");
    let p = dir.write("in.st", text.as_bytes());
    let script = format!("ulimit -t {}; exec \"$0\" \"$@\"", CLI_CPU_BUDGET_S);
    let st = Command::new("sh")
        .arg("-c")
        .arg(&script)
        .arg(crate::drive::ironplcc())
        .arg(cmd)
        .arg(&p)
        .env("RUST_BACKTRACE", "0")
        .stdin(std::process::Stdio::null())
        .stdout(std::process::Stdio::null())
        .stderr(std::process::Stdio::null())
        .status()
        .map_err(|e| format!("spawn: {}", e))?;
    match (st.code(), st.signal()) {
        (Some(101), _) => Err(format!("`ironplcc {}` on {} bytes ends with the panic status", cmd, text.len())),
        (Some(_), _) => Ok(()),
        (None, Some(sig)) if sig == libc::SIGXCPU || sig == libc::SIGKILL => Err(format!("`ironplcc {}` on {} bytes was still running after {} s of CPU time", cmd, text.len(), CLI_CPU_BUDGET_S)),
        (None, other) => Err(format!("`ironplcc {}` on {} bytes died by signal {:?}", cmd, text.len(), other)),
    }
}

pub fn witness(w: &Value) -> Result<(), String> {
    if w["kind"] == "cli_budget" {
        let text = match w["text"].as_str() {
            Some(t) => t.to_string(),
            None => w["char"].as_str().unwrap_or("?").repeat(w["count"].as_u64().unwrap_or(1) as usize),
        };
        return cli_within_budget(w["command"].as_str().unwrap_or("tokenize"), &text);
    }
    let text = w["text"].as_str().ok_or("no text")?;
    let mut wk = Worker::spawn();
    match wk.run(text) {
        Outcome4::Ok { .. } => Ok(()),
        Outcome4::Panic { stage, loc, msg } => Err(format!("{} panicked at {}: {}", stage, loc, msg)),
        Outcome4::Died { how } => Err(how),
    }
}

pub fn replay(ctx: &Ctx, v: &Value) -> i32 {
    let text = v["inputs"]["text"].as_str().unwrap_or("");
    // strict mode: no panic is tolerated on replay
    let r = if v["check"] == "fuzz" {
        let bytes: Vec<u8> = v["inputs"]["bytes"].as_array().map(|a| a.iter().map(|x| x.as_u64().unwrap_or(0) as u8).collect()).unwrap_or_default();
        fuzz_input_holds(&bytes)
    } else if v["check"] == "cli-budget" {
        witness(&v["inputs"])
    } else if v["check"] == "binary" {
        let dir = crate::drive::Scratch::new("c04r");
        let p = dir.write("in.st", text.as_bytes()).to_string_lossy().to_string();
        let cmd = v["inputs"]["command"].as_str().unwrap_or("check");
        let o = crate::drive::run_cli(&[cmd.to_string(), p], None);
        match o.status {
            Some(c) if c != 101 => Ok(()),
            other => Err(format!("exit {:?}", other)),
        }
    } else {
        witness(&json!({"text": text}))
    };
    match r {
        Ok(()) => {
            println!("replay: property holds on this input");
            0
        }
        Err(e) => {
            println!("VIOLATION property=C04 replay={}", ctx.replay_path.clone().unwrap_or_default());
            eprintln!("{}", e);
            1
        }
    }
}

#[allow(dead_code)]
fn unused(_: &Mutex<()>, _: &dyn Read) {}

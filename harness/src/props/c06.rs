//! C06 – the result is independent of declaration order, file partition, file order and run.
//!
//! A unit (valid, or with exactly one planted fault) is cut into chunks – one
//! per top-level declaration – and re-arranged: every permutation of the chunks
//! (exhaustive up to 5 declarations), every set partition into <= 3 files, every
//! file order.  The verdict – and for single-fault units the code set and the
//! location modulo placement (chunk id, offset inside the chunk, length) – must
//! equal that of the canonical single file.  Observed at analyze() with explicit
//! library order (deciding, deterministic), at Project::semantic() on in-memory
//! projects (fresh HashMap seeds per project) and at `ironplcc check` with
//! permuted arguments in fresh processes.

use crate::drive::{run_cli, Scratch};
use crate::gates::Gates;
use crate::gen_valid::*;
use crate::lexeme::{layout, SpellOpts};
use crate::printer::Printer;
use crate::report::Report;
use crate::runner::*;
use crate::tape::Tape;
use crate::Ctx;
use ironplc_analyzer::stages::analyze;
use ironplc_dsl::common::{DataTypeDeclarationKind, Library, LibraryElementKind};
use ironplc_dsl::core::FileId;
use ironplc_dsl::diagnostic::Diagnostic;
use ironplc_parser::options::ParseOptions;
use ironplc_parser::parse_program;
use ironplcc::project::{FileBackedProject, Project};
use serde_json::{json, Value};

/// one chunk of text per top-level declaration
pub fn chunks_of(lib: &Library, gates: &Gates) -> Vec<String> {
    lib.elements
        .iter()
        .map(|e| {
            let one = Library { elements: vec![e.clone()] };
            let mut p = Printer::new(gates, Tape::empty());
            p.library(&one);
            let lex = p.finish();
            let (lay, _) = layout(&lex, &SpellOpts::canonical(), &mut Tape::empty());
            gates.take_hits();
            lay.text
        })
        .collect()
}

/// the same chunks with every keyword and every identifier occurrence in a letter case of its own
/// (same lengths, so offsets inside a chunk stay comparable): a reference rarely has the spelling
/// of its declaration
pub fn chunks_of_recased(lib: &Library, gates: &Gates, t: &mut Tape) -> Vec<String> {
    lib.elements
        .iter()
        .map(|e| {
            let one = Library { elements: vec![e.clone()] };
            let mut p = Printer::new(gates, Tape::empty());
            p.library(&one);
            let lex = p.finish();
            let mut o = SpellOpts::canonical();
            o.ident_case = true;
            o.kw_case = true;
            let bytes: Vec<u8> = (0..96).map(|_| t.byte()).collect();
            let (lay, _) = layout(&lex, &o, &mut Tape::new(&bytes));
            gates.take_hits();
            lay.text
        })
        .collect()
}

/// files: each a list of chunk indices, in order
#[derive(Clone, Debug, PartialEq, Eq, Hash)]
pub struct Arrangement {
    pub files: Vec<Vec<usize>>,
}

impl Arrangement {
    pub fn describe(&self) -> String {
        self.files.iter().map(|f| format!("[{}]", f.iter().map(|c| c.to_string()).collect::<Vec<_>>().join(","))).collect::<Vec<_>>().join(" ")
    }
    pub fn texts(&self, chunks: &[String]) -> Vec<String> {
        self.files.iter().map(|f| f.iter().map(|&c| chunks[c].clone()).collect::<Vec<_>>().join("")).collect()
    }
}

#[derive(Clone, Debug, PartialEq, Eq)]
pub struct Observed {
    pub ok: bool,
    pub codes: Vec<String>,
    /// (code, chunk id, offset in chunk, length) of every primary label that can be mapped
    pub locs: Vec<(String, usize, usize, usize)>,
    pub parse_failed: bool,
}

fn map_label(arr: &Arrangement, chunks: &[String], d: &Diagnostic) -> Option<(String, usize, usize, usize)> {
    let file = d.primary.file_id.to_string();
    let fi: usize = (0..arr.files.len()).find(|&i| crate::drive::set_file_name(i) == file)?;
    let mut off = 0;
    for &c in arr.files.get(fi)? {
        let len = chunks[c].len();
        if d.primary.location.start >= off && d.primary.location.start < off + len {
            return Some((d.code.clone(), c, d.primary.location.start - off, d.primary.location.end.saturating_sub(d.primary.location.start)));
        }
        off += len;
    }
    None
}

pub fn observe_analyze(arr: &Arrangement, chunks: &[String]) -> Result<Observed, (String, String)> {
    let texts = arr.texts(chunks);
    let mut libs = vec![];
    for (i, t) in texts.iter().enumerate() {
        let fid = FileId::from_string(&crate::drive::set_file_name(i));
        match crate::panicx::catch(|| parse_program(t, &fid, &ParseOptions::default())) {
            Ok(Ok(l)) => libs.push(l),
            Ok(Err(_)) => return Ok(Observed { ok: false, codes: vec!["P0002".into()], locs: vec![], parse_failed: true }),
            Err((loc, msg)) => return Err(("panic".into(), format!("parse: {} {}", loc, msg))),
        }
    }
    let refs: Vec<&Library> = libs.iter().collect();
    match crate::panicx::catch(|| analyze(&refs)) {
        Ok(Ok(())) => Ok(Observed { ok: true, codes: vec![], locs: vec![], parse_failed: false }),
        Ok(Err(ds)) => {
            let mut codes: Vec<String> = ds.iter().map(|d| d.code.clone()).collect();
            codes.sort();
            let mut locs: Vec<_> = ds.iter().filter_map(|d| map_label(arr, chunks, d)).collect();
            locs.sort();
            Ok(Observed { ok: false, codes, locs, parse_failed: false })
        }
        Err((loc, msg)) => Err(("panic".into(), format!("analyze: {} {}", loc, msg))),
    }
}

/// verdict of Project::semantic() on an in-memory project (file insertion order = arrangement order)
pub fn observe_project(arr: &Arrangement, chunks: &[String]) -> Result<(bool, Vec<String>), (String, String)> {
    let texts = arr.texts(chunks);
    crate::panicx::catch(|| {
        let mut p = FileBackedProject::new();
        for (i, t) in texts.iter().enumerate() {
            p.change_text_document(&FileId::from_string(&crate::drive::set_file_name(i)), t.clone());
        }
        match p.semantic() {
            Ok(()) => (true, vec![]),
            Err(ds) => {
                let mut c: Vec<String> = ds.iter().map(|d| d.code.clone()).collect();
                c.sort();
                (false, c)
            }
        }
    })
    .map_err(|(loc, msg)| ("panic".to_string(), format!("Project::semantic: {} {}", loc, msg)))
}

fn permutations(n: usize) -> Vec<Vec<usize>> {
    fn rec(cur: &mut Vec<usize>, used: &mut Vec<bool>, n: usize, out: &mut Vec<Vec<usize>>) {
        if cur.len() == n {
            out.push(cur.clone());
            return;
        }
        for i in 0..n {
            if !used[i] {
                used[i] = true;
                cur.push(i);
                rec(cur, used, n, out);
                cur.pop();
                used[i] = false;
            }
        }
    }
    let mut out = vec![];
    rec(&mut vec![], &mut vec![false; n], n, &mut out);
    out
}

/// all set partitions of 0..n into <= 3 non-empty blocks (blocks keep chunk order), x all block orders
fn partitions(n: usize) -> Vec<Arrangement> {
    let mut out = vec![];
    // restricted growth strings
    fn rec(i: usize, n: usize, assign: &mut Vec<usize>, maxb: usize, out: &mut Vec<Vec<usize>>) {
        if i == n {
            out.push(assign.clone());
            return;
        }
        for b in 0..=maxb.min(2) {
            assign.push(b);
            rec(i + 1, n, assign, maxb.max(b + 1), out);
            assign.pop();
        }
    }
    let mut rgs = vec![];
    rec(0, n, &mut vec![], 0, &mut rgs);
    for a in rgs {
        let nb = a.iter().max().map(|m| m + 1).unwrap_or(0);
        let blocks: Vec<Vec<usize>> = (0..nb).map(|b| (0..n).filter(|&i| a[i] == b).collect()).collect();
        for order in permutations(nb) {
            out.push(Arrangement { files: order.iter().map(|&b| blocks[b].clone()).collect() });
        }
    }
    out
}

fn check_tape(tape: &[u8], gates: &Gates, stats: &mut Stats, counting: bool, cli_budget: &std::sync::atomic::AtomicI64) -> Result<(), Failure> {
    let mut profile = Profile::default();
    profile.max_decls = 5;
    profile.max_stmts = 3;
    profile.max_types = 2;
    let mut t = Tape::new(tape);
    let valid = gen_unit(&mut t, gates, &profile);
    let derived = crate::tape::derived(tape, 256);
    let mut choice = Tape::new(&derived);
    // variant: the valid unit, or one single-fault mutant
    let kinds: Vec<FaultKind> = ALL_FAULTS.iter().copied().filter(|k| valid.sites[k.index()] > 0).collect();
    let use_fault = !kinds.is_empty() && choice.ratio(2, 3);
    let unit = if use_fault {
        let k = kinds[choice.below(kinds.len())];
        let s = choice.below(valid.sites[k.index()]);
        let mut t2 = Tape::new(tape);
        gen_unit_with(&mut t2, gates, &profile, Some((k, s)))
    } else {
        valid
    };
    let n = unit.lib.elements.len();
    if n < 2 {
        if counting {
            stats.case(false, fnv_of(tape));
        }
        gates.take_wanted();
        return Ok(());
    }
    let recased = choice.flag();
    let mut chunks = if recased { chunks_of_recased(&unit.lib, gates, &mut choice) } else { chunks_of(&unit.lib, gates) };
    // third variant: a valid unit in which one declaration is written twice (identical text).
    // Only the verdict is compared (which copy is "the duplicate" may depend on the order).
    let duplicate = !use_fault && choice.ratio(1, 2) && gates.want("DUPLICATED_DECLARATION");
    if duplicate {
        let d = choice.below(chunks.len());
        let copy = chunks[d].clone();
        chunks.push(copy);
    }
    // fourth variant: a valid unit from which one declaration is MISSING - a data type or a function
    // block that at least two other declarations use.  Every use is an "unknown type" of its own;
    // which uses are reported, and where, is a matter of the set, not of its arrangement (compared
    // like a single-fault unit: codes and places)
    let mut missing_decl = false;
    if !use_fault && !duplicate && choice.ratio(1, 3) && gates.want("MISSING_DECLARATION_WITH_SEVERAL_USERS") {
        let names: Vec<Option<String>> = unit
            .lib
            .elements
            .iter()
            .map(|e| match e {
                LibraryElementKind::FunctionBlockDeclaration(f) => Some(f.name.original().to_string()),
                LibraryElementKind::DataTypeDeclaration(d) => match d {
                    DataTypeDeclarationKind::Enumeration(x) => Some(x.type_name.name.original().to_string()),
                    DataTypeDeclarationKind::Structure(x) => Some(x.type_name.name.original().to_string()),
                    DataTypeDeclarationKind::Array(x) => Some(x.type_name.name.original().to_string()),
                    _ => None,
                },
                _ => None,
            })
            .collect();
        let word_in = |hay: &str, w: &str| -> bool {
            let h = hay.to_ascii_lowercase();
            let w = w.to_ascii_lowercase();
            let b = h.as_bytes();
            let mut from = 0;
            while let Some(p) = h[from..].find(&w) {
                let s = from + p;
                let e = s + w.len();
                let okb = s == 0 || !(b[s - 1].is_ascii_alphanumeric() || b[s - 1] == b'_');
                let oke = e >= b.len() || !(b[e].is_ascii_alphanumeric() || b[e] == b'_');
                if okb && oke {
                    return true;
                }
                from = s + 1;
            }
            false
        };
        let cands: Vec<usize> = (0..names.len().min(chunks.len()))
            .filter(|&i| match &names[i] {
                Some(nm) => (0..chunks.len()).filter(|&j| j != i && word_in(&chunks[j], nm)).count() >= 2,
                None => false,
            })
            .collect();
        if !cands.is_empty() {
            let d = cands[choice.below(cands.len())];
            chunks.remove(d);
            missing_decl = true;
        }
    }
    // a chunk that declares nothing (a comment, blank lines, nothing at all): in the partitions it
    // becomes a file of its own - first, in the middle or last - and a file without declarations
    // changes nothing about the set
    let declaration_less = choice.ratio(1, 3) && gates.want("FILE_WITHOUT_DECLARATIONS");
    if declaration_less {
        chunks.push((*choice.pick(&["(* notes only *)\n", "\n\n", "", "(* a *) (* b *)"])).to_string());
    }
    // library style: every declaration (or every other one) carries an OSCAT description header of
    // its own.  One file then holds several description blocks, several files hold one each - the
    // text between the markers is no code wherever the cut falls
    let oscat_headers = choice.ratio(1, 6) && gates.want("OSCAT_DESCRIPTION_PER_DECLARATION");
    if oscat_headers {
        let every = choice.flag();
        for (k, c) in chunks.iter_mut().enumerate() {
            if c.trim().is_empty() || (!every && k % 2 == 1) {
                continue;
            }
            let body = *choice.pick(&["\nversion 1.2\nprogrammer x\n", " one line ", "\n  tested: yes\n  ", ""]);
            *c = format!("{}{}{}\n{}", crate::lexeme::OSCAT_OPEN_MARK, body, crate::lexeme::OSCAT_CLOSE_MARK, c);
        }
    }
    // declarations that the pinned tree answers with "not implemented" (P9999) next to a faulty unit:
    // a rule that gives up at such a declaration gives up for everything it visits later, so whether
    // the fault is still reported must not depend on where the declaration stands.  Only the verdict
    // is compared (which of the two answers comes first may depend on the order).
    let unsupported = use_fault && choice.ratio(1, 4) && gates.want("UNSUPPORTED_FEATURE_COMPANION");
    if unsupported {
        const UNSUPPORTED: &[&str] = &[
            "PROGRAM kx_p1\nVAR CONSTANT\nlim : ARRAY[1..3] OF INT := [1, 2, 3];\nEND_VAR\nEND_PROGRAM\n",
            "FUNCTION_BLOCK kx_fb0\nVAR CONSTANT\nlim : ARRAY[1..3] OF INT := [1, 2, 3];\nEND_VAR\nEND_FUNCTION_BLOCK\n",
            "TYPE\nkx_st : STRUCT\na : INT;\nEND_STRUCT;\nEND_TYPE\n\nFUNCTION_BLOCK kx_fb\nVAR CONSTANT\nc : kx_st := (a := 1);\nEND_VAR\nEND_FUNCTION_BLOCK\n",
            "TYPE\nkx_si : INT := 5;\nEND_TYPE\n",
            "TYPE\nkx_s2 : STRUCT\na : INT;\nEND_STRUCT;\nEND_TYPE\n\nPROGRAM kx_p3\nVAR\ns : kx_s2;\nEND_VAR\ns.a := 1;\nEND_PROGRAM\n",
            "FUNCTION_BLOCK kx_inner\nVAR_INPUT\ni : INT;\nEND_VAR\nEND_FUNCTION_BLOCK\n\nFUNCTION_BLOCK kx_outer\nVAR CONSTANT\nf : kx_inner;\nEND_VAR\nEND_FUNCTION_BLOCK\n",
        ];
        let u = (*choice.pick(UNSUPPORTED)).to_string();
        // at the front, at the back or somewhere between the declarations of the unit
        let at = choice.below(chunks.len() + 1);
        chunks.insert(at, u);
    }
    let n = chunks.len();
    let canonical = Arrangement { files: vec![(0..n).collect()] };
    let base = observe_analyze(&canonical, &chunks).map_err(|(k, d)| Failure::new("canonical", &k, d, json!({"chunks": chunks})))?;
    if base.parse_failed {
        if counting {
            if std::env::var("VERIF_DEBUG_HEALTH").is_ok() {
                eprintln!("HEALTH-FAILURE chunks:\n{}\n-----", chunks.join("\n~~~\n"));
            }
            stats.class("generator-health-failure");
        }
        return Ok(());
    }
    let single_fault = (unit.planted.is_some() && !unsupported) || missing_decl;
    let mut arrangements: Vec<Arrangement> = vec![];
    if n <= 5 {
        for p in permutations(n) {
            arrangements.push(Arrangement { files: vec![p] });
        }
    }
    arrangements.extend(partitions(n));
    // random chunk order inside a random partition
    for _ in 0..8 {
        let mut perm: Vec<usize> = (0..n).collect();
        for i in (1..n).rev() {
            perm.swap(i, choice.below(i + 1));
        }
        let cut1 = choice.below(n + 1);
        let cut2 = cut1 + choice.below(n + 1 - cut1);
        let files: Vec<Vec<usize>> = vec![perm[..cut1].to_vec(), perm[cut1..cut2].to_vec(), perm[cut2..].to_vec()].into_iter().filter(|f| !f.is_empty()).collect();
        arrangements.push(Arrangement { files });
    }
    let fail = |check: &str, kind: &str, detail: String, arr: &Arrangement| {
        Failure::new(check, kind, detail, json!({"chunks": chunks, "arrangement": arr.files, "files": arr.texts(&chunks), "canonical_codes": base.codes, "fault": unit.planted.as_ref().map(|p| format!("{:?}", p.kind))}))
    };
    for arr in &arrangements {
        let o = observe_analyze(arr, &chunks).map_err(|(k, d)| fail("arrangement", &k, d, arr))?;
        if counting {
            let nt = n >= 3 && unit.ref_edges >= 2 && arr != &canonical;
            stats.case(nt, hash_str(&format!("{}|{}", arr.describe(), chunks.join("\u{1}"))));
            stats.class(if arr.files.len() == 1 { "arrangement.permutation" } else { "arrangement.partition" });
            if missing_decl {
                stats.class("arrangement.of-a-unit-with-a-missing-declaration");
            }
        }
        if o.ok != base.ok {
            return Err(fail("arrangement", "verdict-differs", format!("canonical single file: ok={} codes {:?}; arrangement {}: ok={} codes {:?}", base.ok, base.codes, arr.describe(), o.ok, o.codes), arr));
        }
        if single_fault {
            if o.codes != base.codes {
                return Err(fail("arrangement", "codes-differ", format!("single-fault unit: canonical codes {:?}, arrangement {} codes {:?}", base.codes, arr.describe(), o.codes), arr));
            }
            if o.locs != base.locs {
                return Err(fail("arrangement", "location-differs", format!("single-fault unit: canonical (code, chunk, offset, len) {:?}, arrangement {} gives {:?}", base.locs, arr.describe(), o.locs), arr));
            }
        }
    }
    // Project::semantic(): fresh project (fresh hash seed) per repetition
    let sample: Vec<&Arrangement> = arrangements.iter().filter(|a| a.files.len() >= 2).take(6).collect();
    for arr in sample {
        for _rep in 0..4 {
            let (ok, codes) = observe_project(arr, &chunks).map_err(|(k, d)| fail("project", &k, d, arr))?;
            if counting {
                stats.class("project.semantic-run");
            }
            if ok != base.ok || (single_fault && codes != base.codes) {
                return Err(fail("project", "verdict-differs", format!("Project::semantic on {}: ok={} codes {:?}; canonical: ok={} codes {:?}", arr.describe(), ok, codes, base.ok, base.codes), arr));
            }
        }
    }
    // the binary, fresh processes
    if counting && cli_budget.fetch_sub(1, std::sync::atomic::Ordering::Relaxed) > 0 {
        if let Some(arr) = arrangements.iter().find(|a| a.files.len() >= 2) {
            let dir = Scratch::new("c06");
            let texts = arr.texts(&chunks);
            let mut paths = vec![];
            for (i, tx) in texts.iter().enumerate() {
                paths.push(dir.write(&crate::drive::set_file_name(i), tx.as_bytes()).to_string_lossy().to_string());
            }
            for rep in 0..3 {
                let mut args = vec!["check".to_string()];
                let mut ps = paths.clone();
                if rep % 2 == 1 {
                    ps.reverse();
                }
                args.extend(ps);
                let out = run_cli(&args, None);
                stats.class("cli.check-run");
                if out.timed_out {
                    stats.inconclusive += 1;
                    continue;
                }
                let ok = out.status == Some(0);
                if ok != base.ok {
                    return Err(fail("cli", "verdict-differs", format!("`ironplcc check` (run {}) exit {:?}, canonical ok={}", rep, out.status, base.ok), arr));
                }
            }
            // the same files, the first one named directly and the others lying in a directory that
            // is named before / after it: "file order and discovery" includes this mixture
            let sub = dir.path.join("rest");
            let _ = std::fs::create_dir_all(&sub);
            for (i, tx) in texts.iter().enumerate().skip(1) {
                let _ = std::fs::write(sub.join(crate::drive::set_file_name(i)), tx.as_bytes());
            }
            let first = paths[0].clone();
            let subs = sub.to_string_lossy().to_string();
            for args in [vec!["check".to_string(), first.clone(), subs.clone()], vec!["check".to_string(), subs.clone(), first.clone()]] {
                let out = run_cli(&args, None);
                stats.class("cli.check-run.file-and-directory");
                if out.timed_out {
                    stats.inconclusive += 1;
                    continue;
                }
                if (out.status == Some(0)) != base.ok {
                    return Err(fail("cli", "verdict-differs", format!("`ironplcc check {}` exit {:?}, canonical ok={}", if args[1] == first { "<file> <dir>" } else { "<dir> <file>" }, out.status, base.ok), arr));
                }
            }
        }
    }
    if counting {
        stats.class(if single_fault { "unit.single-fault" } else if duplicate { "unit.duplicated-declaration" } else { "unit.valid" });
        if recased {
            stats.class("unit.identifiers-recased");
        }
        if declaration_less {
            stats.class("unit.with-declaration-less-chunk");
        }
        if unsupported {
            stats.class("unit.single-fault-next-to-unsupported-declaration(verdict only)");
        }
        if oscat_headers {
            stats.class("unit.with-oscat-description-per-declaration");
        }
        stats.absorb_gates(gates);
        if stats.samples.len() < 3 {
            stats.samples.push(json!({"chunks": chunks, "arrangements_checked": arrangements.len(), "canonical_codes": base.codes}));
        }
    } else {
        gates.take_wanted();
    }
    Ok(())
}

/// Large sets: a unit of up to ~30 declarations, ONE FILE PER DECLARATION, in random file orders -
/// through analyze() with explicit order and through fresh in-memory projects (a hash map of a
/// few dozen files has many more iteration orders than one of three).
fn check_large_set(tape: &[u8], gates: &Gates, stats: &mut Stats, counting: bool) -> Result<(), Failure> {
    let mut profile = Profile::default();
    profile.max_types = 10;
    profile.max_fbs = 8;
    profile.max_funcs = 5;
    profile.max_progs = 4;
    profile.max_stmts = 3;
    let ext = crate::tape::derived(tape, 4096);
    let mut t = Tape::new(&ext);
    let valid = gen_unit(&mut t, gates, &profile);
    let mut choice = Tape::new(&ext[2048..]);
    let kinds: Vec<FaultKind> = ALL_FAULTS.iter().copied().filter(|k| valid.sites[k.index()] > 0).collect();
    let unit = if !kinds.is_empty() && choice.ratio(2, 3) {
        let k = kinds[choice.below(kinds.len())];
        let s = choice.below(valid.sites[k.index()]);
        gen_unit_with(&mut Tape::new(&ext), gates, &profile, Some((k, s)))
    } else {
        valid
    };
    let chunks = chunks_of(&unit.lib, gates);
    let n = chunks.len();
    gates.take_wanted();
    if n < 6 {
        if counting {
            stats.case(false, fnv_of(tape));
        }
        return Ok(());
    }
    let canonical = Arrangement { files: vec![(0..n).collect()] };
    let base = observe_analyze(&canonical, &chunks).map_err(|(k, d)| Failure::new("large-set-canonical", &k, d, json!({"chunks": chunks})))?;
    if base.parse_failed {
        if counting {
            if std::env::var("VERIF_DEBUG_HEALTH").is_ok() {
                eprintln!("HEALTH-FAILURE chunks:\n{}\n-----", chunks.join("\n~~~\n"));
            }
            stats.class("generator-health-failure");
        }
        return Ok(());
    }
    let single_fault = unit.planted.is_some();
    for r in 0..5 {
        let mut perm: Vec<usize> = (0..n).collect();
        for i in (1..n).rev() {
            perm.swap(i, choice.below(i + 1));
        }
        let arr = Arrangement { files: perm.iter().map(|&c| vec![c]).collect() };
        let fail = |check: &str, kind: &str, detail: String| Failure::new(check, kind, detail, json!({"chunks": chunks, "arrangement": arr.files, "files": arr.texts(&chunks), "canonical_codes": base.codes, "fault": unit.planted.as_ref().map(|p| format!("{:?}", p.kind))}));
        let o = observe_analyze(&arr, &chunks).map_err(|(k, d)| fail("large-set", &k, d))?;
        if counting {
            stats.case(true, hash_str(&format!("{}|{}", arr.describe(), chunks.join("\u{1}"))));
            stats.class(&format!("large-set.files-{}", if n < 10 { "6..9" } else if n < 20 { "10..19" } else { "20+" }));
        }
        if o.ok != base.ok || (single_fault && o.codes != base.codes) {
            return Err(fail("large-set", "verdict-differs", format!("one file: ok={} codes {:?}; {} files in order #{}: ok={} codes {:?}", base.ok, base.codes, n, r, o.ok, o.codes)));
        }
        if single_fault && o.locs.iter().map(|l| (&l.0, l.1, l.2, l.3)).collect::<Vec<_>>() != base.locs.iter().map(|l| (&l.0, l.1, l.2, l.3)).collect::<Vec<_>>() {
            return Err(fail("large-set", "location-differs", format!("one file: (code, chunk, offset, len) {:?}; {} files: {:?}", base.locs, n, o.locs)));
        }
        let (ok, codes) = observe_project(&arr, &chunks).map_err(|(k, d)| fail("large-set-project", &k, d))?;
        if counting {
            stats.class("large-set.project-run");
        }
        if ok != base.ok || (single_fault && codes != base.codes) {
            return Err(fail("large-set-project", "verdict-differs", format!("Project::semantic on {} files: ok={} codes {:?}; one file: ok={} codes {:?}", n, ok, codes, base.ok, base.codes)));
        }
    }
    Ok(())
}

/// "... or on the particular run": a unit whose one fault is a recursion (2..4 declarations that
/// contain or alias each other, also through a mix of both) analysed eight times in this process
/// and through fresh projects - every run reports the same code at the same place.  (Which member
/// of a cycle is named may depend on the declaration order - a cycle has no single location - so
/// only repetitions of ONE arrangement are compared.)
fn check_cycle_runs(tape: &[u8], stats: &mut Stats, counting: bool) -> Result<(), Failure> {
    let mut t = Tape::new(tape);
    let n = 2 + t.below(3);
    let mut adj = vec![vec![false; n]; n];
    // a cycle through all n nodes plus a few extra edges
    for i in 0..n {
        adj[i][(i + 1) % n] = true;
    }
    for _ in 0..t.below(3) {
        let (a, b) = (t.below(n), t.below(n));
        adj[a][b] = true;
    }
    let g = crate::props::c07::Graph { n, adj };
    let salt = t.u64();
    let text = match t.below(3) {
        0 => crate::props::c07::realise_fb(&g, salt, false).0,
        1 => crate::props::c07::realise_type(&g, salt, false).0,
        _ => crate::props::c07::realise_mixed(&g, salt, false).map(|x| x.0).unwrap_or_else(|| crate::props::c07::realise_type(&g, salt, false).0),
    };
    let chunks = vec![text];
    let arr = Arrangement { files: vec![vec![0]] };
    let first = observe_analyze(&arr, &chunks).map_err(|(k, d)| Failure::new("cycle-runs", &k, d, json!({"chunks": chunks})))?;
    if counting {
        stats.case(true, hash_str(&chunks[0]));
        stats.class(if first.codes.iter().any(|c| c == "P0010" || c == "P0013") { "cycle-runs.recursion-reported" } else { "cycle-runs.other-outcome" });
    }
    for r in 0..7 {
        let o = observe_analyze(&arr, &chunks).map_err(|(k, d)| Failure::new("cycle-runs", &k, d, json!({"chunks": chunks})))?;
        if o != first {
            return Err(Failure::new("cycle-runs", "run-differs", format!("run 0: codes {:?} at {:?}; run {}: codes {:?} at {:?}", first.codes, first.locs, r + 1, o.codes, o.locs), json!({"chunks": chunks})));
        }
    }
    for r in 0..3 {
        let (ok, codes) = observe_project(&arr, &chunks).map_err(|(k, d)| Failure::new("cycle-runs", &k, d, json!({"chunks": chunks})))?;
        if ok != first.ok || codes != first.codes {
            return Err(Failure::new("cycle-runs", "run-differs", format!("analyze: ok={} codes {:?}; fresh project #{}: ok={} codes {:?}", first.ok, first.codes, r, ok, codes), json!({"chunks": chunks})));
        }
    }
    Ok(())
}

/// Scope-leak grid (exhaustive, deterministic): a name that is declared in ONE declaration (as a
/// variable of any class, or as a function block instance) is used in ANOTHER declaration that
/// does not declare it.  owner kind x variable class x (plain variable | instance) x user kind;
/// every permutation of the declarations in one file and every partition into files must be
/// rejected with the rule's code - whatever was analysed before must not leak into the next scope.
fn leak_grid_cells() -> Vec<(String, Vec<String>, &'static str)> {
    let mut out = vec![];
    let tfb = "FUNCTION_BLOCK lk_timer\nVAR_INPUT\nlk_in : INT;\nEND_VAR\nVAR\nlk_n : INT;\nEND_VAR\nlk_n := lk_in;\nEND_FUNCTION_BLOCK\n".to_string();
    for owner in ["FUNCTION", "FUNCTION_BLOCK", "PROGRAM"] {
        for class in ["VAR", "VAR_INPUT", "VAR_OUTPUT", "VAR_IN_OUT", "VAR CONSTANT", "VAR RETAIN"] {
            for instance in [false, true] {
                if instance && class == "VAR CONSTANT" {
                    continue;
                }
                // (a FUNCTION has no RETAIN block: function_var_decls is VAR [CONSTANT])
                if owner == "FUNCTION" && class == "VAR RETAIN" {
                    continue;
                }
                let decl = if instance {
                    "lk_leak : lk_timer;".to_string()
                } else if class == "VAR CONSTANT" {
                    "lk_leak : INT := 1;".to_string()
                } else {
                    "lk_leak : INT;".to_string()
                };
                let own_use = if instance { "lk_leak(lk_in := 1);\n" } else { "" };
                let owner_text = match owner {
                    "FUNCTION" => format!("FUNCTION lk_owner : INT\n{}\n{}\nEND_VAR\n{}lk_owner := 1;\nEND_FUNCTION\n", class, decl, own_use),
                    "FUNCTION_BLOCK" => format!("FUNCTION_BLOCK lk_owner\n{}\n{}\nEND_VAR\n{}END_FUNCTION_BLOCK\n", class, decl, own_use),
                    _ => format!("PROGRAM lk_owner\n{}\n{}\nEND_VAR\n{}END_PROGRAM\n", class, decl, own_use),
                };
                for user in ["FUNCTION", "FUNCTION_BLOCK", "PROGRAM"] {
                    let stmt = if instance { "lk_leak(lk_in := 2);\n" } else { "lk_y := lk_leak;\n" };
                    let user_text = match user {
                        "FUNCTION" => format!("FUNCTION lk_user : INT\nVAR\nlk_y : INT;\nEND_VAR\n{}lk_user := 2;\nEND_FUNCTION\n", stmt),
                        "FUNCTION_BLOCK" => format!("FUNCTION_BLOCK lk_user\nVAR\nlk_y : INT;\nEND_VAR\n{}END_FUNCTION_BLOCK\n", stmt),
                        _ => format!("PROGRAM lk_user\nVAR\nlk_y : INT;\nEND_VAR\n{}END_PROGRAM\n", stmt),
                    };
                    let mut chunks = vec![owner_text.clone(), user_text];
                    if instance {
                        chunks.push(tfb.clone());
                    }
                    out.push((format!("{} {} {} used in {}", owner, class, if instance { "instance" } else { "variable" }, user), chunks, if instance { "P0021" } else { "P0015" }));
                }
            }
        }
    }
    // the NAME of a declaration used as a plain variable in another declaration
    for (kind, owner_text) in [
        ("FUNCTION name", "FUNCTION lk_leak : INT\nVAR_INPUT\nlk_a : INT;\nEND_VAR\nlk_leak := lk_a;\nEND_FUNCTION\n"),
        ("FUNCTION_BLOCK name", "FUNCTION_BLOCK lk_leak\nVAR\nlk_a : INT;\nEND_VAR\nlk_a := 1;\nEND_FUNCTION_BLOCK\n"),
        ("PROGRAM name", "PROGRAM lk_leak\nVAR\nlk_a : INT;\nEND_VAR\nlk_a := 1;\nEND_PROGRAM\n"),
        ("TYPE name", "TYPE\nlk_leak : (lk_v1, lk_v2);\nEND_TYPE\n"),
        ("enumeration value", "TYPE\nlk_en : (lk_leak, lk_v2);\nEND_TYPE\n"),
    ] {
        for user in ["FUNCTION", "FUNCTION_BLOCK", "PROGRAM"] {
            let stmt = "lk_y := lk_leak;\n";
            let user_text = match user {
                "FUNCTION" => format!("FUNCTION lk_user : INT\nVAR\nlk_y : INT;\nEND_VAR\n{}lk_user := 2;\nEND_FUNCTION\n", stmt),
                "FUNCTION_BLOCK" => format!("FUNCTION_BLOCK lk_user\nVAR\nlk_y : INT;\nEND_VAR\n{}END_FUNCTION_BLOCK\n", stmt),
                _ => format!("PROGRAM lk_user\nVAR\nlk_y : INT;\nEND_VAR\n{}END_PROGRAM\n", stmt),
            };
            out.push((format!("{} used as a variable in {}", kind, user), vec![owner_text.to_string(), user_text], "P0015"));
        }
    }
    out
}

fn run_leak_grid(rep: &mut Report) {
    let cells = leak_grid_cells();
    let n = cells.len();
    let out = run_items(&cells, 8, |(name, chunks, code), stats| {
        let k = chunks.len();
        // precondition: the owner (with the function block type) is acceptable on its own, else the
        // cell says nothing about leaks (counted)
        let owner_idx: Vec<usize> = (0..k).filter(|&i| i != 1).collect();
        let owner_only = Arrangement { files: vec![owner_idx] };
        let base = observe_analyze(&owner_only, chunks).map_err(|(kd, d)| Failure::new("leak-grid", &kd, d, json!({"cell": name, "chunks": chunks})))?;
        if !base.ok {
            stats.case(false, hash_str(name));
            stats.class("leak-grid.owner-not-accepted(skipped)");
            if std::env::var("VERIF_DEBUG_HEALTH").is_ok() {
                eprintln!("LEAK-GRID-SKIPPED {}: owner alone gives {:?}", name, base.codes);
            }
            return Ok(());
        }
        let mut arrangements: Vec<Arrangement> = permutations(k).into_iter().map(|p| Arrangement { files: vec![p] }).collect();
        arrangements.extend(partitions(k));
        for arr in &arrangements {
            let o = observe_analyze(arr, chunks).map_err(|(kd, d)| Failure::new("leak-grid", &kd, d, json!({"cell": name, "chunks": chunks})))?;
            stats.case(true, hash_str(&format!("{}|{}", name, arr.describe())));
            stats.class("leak-grid.arrangement");
            if o.ok || !o.codes.iter().any(|c| c == code) {
                return Err(Failure::new(
                    "leak-grid",
                    "name-leaks-between-scopes",
                    format!("{}: arrangement {} gives ok={} codes {:?}; {} is required in every arrangement (the name is declared in another declaration only)", name, arr.describe(), o.ok, o.codes, code),
                    json!({"cell": name, "chunks": chunks, "arrangement": arr.files, "files": arr.texts(chunks)}),
                ));
            }
        }
        Ok(())
    });
    rep.add(out);
    rep.extra.insert("leak_grid_cells".into(), json!(n));
}

/// Statement-context grid (exhaustive, deterministic): what the analyzer remembers from the LAST
/// statement of one declaration must not colour the FIRST statement of the next one.  Declaration A
/// ends with an assignment to a variable of some kind (enumeration with / without initial value,
/// integer, subrange-typed, array element); declaration B begins with a bare name outside an
/// assignment (IF / WHILE / CASE condition, call argument) - declared (the unit is valid) or not
/// (P0015).  Every permutation and partition gives the same answer.
fn context_grid_cells() -> Vec<(String, Vec<String>, Option<&'static str>)> {
    let types = "TYPE\ncx_col : (cx_red, cx_green);\ncx_sr : INT(1..5);\nEND_TYPE\n".to_string();
    let callee = "FUNCTION_BLOCK cx_callee\nVAR_INPUT\ncx_i : BOOL;\nEND_VAR\nEND_FUNCTION_BLOCK\n".to_string();
    let lasts: Vec<(&str, &str, &str)> = vec![
        ("enumeration with initial value", "cx_c : cx_col := cx_red;", "cx_c := cx_green;"),
        // (assigning to an enumeration variable without initial value or to an array element is "not
        // implemented" on the pinned tree - P9999 -, so those kinds are not in the grid)
        ("integer", "cx_c : INT;", "cx_c := 1;"),
        ("subrange-typed with initial value", "cx_c : cx_sr := 3;", "cx_c := 4;"),
        ("boolean", "cx_c : BOOL := TRUE;", "cx_c := FALSE;"),
        ("duration", "cx_c : TIME := T#1s;", "cx_c := T#2s;"),
        ("real", "cx_c : REAL;", "cx_c := 1.5;"),
    ];
    let firsts: Vec<(&str, &str)> = vec![
        ("IF", "IF cx_en THEN\ncx_y := 1;\nEND_IF;\n"),
        ("WHILE", "WHILE cx_en DO\ncx_y := 1;\nEND_WHILE;\n"),
        ("CASE", "CASE cx_en OF\n1: cx_y := 1;\nEND_CASE;\n"),
        ("call argument", "cx_inst(cx_i := cx_en);\n"),
        ("REPEAT", "REPEAT\ncx_y := 1;\nUNTIL cx_en\nEND_REPEAT;\n"),
    ];
    let mut out = vec![];
    for (lname, ldecl, lstmt) in &lasts {
        for akind in ["FUNCTION_BLOCK", "PROGRAM"] {
            let a = format!("{} cx_a\nVAR\n{}\nEND_VAR\n{}\nEND_{}\n", akind, ldecl, lstmt, akind);
            for (fname, fstmt) in &firsts {
                for bkind in ["FUNCTION_BLOCK", "PROGRAM"] {
                    for declared in [true, false] {
                        let en = if declared { if *fname == "CASE" { "cx_en : INT;\n" } else { "cx_en : BOOL;\n" } } else { "" };
                        let b = format!("{} cx_b\nVAR\n{}cx_y : INT;\ncx_inst : cx_callee;\nEND_VAR\n{}END_{}\n", bkind, en, fstmt, bkind);
                        out.push((format!("{} ends with an assignment to a variable of kind '{}'; {} begins with {} on a {} name", akind, lname, bkind, fname, if declared { "declared" } else { "undeclared" }), vec![types.clone(), a.clone(), b, callee.clone()], if declared { None } else { Some("P0015") }));
                    }
                }
            }
        }
    }
    out
}

fn run_context_grid(rep: &mut Report) {
    let cells = context_grid_cells();
    let n = cells.len();
    let out = run_items(&cells, 16, |(name, chunks, code), stats| {
        let k = chunks.len();
        let mut arrangements: Vec<Arrangement> = permutations(k).into_iter().map(|p| Arrangement { files: vec![p] }).collect();
        arrangements.extend(partitions(k));
        // the declaration B alone (with what it needs) says what the answer is
        let alone = Arrangement { files: vec![vec![0, 2, 3]] };
        let base = observe_analyze(&alone, chunks).map_err(|(kd, d)| Failure::new("context-grid", &kd, d, json!({"cell": name, "chunks": chunks})))?;
        let expected_ok = code.is_none();
        // (and declaration A on its own is acceptable - an assignment that the analyzer does not
        // implement, P9999, says nothing about leaks)
        let a_alone = observe_analyze(&Arrangement { files: vec![vec![0, 1]] }, chunks).map_err(|(kd, d)| Failure::new("context-grid", &kd, d, json!({"cell": name, "chunks": chunks})))?;
        if !a_alone.ok {
            stats.case(false, hash_str(name));
            stats.class("context-grid.first-declaration-not-accepted(left out)");
            return Ok(());
        }
        if base.ok != expected_ok || (!expected_ok && !base.codes.iter().any(|c| Some(c.as_str()) == *code)) {
            stats.case(false, hash_str(name));
            stats.class("context-grid.precondition-not-met(skipped)");
            stats.notes.push(format!("context grid cell skipped ({}): B alone gives ok={} codes {:?}", name, base.ok, base.codes));
            return Ok(());
        }
        for arr in &arrangements {
            let o = observe_analyze(arr, chunks).map_err(|(kd, d)| Failure::new("context-grid", &kd, d, json!({"cell": name, "chunks": chunks})))?;
            stats.case(true, hash_str(&format!("{}|{}", name, arr.describe())));
            stats.class("context-grid.arrangement");
            let bad = match code {
                None => !o.ok,
                Some(c) => o.ok || !o.codes.iter().any(|x| x == c),
            };
            if bad {
                return Err(Failure::new(
                    "context-grid",
                    "statement-context-leaks-between-declarations",
                    format!("{}: on its own the second declaration gives ok={} codes {:?}; arrangement {} gives ok={} codes {:?}", name, base.ok, base.codes, arr.describe(), o.ok, o.codes),
                    json!({"cell": name, "chunks": chunks, "arrangement": arr.files, "files": arr.texts(chunks)}),
                ));
            }
        }
        Ok(())
    });
    rep.add(out);
    rep.extra.insert("context_grid_cells".into(), json!(n));
}

fn fnv_of(t: &[u8]) -> u64 {
    crate::tape::fnv(t)
}

pub fn run(ctx: &Ctx) -> i32 {
    let clock = Clock::start();
    let mut rep = Report::new(
        "C06",
        ctx.tier,
        ctx.seed,
        "exploration",
        "units of <= 5 top-level declarations with cross references (valid, one planted fault, or one declaration written twice), one chunk per declaration: ALL permutations of the chunks, ALL set partitions into <= 3 files x ALL file orders, plus random permuted partitions; verdict (and for single-fault units the code multiset and every mappable primary label as (code, chunk, offset in chunk, length)) must equal the canonical single file. analyze() with explicit library order decides; Project::semantic() on fresh in-memory projects (4 per sampled arrangement: fresh HashMap seeds) and `ironplcc check` in fresh processes with permuted arguments are sampled. Plus the exhaustive scope-leak grid: a name declared in one declaration (function / function block / program x 6 variable classes x plain variable / function block instance) and used in another one that does not declare it must be rejected (P0015 / P0021) in every permutation and partition. Recursive units (cycles of 2..4 declarations through instances, aliases, structure elements and mixes) analysed eight times and through fresh projects: same code at the same place in every run. Large sets: units of 6..30 declarations, one file per declaration, 5 random file orders each through analyze() and through a fresh in-memory project. Non-trivial: >= 3 declarations, >= 2 reference edges, arrangement != canonical; distinct by (arrangement, chunks).",
    );
    let gates = ctx.gates_for("C06");
    let off = gates.off_list();
    run_leak_grid(&mut rep);
    run_context_grid(&mut rep);
    let cases = ctx.tier.pick(8_000, 150_000);
    let cli_budget = std::sync::atomic::AtomicI64::new(ctx.tier.pick(80, 2000));
    let out = run_tapes("C06", ctx.seed, ctx.threads, cases, 700, |tape, stats, counting| {
        let g = Gates::with_off(off.clone());
        check_tape(tape, &g, stats, counting, &cli_budget)
    });
    rep.add(out);
    let out = run_tapes("C06L", ctx.seed ^ 0x1a26e, ctx.threads, ctx.tier.pick(3_000, 60_000), 24, |tape, stats, counting| {
        let g = Gates::with_off(off.clone());
        check_large_set(tape, &g, stats, counting)
    });
    rep.add(out);
    let out = run_tapes("C06R", ctx.seed ^ 0xc7c1e, ctx.threads, ctx.tier.pick(3_000, 60_000), 24, |tape, stats, counting| check_cycle_runs(tape, stats, counting));
    rep.add(out);
    crate::fuzzrun::tape_campaign(ctx, &mut rep, "C06", &gates);
    rep.replay_witnesses(&ctx.findings, &|w| witness(w));
    rep.extra.insert("gates_off".into(), json!(off));
    rep.assumptions = vec![
        "hash seeds of child processes cannot be chosen: process-level repeats are a sample; explicit order enumeration at analyze() is the deciding search".into(),
        "names are unique per unit, so duplicate-name handling (C03) cannot make the oracle itself order dependent".into(),
    ];
    rep.wall_s = clock.secs();
    rep.finish()
}

/// witness {"kind":"same_verdict","files_a":[...],"files_b":[...]}: both arrangements must give the same verdict and codes
pub fn witness(w: &Value) -> Result<(), String> {
    let get = |k: &str| -> Vec<String> { w[k].as_array().map(|a| a.iter().filter_map(|x| x.as_str().map(String::from)).collect()).unwrap_or_default() };
    let (a, b) = (get("files_a"), get("files_b"));
    let obs = |files: &Vec<String>| -> Result<Observed, String> {
        let arr = Arrangement { files: (0..files.len()).map(|i| vec![i]).collect() };
        observe_analyze(&arr, files).map_err(|(k, d)| format!("{}: {}", k, d))
    };
    let (oa, ob) = (obs(&a)?, obs(&b)?);
    if oa.ok != ob.ok || oa.codes != ob.codes {
        return Err(format!("arrangement a: ok={} {:?}; arrangement b: ok={} {:?}", oa.ok, oa.codes, ob.ok, ob.codes));
    }
    // and repeated project runs agree with it
    for files in [&a, &b] {
        let arr = Arrangement { files: (0..files.len()).map(|i| vec![i]).collect() };
        for _ in 0..8 {
            let (ok, _) = observe_project(&arr, files).map_err(|(k, d)| format!("{}: {}", k, d))?;
            if ok != oa.ok {
                return Err(format!("Project::semantic verdict ok={} differs from analyze ok={}", ok, oa.ok));
            }
        }
    }
    Ok(())
}

pub fn replay(ctx: &Ctx, v: &Value) -> i32 {
    let r: Result<(), String> = if v["check"] == "witness" {
        witness(&v["inputs"])
    } else {
        let tape: Vec<u8> = v["tape"].as_array().map(|a| a.iter().map(|x| x.as_u64().unwrap_or(0) as u8).collect()).unwrap_or_default();
        let gates = ctx.gates_for("C06");
        let mut s = Stats::default();
        let budget = std::sync::atomic::AtomicI64::new(1);
        // hash-seed dependent failures reproduce probabilistically: try repeatedly
        let mut r = Ok(());
        for _ in 0..50 {
            r = check_tape(&tape, &gates, &mut s, true, &budget).map_err(|f| format!("{}: {}", f.kind, f.detail));
            if r.is_err() {
                break;
            }
        }
        r
    };
    match r {
        Ok(()) => {
            println!("replay: property holds on this input");
            0
        }
        Err(e) => {
            println!("VIOLATION property=C06 replay={}", ctx.replay_path.clone().unwrap_or_default());
            eprintln!("{}", e);
            1
        }
    }
}

/// one tape through the in-process oracle (used by the coverage-guided `tapes` fuzz target)
pub fn fuzz_one(tape: &[u8], gates: &Gates) -> Result<(), Failure> {
    let mut s = Stats::default();
    let zero = std::sync::atomic::AtomicI64::new(0);
    check_tape(tape, gates, &mut s, false, &zero)
}

//! C12 – the language server answers every request exactly once and survives any message sequence.
//!
//! Random scripts (proptest-shrunk as a tape) of well-formed JSON-RPC messages after a correct
//! handshake, always followed by shutdown, exit, close of stdin.  A ledger built from the
//! server's stdout frames is evaluated after the process has exited.

use crate::drive::*;
use crate::gates::Gates;
use crate::report::Report;
use crate::runner::*;
use crate::tape::Tape;
use crate::Ctx;
use serde_json::{json, Value};
use std::collections::HashMap;

const DOCS: &[&str] = &[
    "PROGRAM p\nVAR\nx : INT;\nEND_VAR\nx := 1;\nEND_PROGRAM\n",
    "PROGRAM p\nVAR\nx : INT;\nEND_VAR\nx := y;\nEND_PROGRAM\n",
    "PROGRAM p\nVAR\nx : INT\nEND_VAR\nEND_PROGRAM\n",
    "PROGRAM p ? \nEND_PROGRAM\n",
    "",
    "TYPE\nc : (r, g);\nEND_TYPE\n",
];
// (more than a dozen distinct file documents can be open in one session)
const URIS: &[&str] = &[
    "file:///w/a.st", "file:///w/b.st", "file:///w/sub/c.iec", "untitled:Untitled-1", "http://example.com/x.st", "file:///w/d%20e.st", "file:///w/f01.st", "file:///w/f02.st", "file:///w/f03.st",
    "file:///w/f04.st", "file:///w/f05.st", "file:///w/f06.st", "file:///w/f07.st", "file:///w/f08.st", "file:///w/f09.st", "file:///w/%C3%BC.st", "file:///W/A.ST",
    // URIs of other schemes an editor hands out: opaque ones (no authority, no rooted path), with an
    // authority, with a query, a file URI with a host
    "vscode-notebook-cell:main.st", "inmemory:model1", "urn:isbn:0451450523", "inmemory://model/1", "vscode-vfs://github/org/repo/x.st", "git:/w/x.st?ref=HEAD", "file://example.net/a/b.st",
];
// (a life-cycle request repeated in mid-session - a second `initialize` - is a request like any other: one answer)
const UNKNOWN_REQUESTS: &[&str] = &["textDocument/hover", "workspace/symbol", "textDocument/completion", "textDocument/definition", "custom/doesNotExist", "$/unknownRequest", "initialize", "client/registerCapability", "workspace/configuration", "window/showMessageRequest"];
const UNKNOWN_NOTIFICATIONS: &[&str] = &["$/setTrace", "textDocument/didClose", "textDocument/didSave", "workspace/didChangeConfiguration", "custom/note", "$/cancelRequest"];
/// every client-to-server method name of LSP 3.17 that the server neither implements nor needs for
/// its life cycle (requests and notifications alike): each may arrive WITH an id - then it is a
/// request and must be answered once, whatever the specification calls the method - or WITHOUT
/// one - then it is a notification and must never be answered
const LSP_METHODS: &[&str] = &[
    "textDocument/willSave", "textDocument/willSaveWaitUntil", "textDocument/didSave", "textDocument/declaration", "textDocument/definition", "textDocument/typeDefinition",
    "textDocument/implementation", "textDocument/references", "textDocument/prepareCallHierarchy", "callHierarchy/incomingCalls", "callHierarchy/outgoingCalls",
    "textDocument/prepareTypeHierarchy", "typeHierarchy/supertypes", "typeHierarchy/subtypes", "textDocument/documentHighlight", "textDocument/documentLink", "documentLink/resolve",
    "textDocument/hover", "textDocument/codeLens", "codeLens/resolve", "textDocument/foldingRange", "textDocument/selectionRange", "textDocument/documentSymbol",
    "textDocument/semanticTokens/full/delta", "textDocument/semanticTokens/range", "textDocument/inlineValue", "textDocument/inlayHint", "inlayHint/resolve", "textDocument/moniker",
    "textDocument/completion", "completionItem/resolve", "textDocument/diagnostic", "workspace/diagnostic", "textDocument/signatureHelp", "textDocument/codeAction", "codeAction/resolve",
    "textDocument/documentColor", "textDocument/colorPresentation", "textDocument/formatting", "textDocument/rangeFormatting", "textDocument/onTypeFormatting", "textDocument/rename",
    "textDocument/prepareRename", "textDocument/linkedEditingRange", "workspace/symbol", "workspaceSymbol/resolve", "workspace/didChangeConfiguration", "workspace/didChangeWorkspaceFolders",
    "workspace/willCreateFiles", "workspace/didCreateFiles", "workspace/willRenameFiles", "workspace/didRenameFiles", "workspace/willDeleteFiles", "workspace/didDeleteFiles",
    "workspace/didChangeWatchedFiles", "workspace/executeCommand", "notebookDocument/didOpen", "notebookDocument/didChange", "notebookDocument/didSave", "notebookDocument/didClose",
    "window/workDoneProgress/cancel", "$/setTrace", "$/progress", "$/logTrace",
];

#[derive(Clone, Debug)]
pub struct Script {
    pub messages: Vec<Value>,
    /// ids of requests sent (as JSON values), with their method
    pub requests: Vec<(Value, String)>,
    /// (uri, version) of every didOpen / didChange sent, in order
    pub doc_notifications: Vec<(String, i64)>,
    pub kinds: Vec<&'static str>,
}

fn params_for(method: &str, uri: &str) -> Value {
    match method {
        "textDocument/hover" | "textDocument/completion" | "textDocument/definition" => json!({"textDocument": {"uri": uri}, "position": {"line": 0, "character": 0}}),
        "workspace/symbol" => json!({"query": "x"}),
        "initialize" => json!({"processId": null, "rootUri": null, "capabilities": {}}),
        "$/setTrace" => json!({"value": "off"}),
        "textDocument/didClose" => json!({"textDocument": {"uri": uri}}),
        "textDocument/didSave" => json!({"textDocument": {"uri": uri}}),
        "textDocument/willSave" | "textDocument/willSaveWaitUntil" => json!({"textDocument": {"uri": uri}, "reason": 1}),
        m if m.starts_with("textDocument/") => json!({"textDocument": {"uri": uri}, "position": {"line": 0, "character": 0}, "range": {"start": {"line": 0, "character": 0}, "end": {"line": 0, "character": 1}}, "context": {"diagnostics": [], "includeDeclaration": true}, "options": {"tabSize": 2, "insertSpaces": true}, "newName": "n", "ch": ";"}),
        "workspace/didChangeConfiguration" => json!({"settings": {}}),
        "$/cancelRequest" => json!({"id": 4242}),
        _ => json!({}),
    }
}

static DEEP: std::sync::OnceLock<Vec<String>> = std::sync::OnceLock::new();
static WORKSPACE: std::sync::OnceLock<std::path::PathBuf> = std::sync::OnceLock::new();

/// A workspace folder on disk for `initialize` (same content in every process, so a replay file
/// that names it stays valid): sources that are fine, faulty, in another encoding, not text at
/// all, a *directory* with a source extension, and entries that are not sources.
pub fn workspace() -> &'static std::path::PathBuf {
    WORKSPACE.get_or_init(|| {
        let dir = verif_root().join(".build/tmp/c12-workspace");
        let _ = std::fs::create_dir_all(dir.join("sub.st"));
        let w = |n: &str, b: &[u8]| {
            let _ = std::fs::write(dir.join(n), b);
        };
        w("good.st", b"FUNCTION_BLOCK fb\nVAR_INPUT\na : INT;\nEND_VAR\nEND_FUNCTION_BLOCK\n");
        w("bad.st", b"PROGRAM q\nVAR\nx : INT\nEND_VAR\nEND_PROGRAM\n");
        w("sem.st", b"PROGRAM r\nVAR\nx : INT;\nEND_VAR\nx := nowhere;\nEND_PROGRAM\n");
        let mut u16le = vec![0xff, 0xfe];
        for u in "TYPE\nlevel : (lo, hi);\nEND_TYPE\n".encode_utf16() {
            u16le.extend(u.to_le_bytes());
        }
        w("utf16.st", &u16le);
        w("bin.st", &[0u8, 159, 146, 150, 255, 254, 0, 0, 13, 10, 39, 40, 42]);
        w("UPPER.ST", b"TYPE\nt1 : INT;\nEND_TYPE\n");
        w("empty.iec", b"");
        w("notes.txt", b"not a source");
        w("sub.st/inner.st", b"PROGRAM inner\nEND_PROGRAM\n");
        dir
    })
}

fn file_uri(p: &std::path::Path) -> String {
    format!("file://{}", p.display())
}

/// `initialize` with the ways a client can describe its workspace
fn initialize_variant(t: &mut Tape) -> (Value, &'static str, Vec<String>) {
    let ws = workspace();
    let wsf = |u: String| json!({"uri": u, "name": "w"});
    let in_ws: Vec<String> = ["good.st", "bad.st", "utf16.st", "new.st", "sub.st", "sub.st/inner.st"].iter().map(|n| file_uri(&ws.join(n))).collect();
    let (folders, root, kind, uris): (Value, Value, &'static str, Vec<String>) = match t.below(12) {
        0..=5 => (Value::Null, Value::Null, "init.plain", vec![]),
        6 => (json!([]), Value::Null, "init.no-folders", vec![]),
        7 | 8 => (json!([wsf(file_uri(ws))]), json!(file_uri(ws)), "init.workspace-folder", in_ws),
        9 => (json!([wsf(file_uri(&ws.join("does-not-exist")))]), Value::Null, "init.missing-folder", vec![]),
        10 => (json!([wsf("untitled:w".into())]), Value::Null, "init.non-file-folder", vec![]),
        _ => (json!([wsf(file_uri(&ws.join("good.st"))), wsf(file_uri(ws))]), Value::Null, "init.folder-is-a-file", in_ws),
    };
    let mut m = lsp_initialize(0);
    if !folders.is_null() {
        m["params"]["workspaceFolders"] = folders;
    }
    if !root.is_null() {
        m["params"]["rootUri"] = root;
    }
    (m, kind, uris)
}

/// the shapes a request id may have (LSP: integer in the i32 range, or string)
fn request_id(t: &mut Tape, n: i64, prefix: &str) -> Value {
    match t.below(12) {
        0..=5 => json!(n),
        6 => json!(format!("{}{}", prefix, n)),
        7 => json!(n.to_string()),
        8 => json!(2_000_000_000 + n),
        9 => json!(-n),
        10 => json!(format!("{}-{}-\u{e9}\"\\ {}", prefix, "x".repeat(120), n)),
        _ => json!(format!("{}{}", prefix, n)),
    }
}

/// nested parentheses / IF statements 40, 120 and 300 deep, kept only when `ironplcc check` ends
/// normally on them (the main thread of the command line has the larger stack)
fn deep_docs() -> &'static Vec<String> {
    DEEP.get_or_init(|| {
        let mut v = vec![];
        for d in [40usize, 120, 300] {
            let parens = format!("PROGRAM p\nVAR\nx : INT;\nEND_VAR\nx := {}1{};\nEND_PROGRAM\n", "(".repeat(d), ")".repeat(d));
            let mut ifs = String::from("PROGRAM p\nVAR\nx : INT;\nEND_VAR\n");
            for _ in 0..d {
                ifs.push_str("IF x = 1 THEN\n");
            }
            ifs.push_str("x := 2;\n");
            for _ in 0..d {
                ifs.push_str("END_IF;\n");
            }
            ifs.push_str("END_PROGRAM\n");
            // a flat chain of d + 1 operands: no nesting at all, but a tree (and a recursion) d deep
            let chain = format!("PROGRAM p\nVAR\nx : INT;\nEND_VAR\nx := {}x;\nEND_PROGRAM\n", "x + ".repeat(d));
            for text in [parens, ifs, chain] {
                let dir = Scratch::new("c12deep");
                let p = dir.write("deep.st", text.as_bytes()).to_string_lossy().to_string();
                let out = run_cli(&["check".to_string(), p], None);
                if !out.timed_out && matches!(out.status, Some(c) if c != 101) {
                    v.push(text);
                }
            }
        }
        v
    })
}

pub fn gen_script(t: &mut Tape, gates: &Gates, max_len: usize) -> Script {
    let (init, init_kind, ws_uris) = if gates.want("INITIALIZE_WITH_WORKSPACE") { initialize_variant(t) } else { (lsp_initialize(0), "init.plain", vec![]) };
    let mut s = Script { messages: vec![init, lsp_initialized()], requests: vec![(json!(0), "initialize".into())], doc_notifications: vec![], kinds: vec![init_kind] };
    let mut uris: Vec<&str> = URIS.to_vec();
    // documents of the workspace folder are opened more often than the others
    for _ in 0..3 {
        uris.extend(ws_uris.iter().map(|u| u.as_str()));
    }
    // documents: the fixed small ones, a few shapes that have tripped servers (a statement keyword
    // without its ';', non-ASCII text, CRLF, a comment at the very end, an OSCAT header), and two
    // documents of the program generator in wild spelling
    let mut pool: Vec<String> = DOCS.iter().map(|d| d.to_string()).collect();
    pool.push("PROGRAM p\nVAR\nx : INT;\nEND_VAR\nIF x = 1 THEN\nx := 2;\nEND_IF\nx := 3;\nEND_PROGRAM\n".into());
    pool.push("PROGRAM p\r\nVAR\r\nx : INT; (* caf\u{e9} \u{20ac} \u{1f600} *) y : INT;\r\nEND_VAR\r\nEND_PROGRAM\r\n(* end *)".into());
    pool.push("(*@KEY@:DESCRIPTION*)\nversion 1\n(*@KEY@:END_DESCRIPTION*)\nPROGRAM p\nVAR\ns : STRING := 'a$'b';\nEND_VAR\nEND_PROGRAM\n".into());
    for _ in 0..2 {
        // derived, so that the script itself keeps the tape
        let sub: Vec<u8> = crate::tape::derived(&[t.byte(), t.byte()], 160);
        let d = crate::props::c15::gen_doc(&mut Tape::new(&sub), gates);
        pool.push(d.text);
    }
    // a syntax error whose offending token is a long literal of multi-byte characters, in several
    // contexts and byte alignments (a diagnostic message quotes the text it found)
    for _ in 0..2 {
        let sub: Vec<u8> = crate::tape::derived(&[t.byte(), 0x4c], 8);
        let mut st = Tape::new(&sub);
        let ctx = *st.pick(&["", "TYPE\n", "PROGRAM p\nVAR\nx : INT := 1 ", "PROGRAM p\nVAR\nx : INT;\nEND_VAR\nx := 1 ", "FUNCTION_BLOCK f\nVAR\n", "PROGRAM p\nVAR\nx : INT;\nEND_VAR\nx := "]);
        let q = *st.pick(&["'", "\""]);
        let lead = "x".repeat(st.below(4));
        let ch = *st.pick(&["\u{e4}", "\u{20ac}", "\u{1f600}", "\u{e9}\u{20ac}"]);
        let n = *st.pick(&[5usize, 40, 120, 300]);
        pool.push(format!("{}{}{}{}{}\n", ctx, q, lead, ch.repeat(n), q));
    }
    // texts that end too early, with and without trailing blank space, and every text also with its
    // trailing blank space removed / extended (a document "equal up to trailing blanks" is another
    // document: diagnostics at the end of input move)
    // line ends of every kind in every place: a lone carriage return in the middle, as the very last
    // character, as the only character; a text that is nothing but line ends
    pool.push("PROGRAM p\rVAR\rx : INT;\rEND_VAR\rEND_PROGRAM\r".into());
    pool.push("PROGRAM p\nVAR\nx : INT;\nEND_VAR\nEND_PROGRAM\n\r".into());
    pool.push("\r".into());
    pool.push("\n\r\n\r".into());
    pool.push("PROGRAM p\nVAR\nx : INT;\n\n\n".into());
    pool.push("PROGRAM p\nVAR\nx : INT;\nEND_VAR\nx := 1;\n   \n\t\n".into());
    // deeply nested documents that `ironplcc check` itself survives (established once per run): the
    // server must survive whatever the command line survives
    for d in deep_docs() {
        pool.push(d.clone());
    }
    // long documents (hundreds to thousands of tokens; nothing deep about them)
    for n in [60usize, 300, 1500] {
        pool.push(format!("PROGRAM p\nVAR\nx : INT;\nEND_VAR\n{}END_PROGRAM\n", "x := x + 1;\n".repeat(n)));
        pool.push(format!("FUNCTION_BLOCK f\nVAR\n{}END_VAR\nEND_FUNCTION_BLOCK\n", (0..n).map(|k| format!("v{} : INT := {};\n", k, k)).collect::<String>()));
    }
    let extra: Vec<String> = pool.iter().flat_map(|d| vec![d.trim_end().to_string(), format!("{}\n\n  ", d)]).collect();
    pool.extend(extra);
    let pool: Vec<&str> = pool.iter().map(|x| x.as_str()).collect();
    let n = t.count(1, max_len);
    let mut next_id: i64 = 1;
    // (version numbers are the client's: mostly consecutive, sometimes with large strides or from far up)
    let mut version: HashMap<String, i64> = HashMap::new();
    if t.ratio(1, 6) {
        for u in URIS {
            version.insert(u.to_string(), *t.pick(&[-1i64, 255, 65_535, 2_000_000_000]));
        }
    }
    for _ in 0..n {
        let uri = *t.pick(&uris);
        let kind = t.below(11);
        match kind {
            0 | 1 => {
                let v = version.entry(uri.to_string()).or_insert(0);
                *v += *t.pick(&[1i64, 1, 1, 1, 2, 1000, 70_000]);
                s.messages.push(lsp_did_open(uri, *v, *t.pick(&pool)));
                s.doc_notifications.push((uri.to_string(), *v));
                s.kinds.push("didOpen");
            }
            2 | 3 => {
                let v = version.entry(uri.to_string()).or_insert(0);
                *v += *t.pick(&[1i64, 1, 1, 1, 2, 1000, 70_000]);
                let nchanges = match t.below(4) {
                    0 => {
                        if gates.want("DID_CHANGE_WITHOUT_CONTENT_CHANGES") {
                            0
                        } else {
                            1
                        }
                    }
                    1 => 2,
                    _ => 1,
                };
                let texts: Vec<&str> = (0..nchanges).map(|_| *t.pick(&pool)).collect();
                let mut msg = lsp_did_change(uri, *v, &texts);
                // a content change may carry a range (and the deprecated rangeLength): a well-formed
                // message whatever kind of synchronisation the server announced - on an empty or never
                // opened document, at its start, beyond its end, with start behind end
                if nchanges > 0 && t.ratio(1, 5) {
                    for ch in msg["params"]["contentChanges"].as_array_mut().unwrap().iter_mut() {
                        let (l1, c1, l2, c2) = *t.pick(&[(0u64, 0u64, 0u64, 0u64), (0, 0, 0, 1), (0, 0, 1, 0), (3, 2, 3, 2), (0, 5, 0, 2), (100000, 0, 100000, 7), (0, 0, 4294967295, 4294967295), (2, 70000, 2, 70001)]);
                        ch["range"] = json!({"start": {"line": l1, "character": c1}, "end": {"line": l2, "character": c2}});
                        if t.flag() {
                            ch["rangeLength"] = json!(*t.pick(&[0u64, 1, 7, 100000]));
                        }
                        if t.ratio(1, 3) {
                            ch["text"] = json!(*t.pick(&["", "x", "\n", "ü", "x := 1;\n"]));
                        }
                    }
                }
                s.messages.push(msg);
                s.doc_notifications.push((uri.to_string(), *v));
                s.kinds.push(match nchanges {
                    0 => "didChange.0",
                    1 => "didChange.1",
                    _ => "didChange.2",
                });
            }
            4 | 5 => {
                // (the same question may be asked again at once - an editor does after a scroll or a
                // focus change -: every asking has its own id and its own answer)
                let reps = *t.pick(&[1usize, 1, 1, 2, 3]);
                for _ in 0..reps {
                    let id = request_id(t, next_id, "s");
                    next_id += 1;
                    let mut msg = lsp_semantic_tokens(id.clone(), uri);
                    // (the optional members every request of this kind may carry: a work-done token and
                    // a partial-result token, each a string or a number - the request still has one answer)
                    if t.ratio(1, 4) {
                        if t.flag() {
                            msg["params"]["workDoneToken"] = if t.flag() { json!(format!("wd-{}", next_id)) } else { json!(next_id) };
                        }
                        if t.flag() {
                            msg["params"]["partialResultToken"] = if t.flag() { json!(format!("pr-{}", next_id)) } else { json!(7000 + next_id) };
                        }
                    }
                    s.messages.push(msg);
                    s.requests.push((id, "textDocument/semanticTokens/full".into()));
                    s.kinds.push("semanticTokens");
                }
            }
            6 => {
                if gates.want("REQUEST_FOR_UNIMPLEMENTED_METHOD") {
                    let m = if t.ratio(1, 3) { *t.pick(UNKNOWN_REQUESTS) } else { *t.pick(LSP_METHODS) };
                    let id = request_id(t, next_id, "u");
                    next_id += 1;
                    let mut msg = json!({"jsonrpc": "2.0", "id": id, "method": m, "params": params_for(m, uri)});
                    if t.ratio(1, 5) {
                        // "params" may be omitted
                        msg.as_object_mut().unwrap().remove("params");
                    }
                    s.messages.push(msg);
                    s.requests.push((id, m.to_string()));
                    s.kinds.push("unknown-request");
                }
            }
            7 => {
                let m = if t.ratio(1, 2) { *t.pick(UNKNOWN_NOTIFICATIONS) } else { *t.pick(LSP_METHODS) };
                let mut msg = json!({"jsonrpc": "2.0", "method": m, "params": params_for(m, uri)});
                if m == "$/cancelRequest" && !s.requests.is_empty() && t.flag() {
                    // cancelling a request that was really sent (it may or may not be answered yet)
                    let k = t.below(s.requests.len());
                    msg["params"]["id"] = s.requests[k].0.clone();
                } else if m.starts_with("custom/") && t.flag() {
                    msg.as_object_mut().unwrap().remove("params");
                }
                s.messages.push(msg);
                s.kinds.push("unknown-notification");
            }
            10 => {
                // the document is closed; later requests for it are requests for an unopened one
                s.messages.push(lsp_did_close(uri));
                s.kinds.push("didClose");
            }
            8 => {
                if gates.want("CLIENT_RESPONSE_MESSAGE") {
                    // a response to an id the server never used
                    // (any result value; any error code of JSON-RPC / LSP or outside both, with and
                    // without data; a string id)
                    let rid = if t.ratio(1, 5) { json!(format!("srv-{}", next_id)) } else { json!(9000 + next_id) };
                    let body = match t.below(4) {
                        0 => json!({"jsonrpc": "2.0", "id": rid, "result": null}),
                        1 => json!({"jsonrpc": "2.0", "id": rid, "result": t.pick(&[json!({}), json!([]), json!(true), json!(0), json!("ok"), json!({"applied": false})]).clone()}),
                        _ => {
                            let code = *t.pick(&[-32700i64, -32600, -32601, -32602, -32603, -32099, -32002, -32001, -32800, -32801, -32802, -32803, 0, 1, -1, 2147483647, -2147483648]);
                            let mut e = json!({"code": code, "message": *t.pick(&["nope", "", "Parse error", "caf\u{e9} \u{1f600}"])});
                            if t.flag() {
                                e["data"] = t.pick(&[json!(null), json!({"retry": true}), json!("x"), json!([1, 2])]).clone();
                            }
                            json!({"jsonrpc": "2.0", "id": rid, "error": e})
                        }
                    };
                    s.messages.push(body);
                    s.kinds.push("client-response");
                }
            }
            _ => {
                // notification for an unopened document
                let m = "textDocument/didSave";
                s.messages.push(json!({"jsonrpc": "2.0", "method": m, "params": params_for(m, uri)}));
                s.kinds.push("unknown-notification");
            }
        }
    }
    let sid = next_id;
    s.messages.push(lsp_shutdown(sid));
    s.requests.push((json!(sid), "shutdown".into()));
    s.messages.push(lsp_exit());
    s
}

/// Evaluates the ledger of one run.
pub fn ledger(s: &Script, run: &LspRun) -> Result<(), (String, String)> {
    if run.timed_out {
        return Err(("infrastructure-timeout".into(), "server did not exit within 90 s of wall clock".into()));
    }
    if run.garbage {
        return Err(("malformed-output".into(), "stdout of the server is not a sequence of well-formed LSP frames".into()));
    }
    let mut answered: HashMap<String, usize> = HashMap::new();
    let mut publishes: Vec<(String, Option<i64>)> = vec![];
    for f in &run.frames {
        if f.get("method").is_some() {
            if f.get("id").is_some() {
                return Err(("server-request".into(), format!("the server sent a request of its own: {}", f)));
            }
            let m = f["method"].as_str().unwrap_or("");
            if m == "textDocument/publishDiagnostics" {
                publishes.push((f["params"]["uri"].as_str().unwrap_or("").to_string(), f["params"]["version"].as_i64()));
            } else {
                return Err(("unexpected-notification".into(), format!("the server sent notification {}", m)));
            }
        } else if let Some(id) = f.get("id") {
            if f.get("result").is_none() && f.get("error").is_none() {
                return Err(("malformed-response".into(), format!("response without result or error: {}", f)));
            }
            *answered.entry(id.to_string()).or_insert(0) += 1;
        } else {
            return Err(("malformed-output".into(), format!("frame is neither request, response nor notification: {}", f)));
        }
    }
    for (id, method) in &s.requests {
        match answered.get(&id.to_string()).copied().unwrap_or(0) {
            1 => {}
            0 => return Err(("request-unanswered".into(), format!("request id {} ({}) was never answered; exit status {:?}; stderr: {}", id, method, run.status, last_line(&run.stderr)))),
            n => return Err(("request-answered-twice".into(), format!("request id {} ({}) was answered {} times", id, method, n))),
        }
    }
    for (id, n) in &answered {
        if !s.requests.iter().any(|(rid, _)| &rid.to_string() == id) {
            return Err(("spurious-response".into(), format!("the server answered id {} ({}x) which was never sent", id, n)));
        }
    }
    // notifications are answered only by publishDiagnostics for didOpen / didChange
    if publishes.len() > s.doc_notifications.len() {
        return Err(("spurious-publication".into(), format!("{} publishDiagnostics for {} document notifications", publishes.len(), s.doc_notifications.len())));
    }
    if run.status != Some(0) {
        return Err(("exit-status".into(), format!("after shutdown + exit the server terminated with {:?}; stderr: {}", run.status, last_line(&run.stderr))));
    }
    Ok(())
}

fn last_line(s: &str) -> String {
    strip_ansi(s).lines().filter(|l| !l.trim().is_empty()).last().unwrap_or("").chars().take(300).collect()
}

fn check_tape(tape: &[u8], gates: &Gates, stats: &mut Stats, counting: bool, max_len: usize) -> Result<(), Failure> {
    let mut t = Tape::new(tape);
    let s = gen_script(&mut t, gates, max_len);
    // one server in eight is started with verbosity flags: the log goes to a file, the protocol
    // stream must stay clean
    let verbosity: Vec<String> = match crate::tape::fnv(tape) % 16 {
        0 => vec!["-v".into()],
        1 => vec!["-vvvv".into()],
        _ => vec![],
    };
    let verbose = !verbosity.is_empty();
    let old = crate::drive::set_global_options(verbosity);
    let run = lsp_run(&s.messages);
    crate::drive::set_global_options(old);
    if counting && verbose {
        stats.class("server.started-with-verbosity-flags");
    }
    if counting {
        let has_req = s.requests.len() > 2;
        let unusual = s.kinds.iter().any(|k| *k != "didChange.1" && !k.starts_with("init."));
        stats.case(has_req && unusual, hash_str(&serde_json::to_string(&s.messages).unwrap()));
        for k in &s.kinds {
            stats.class(&format!("msg.{}", k));
        }
        stats.absorb_gates(gates);
        if stats.samples.len() < 2 && s.kinds.len() >= 3 && s.kinds.len() <= 6 {
            stats.samples.push(json!({"script": s.messages}));
        }
    } else {
        gates.take_wanted();
    }
    match ledger(&s, &run) {
        Ok(()) => Ok(()),
        Err((kind, detail)) if kind == "infrastructure-timeout" => {
            // a slow machine, or a server that has stopped for good?  One more attempt with a much
            // longer limit; only a server that again leaves requests unanswered is reported
            let _ = detail;
            let run2 = lsp_run_limit(&s.messages, 300);
            let answers = |r: &LspRun| r.frames.iter().filter(|f| f.get("method").is_none() && f.get("id").is_some()).count();
            if run2.timed_out && answers(&run2) < s.requests.len() && answers(&run) < s.requests.len() {
                return Err(Failure::new(
                    "ledger",
                    "server-stopped-responding",
                    format!("the server was still running 90 s and, in a second attempt, 300 s after its input ended, with {} of {} requests answered", answers(&run2), s.requests.len()),
                    json!({"script": s.messages, "frames": run2.frames}),
                ));
            }
            stats.inconclusive += 1;
            Ok(())
        }
        Err((kind, detail)) => Err(Failure::new("ledger", &kind, detail, json!({"script": s.messages, "frames": run.frames, "status": run.status}))),
    }
}

pub fn run(ctx: &Ctx) -> i32 {
    let clock = Clock::start();
    let mut rep = Report::new(
        "C12",
        ctx.tier,
        ctx.seed,
        "exploration",
        "after initialize / initialized: random scripts (<= 60 messages) over didOpen, didChange with 0 / 1 / 2 content changes, semanticTokens/full for opened / unopened / non-file URIs (numeric and string ids), requests and notifications for unimplemented methods, client responses to ids the server never used, notifications for unopened documents, the same semanticTokens request asked two or three times at once (own ids), documents of 60 / 300 / 1500 statements or declarations and deep ones, texts with lone-CR line ends; always followed by shutdown, exit, close of stdin. Ledger (evaluated after process exit): every request id answered exactly once (result or error), no response to an id never sent, no server-originated requests, notifications answered only by publishDiagnostics (at most one per didOpen/didChange), exit status 0. Non-trivial: >= 1 request besides the handshake and >= 1 message that is not a single-change didChange; distinct by script.",
    );
    let gates = ctx.gates_for("C12");
    let off = gates.off_list();
    let cases = ctx.tier.pick(20_000, 300_000);
    let max_len = 60;
    let out = run_tapes("C12", ctx.seed, ctx.threads, cases, 400, |tape, stats, counting| {
        let g = Gates::with_off(off.clone());
        check_tape(tape, &g, stats, counting, max_len)
    });
    rep.add(out);
    rep.replay_witnesses(&ctx.findings, &|w| witness(w));
    rep.extra.insert("gates_off".into(), json!(off));
    rep.assumptions = vec!["messages with malformed parameters for their method are outside the property".into(), "a server that is still running 90 s after stdin was closed is run again with a 300 s limit; only if it then again leaves requests unanswered is that a violation (server-stopped-responding), otherwise inconclusive".into()];
    rep.wall_s = clock.secs();
    rep.finish()
}

/// witness {"kind":"script","messages":[...]} – messages between the handshake and shutdown
pub fn witness(w: &Value) -> Result<(), String> {
    let mid: Vec<Value> = w["messages"].as_array().cloned().unwrap_or_default();
    let _ = workspace();
    let init = match w.get("initialize") {
        Some(i) if i.is_object() => i.clone(),
        _ => lsp_initialize(0),
    };
    let mut s = Script { messages: vec![init, lsp_initialized()], requests: vec![(json!(0), "initialize".into())], doc_notifications: vec![], kinds: vec![] };
    for m in mid {
        if let (Some(id), Some(method)) = (m.get("id"), m.get("method")) {
            s.requests.push((id.clone(), method.as_str().unwrap_or("").to_string()));
        }
        if let Some(method) = m["method"].as_str() {
            if method == "textDocument/didOpen" || method == "textDocument/didChange" {
                s.doc_notifications.push((m["params"]["textDocument"]["uri"].as_str().unwrap_or("").to_string(), m["params"]["textDocument"]["version"].as_i64().unwrap_or(0)));
            }
        }
        s.messages.push(m);
    }
    s.messages.push(lsp_shutdown(777));
    s.requests.push((json!(777), "shutdown".into()));
    s.messages.push(lsp_exit());
    let run = lsp_run(&s.messages);
    ledger(&s, &run).map_err(|(k, d)| format!("{}: {}", k, d))
}

pub fn replay(ctx: &Ctx, v: &Value) -> i32 {
    let r = if v["check"] == "witness" {
        witness(&v["inputs"])
    } else {
        // strip handshake and shutdown/exit from the recorded script
        let all: Vec<Value> = v["inputs"]["script"].as_array().cloned().unwrap_or_default();
        let mid: Vec<Value> = if all.len() >= 4 { all[2..all.len() - 2].to_vec() } else { vec![] };
        witness(&json!({"messages": mid, "initialize": all.first().cloned().unwrap_or(Value::Null)}))
    };
    match r {
        Ok(()) => {
            println!("replay: property holds on this input");
            0
        }
        Err(e) => {
            println!("VIOLATION property=C12 replay={}", ctx.replay_path.clone().unwrap_or_default());
            eprintln!("{}", e);
            1
        }
    }
}

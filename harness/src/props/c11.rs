//! C11 – LSP diagnostics depend only on the current document contents and equal `check`.
//!
//! All notification histories up to length 3 (quick) / 4 (thorough) over 2 URIs x 5 texts are
//! enumerated; because the enumeration is prefix-closed it is enough to judge the publication
//! for the *last* notification of every history: (1) one publishDiagnostics per notification,
//! right URI and version, in order; (2) the last publication equals what a fresh server
//! publishes for that document when the other open documents are opened first with their
//! current contents; (3) it carries the codes and start positions `ironplcc check <dir>` prints
//! for that file.  Plus random histories up to length 40 over generated documents.

use crate::drive::*;
use crate::gates::Gates;
use crate::gen_valid::*;
use crate::props::c02::spell_unit;
use crate::report::Report;
use crate::runner::*;
use crate::tape::Tape;
use crate::Ctx;
use serde_json::{json, Value};
use std::collections::{BTreeMap, HashMap};
use std::sync::Mutex;

/// texts for URI `who` ("a"/"b"); `other` is the other URI's tag
fn template(who: &str, other: &str, k: usize) -> String {
    match k {
        // valid; declares a type the other document may use
        0 => format!("TYPE\nty_{w} : (v1_{w}, v2_{w});\nEND_TYPE\nPROGRAM p_{w}\nVAR\nx_{w} : INT;\nEND_VAR\nx_{w} := 1;\nEND_PROGRAM\n", w = who),
        // lexical error
        1 => format!("PROGRAM p_{w}\nVAR\nx_{w} : INT;\nEND_VAR\nx_{w} := 1 ? 2;\nEND_PROGRAM\n", w = who),
        // syntax error
        2 => format!("PROGRAM p_{w}\nVAR\nx_{w} : INT\nEND_VAR\nEND_PROGRAM\n", w = who),
        // semantic error (P0015)
        3 => format!("PROGRAM p_{w}\nVAR\nx_{w} : INT;\nEND_VAR\n  x_{w} := undeclared_{w};\nEND_PROGRAM\n", w = who),
        // depends on the other document's valid text
        _ => format!("PROGRAM q_{w}\nVAR\nc_{w} : ty_{o};\nEND_VAR\nEND_PROGRAM\n", w = who, o = other),
    }
}

type Diag = (String, u64, u64, String);

#[derive(Clone, Debug)]
pub struct Note {
    pub uri_idx: usize,
    pub text: String,
    /// an earlier (stale) full-document change sent in the same didChange before `text`
    pub stale: Option<String>,
    /// the client closes the document and opens it again with this text (its version numbering
    /// restarts at 1)
    pub reopen: bool,
    /// a didChange that carries NO content change (`contentChanges: []`): the text stays what it
    /// was (`text` repeats it), the version moves on and the server publishes once more
    pub unchanged: bool,
}

/// file names of the two documents.  Beside the plain pair there are names that need percent
/// encoding in a URI (non-ASCII letters, a blank) and names whose order differs between the raw
/// and the encoded spelling: the server must identify a document by its decoded path, like `check`;
/// and names with an upper-case, another or no extension: `check` reads every file of a directory,
/// so whatever the editor shows the server is a source like any other
pub const NAME_SETS: &[[&str; 2]] = &[["a.st", "b.st"], ["\u{fc}_pump.st", "valve.st"], ["my file.st", "b.st"], ["Z.st", "a.st"], ["\u{e4}.st", "\u{f6}.st"], ["x%y.st", "b.st"], ["A.ST", "b.st"], ["types.St", "user.st"], ["prog.iec", "lib.IEC"], ["noext", "b.st"], ["a.txt", "b.st"]];

fn percent_encode(name: &str) -> String {
    let mut out = String::new();
    for b in name.bytes() {
        if b.is_ascii_alphanumeric() || b == b'.' || b == b'_' || b == b'-' {
            out.push(b as char);
        } else {
            out.push_str(&format!("%{:02X}", b));
        }
    }
    out
}

fn uris(dir: &str, names: &[&str; 2]) -> [String; 2] {
    [format!("file://{}/{}", dir, percent_encode(names[0])), format!("file://{}/{}", dir, percent_encode(names[1]))]
}

fn script(dir: &str, names: &[&str; 2], notes: &[Note]) -> (Vec<Value>, Vec<(String, i64)>) {
    let u = uris(dir, names);
    let mut msgs = vec![lsp_initialize(0), lsp_initialized()];
    let mut version = [0i64; 2];
    let mut expect = vec![];
    // version numbers are the client's: consecutive from 1 mostly, but also with a stride, from 0,
    // or far up in the 32-bit range (derived from the history, so a replay sends the same ones)
    let h = crate::tape::fnv(notes.iter().map(|n| n.text.len() as u8).collect::<Vec<u8>>().as_slice()) ^ notes.len() as u64;
    let (base, stride): (i64, i64) = match h % 8 {
        0 => (-1, 1),
        1 => (0, 2),
        2 => (40, 1000),
        3 => (2_000_000_000, 70_000),
        _ => (0, 1),
    };
    for n in notes {
        if n.reopen && version[n.uri_idx] >= 1 {
            msgs.push(lsp_did_close(&u[n.uri_idx]));
            version[n.uri_idx] = 0;
        }
        version[n.uri_idx] += 1;
        let k = version[n.uri_idx];
        let v = base + 1 + (k - 1) * stride;
        if k == 1 {
            msgs.push(lsp_did_open(&u[n.uri_idx], v, &n.text));
        } else {
            match &n.stale {
                _ if n.unchanged => msgs.push(lsp_did_change(&u[n.uri_idx], v, &[])),
                Some(st) => msgs.push(lsp_did_change(&u[n.uri_idx], v, &[st, &n.text])),
                None => msgs.push(lsp_did_change(&u[n.uri_idx], v, &[&n.text])),
            }
        }
        expect.push((u[n.uri_idx].clone(), v));
    }
    msgs.push(lsp_shutdown(1));
    msgs.push(lsp_exit());
    (msgs, expect)
}

fn publications(run: &LspRun) -> Vec<(String, Option<i64>, Vec<Diag>)> {
    let mut v = vec![];
    for f in &run.frames {
        if f["method"] == "textDocument/publishDiagnostics" {
            let mut ds: Vec<Diag> = f["params"]["diagnostics"]
                .as_array()
                .cloned()
                .unwrap_or_default()
                .iter()
                .map(|d| {
                    (
                        d["code"].as_str().unwrap_or("").to_string(),
                        d["range"]["start"]["line"].as_u64().unwrap_or(u64::MAX),
                        d["range"]["start"]["character"].as_u64().unwrap_or(u64::MAX),
                        d["message"].as_str().unwrap_or("").to_string(),
                    )
                })
                .filter(|d| d.0 != "P0030")
                .collect();
            ds.sort();
            v.push((f["params"]["uri"].as_str().unwrap_or("").to_string(), f["params"]["version"].as_i64(), ds));
        }
    }
    v
}

pub struct Refs {
    dir: String,
    pub names: [&'static str; 2],
    fresh: Mutex<HashMap<String, Vec<Diag>>>,
    cli: Mutex<HashMap<String, BTreeMap<String, Vec<(String, u64, u64)>>>>,
}

impl Refs {
    pub fn with_names(dir: &str, k: usize) -> Refs {
        let mut r = Refs::new(dir);
        r.names = NAME_SETS[k % NAME_SETS.len()];
        r
    }
    pub fn new(dir: &str) -> Refs {
        Refs { dir: dir.to_string(), names: NAME_SETS[0], fresh: Mutex::new(HashMap::new()), cli: Mutex::new(HashMap::new()) }
    }
    /// what a fresh server publishes for `u` when the other open document is opened first
    fn fresh_for(&self, state: &[Option<String>; 2], u: usize) -> Result<Vec<Diag>, String> {
        let key = format!("{:?}|{}", state, u);
        if let Some(v) = self.fresh.lock().unwrap().get(&key) {
            return Ok(v.clone());
        }
        let mut notes = vec![];
        let o = 1 - u;
        if let Some(t) = &state[o] {
            notes.push(Note { uri_idx: o, text: t.clone(), stale: None, reopen: false, unchanged: false });
        }
        notes.push(Note { uri_idx: u, text: state[u].clone().unwrap(), stale: None, reopen: false, unchanged: false });
        let (msgs, _) = script(&self.dir, &self.names, &notes);
        // the reference itself is run twice; a disagreement between the two runs is C06's business
        let r1 = publications(&lsp_run(&msgs));
        let r2 = publications(&lsp_run(&msgs));
        let last1 = r1.last().map(|p| p.2.clone()).ok_or("reference run published nothing")?;
        let last2 = r2.last().map(|p| p.2.clone()).ok_or("reference run published nothing")?;
        if last1 != last2 {
            return Err("the fresh-server reference is not reproducible (run dependence, see C06)".into());
        }
        self.fresh.lock().unwrap().insert(key, last1.clone());
        Ok(last1)
    }
    /// (code, line0, col0) per file basename from `ironplcc check <dir>`
    fn cli_for(&self, state: &[Option<String>; 2]) -> Result<BTreeMap<String, Vec<(String, u64, u64)>>, String> {
        let key = format!("{:?}", state);
        if let Some(v) = self.cli.lock().unwrap().get(&key) {
            return Ok(v.clone());
        }
        let dir = Scratch::new("c11cli");
        let names = self.names;
        for i in 0..2 {
            if let Some(t) = &state[i] {
                dir.write(names[i], t.as_bytes());
            }
        }
        let out = run_cli(&["check".to_string(), dir.path.to_string_lossy().to_string()], None);
        if out.timed_out {
            return Err("cli timeout".into());
        }
        let mut m: BTreeMap<String, Vec<(String, u64, u64)>> = BTreeMap::new();
        for d in parse_cli_diags(&out.stderr) {
            if d.code == "P0030" {
                continue;
            }
            if let Some(f) = &d.file {
                let base = f.rsplit('/').next().unwrap_or("").to_string();
                m.entry(base).or_default().push((d.code.clone(), d.line.saturating_sub(1) as u64, d.col.saturating_sub(1) as u64));
            }
        }
        for v in m.values_mut() {
            v.sort();
        }
        self.cli.lock().unwrap().insert(key, m.clone());
        Ok(m)
    }
}

pub fn judge_history(refs: &Refs, notes: &[Note], check_cli: bool) -> Result<(), (String, String)> {
    let (msgs, expect) = script(&refs.dir, &refs.names, notes);
    let run = lsp_run(&msgs);
    if run.timed_out {
        return Err(("infrastructure-timeout".into(), String::new()));
    }
    let pubs = publications(&run);
    // (1) one publication per notification, in order, right uri and version
    if pubs.len() != expect.len() {
        return Err(("publication-count".into(), format!("{} notifications, {} publishDiagnostics (exit {:?})", expect.len(), pubs.len(), run.status)));
    }
    for (k, ((u, v), p)) in expect.iter().zip(pubs.iter()).enumerate() {
        if &p.0 != u || p.1 != Some(*v) {
            return Err(("publication-identity".into(), format!("notification #{} was for {} version {}, publication #{} is for {} version {:?}", k, u, v, k, p.0, p.1)));
        }
    }
    // final state
    let mut state: [Option<String>; 2] = [None, None];
    for n in notes {
        state[n.uri_idx] = Some(n.text.clone());
    }
    let last = notes.last().unwrap();
    let got = &pubs.last().unwrap().2;
    // (2) history independence
    let want = refs.fresh_for(&state, last.uri_idx).map_err(|e| ("reference".to_string(), e))?;
    if got != &want {
        return Err((
            "history-dependence".into(),
            format!("after this history the server publishes {:?} for {}; a fresh server with the same current contents publishes {:?}", got, refs.names[last.uri_idx], want),
        ));
    }
    // (3) agreement with the command line (not for contents that begin with U+FEFF: stored in a
    // file that character is a byte-order mark, in a notification it is text - "the same contents"
    // is not defined for it; history independence is judged all the same)
    if check_cli && !state.iter().flatten().any(|t| t.starts_with('\u{feff}')) {
        let cli = refs.cli_for(&state).map_err(|e| ("reference".to_string(), e))?;
        let mine: Vec<(String, u64, u64)> = got.iter().map(|d| (d.0.clone(), d.1, d.2)).collect();
        let theirs = cli.get(refs.names[last.uri_idx]).cloned().unwrap_or_default();
        if mine != theirs {
            return Err((
                "cli-disagreement".into(),
                format!("LSP publishes (code, line, character) {:?} for {}; `ironplcc check <dir>` on the same contents reports {:?}", mine, refs.names[last.uri_idx], theirs),
            ));
        }
    }
    Ok(())
}

fn all_histories(max_len: usize) -> Vec<Vec<(usize, usize)>> {
    // (uri, template) sequences
    let mut out = vec![];
    let mut cur: Vec<Vec<(usize, usize)>> = vec![vec![]];
    for _ in 0..max_len {
        let mut next = vec![];
        for h in &cur {
            for u in 0..2 {
                for k in 0..5 {
                    let mut h2 = h.clone();
                    h2.push((u, k));
                    next.push(h2);
                }
            }
        }
        out.extend(next.clone());
        cur = next;
    }
    out
}

fn to_notes(h: &[(usize, usize)]) -> Vec<Note> {
    h.iter().map(|&(u, k)| Note { uri_idx: u, text: template(["a", "b"][u], ["b", "a"][u], k), stale: None, reopen: false, unchanged: false }).collect()
}

fn random_history(t: &mut Tape, gates: &Gates) -> Vec<Note> {
    // documents from the valid generator (disjoint names per URI), valid or with one planted fault,
    // or a token-level mutation
    let n = 1 + t.count(0, 39);
    let mut docs: [Vec<String>; 2] = [vec![], vec![]];
    for u in 0..2 {
        let k = 1 + t.below(3);
        for j in 0..k {
            let mut p = Profile::default();
            p.prefix = format!("{}{}_", ["a", "b"][u], j);
            p.max_stmts = 3;
            p.max_types = 2;
            p.max_fbs = 1;
            p.max_funcs = 1;
            p.max_progs = 1;
            p.config = false;
            let sub: Vec<u8> = (0..60).map(|_| t.byte()).collect();
            let mut st = Tape::new(&sub);
            let unit = gen_unit(&mut st, gates, &p);
            let kinds: Vec<FaultKind> = ALL_FAULTS.iter().copied().filter(|k| unit.sites[k.index()] > 0).collect();
            // canonical spelling, or (a third) with comments - also non-ASCII ones in front of the
            // diagnostic on its line -, tabs and CRLF; identifiers keep their case
            let wild = t.ratio(1, 3);
            let spell = |u: &Unit, t: &mut Tape| -> String {
                if !wild {
                    return spell_unit(u, gates);
                }
                let mut pr = crate::printer::Printer::new(gates, Tape::empty());
                pr.library(&u.lib);
                let lex = pr.finish();
                gates.take_hits();
                let mut o = crate::props::c08::opts_for(gates);
                o.ident_case = false;
                o.oscat_phase.set(255);
                let bytes: Vec<u8> = (0..160).map(|_| t.byte()).collect();
                crate::lexeme::layout(&lex, &o, &mut Tape::new(&bytes)).0.text
            };
            let text = if t.ratio(1, 6) {
                // TWO faults of (mostly) different rules in one document: rules report in their own
                // order, not in text order - every diagnostic still carries its own position
                let mut parts = vec![];
                for (k, tag) in ["", "x"].iter().enumerate() {
                    let kd = ALL_FAULTS[t.below(ALL_FAULTS.len())];
                    let mut big = Profile::default();
                    big.prefix = format!("{}{}", p.prefix, tag);
                    big.max_progs = 1;
                    big.sfc = false;
                    big.config = false;
                    let mut key = sub.clone();
                    key.push(k as u8);
                    if let Some(fu) = unit_with_fault_of(kd, &key, gates, &big) {
                        parts.push(spell(&fu, t));
                    }
                }
                if parts.is_empty() {
                    spell(&unit, t)
                } else {
                    if t.flag() {
                        parts.reverse();
                    }
                    parts.concat()
                }
            } else if t.ratio(1, 4) {
                // a fault of a kind chosen uniformly over all rules, from a unit large enough for it
                let kd = ALL_FAULTS[t.below(ALL_FAULTS.len())];
                let mut big = Profile::default();
                big.prefix = p.prefix.clone();
                big.max_progs = 1;
                big.sfc = false;
                big.config = false;
                match unit_with_fault_of(kd, &sub, gates, &big) {
                    Some(fu) => spell(&fu, t),
                    None => spell(&unit, t),
                }
            } else if !kinds.is_empty() && t.flag() {
                let kd = kinds[t.below(kinds.len())];
                let s = t.below(unit.sites[kd.index()]);
                let mut st2 = Tape::new(&sub);
                let fu = gen_unit_with(&mut st2, gates, &p, Some((kd, s)));
                spell(&fu, t)
            } else {
                spell(&unit, t)
            };
            let text = match t.below(8) {
                0 => text.replacen(';', " ", 1),
                1 => text.replacen("END_", "?END_", 1),
                // the text ends too early (the diagnostic sits at the end of input) ...
                2 => {
                    let cut = text.rfind("END_").unwrap_or(text.len());
                    format!("{}\n\n  \n", &text[..cut])
                }
                // several lexical errors in one document (adjacent, on one line, on different lines):
                // whatever one front end reports for such a file the other reports too
                3 => {
                    let junk = *t.pick(&["??", "? ?", "@~", "?\n?", "`!`"]);
                    let mut out = text.replacen("END_", &format!("{}END_", junk), 1);
                    if t.flag() {
                        if let Some(p) = out.rfind(';') {
                            out.insert(p, '?');
                        }
                    }
                    out
                }
                _ => text,
            };
            // a flat chain of 150 .. 250 operands in front of a fault (no nesting, but a tree that deep:
            // whatever the command line digests, the server digests - on whatever thread it runs)
            if t.ratio(1, 14) {
                let nterms = *t.pick(&[150usize, 200, 250]);
                let pfx = format!("{}{}c_", ["a", "b"][u], j);
                docs[u].push(format!("PROGRAM {p}p\nVAR\n{p}x : INT;\nEND_VAR\n{p}x := {chain}{p}x;\n{p}x := {p}undeclared;\nEND_PROGRAM\n", p = pfx, chain = format!("{}x + ", pfx).repeat(nterms)));
            }
            // several diagnostics at ONE place (rules that anchor every finding of a declaration at
            // the same token; a list of names of one undeclared type): as many as the command line
            // reports, the server publishes - the comparison is one of lists, not of sets
            if t.ratio(1, 10) {
                let pfx = format!("{}{}m_", ["a", "b"][u], j);
                let body = match t.below(5) {
                    0 => format!("TYPE\n{p}s : STRUCT\nx : INT;\nx : INT;\ny : BOOL;\ny : BOOL;\nEND_STRUCT;\nEND_TYPE\n", p = pfx),
                    1 => format!("TYPE\n{p}e : (va, vb, va, vc, va);\nEND_TYPE\n", p = pfx),
                    2 => format!("FUNCTION_BLOCK {p}f\nVAR\nm1, m2, m3 : {p}nowhere;\nEND_VAR\nEND_FUNCTION_BLOCK\n", p = pfx),
                    3 => format!("TYPE\n{p}s : STRUCT\nx : INT;\nX : DINT;\nx : BOOL;\nEND_STRUCT;\nEND_TYPE\n", p = pfx),
                    _ => format!("PROGRAM {p}p\nVAR\nn1, n2 : {p}nowhere;\nk : {p}elsewhere;\nEND_VAR\nEND_PROGRAM\n", p = pfx),
                };
                docs[u].push(if t.flag() { format!("{}{}", body, text) } else { body });
            }
            // a lone carriage return inside a comment (same line as what follows, or lines before it):
            // not a line end for the tool, whatever it is for an editor - the server and the command
            // line must still name the same place
            if t.ratio(1, 10) {
                let lead = *t.pick(&["(* a\rb *) ", "(* x\ry *)\n", "(* one\rtwo\rthree *)\n\n", "(*\r*)", "(* \r\n \r *) "]);
                docs[u].push(format!("{}{}", lead, text));
            }
            // a text that begins with U+FEFF (an editor that passes the byte-order mark of the file
            // through): whatever the server makes of it, it makes the same of it in every notification
            if t.ratio(1, 12) {
                docs[u].push(format!("{}{}", '\u{feff}', text));
            }
            // degenerate documents now and then: nothing, blanks, a lone comment, unmatched text
            if t.ratio(1, 10) {
                docs[u].push((*t.pick(&["", " ", "\n", "(* only a comment *)", "?", "(* never closed", ";"])).to_string());
            }
            // ... the same text moved (blank lines / a comment in front: every position after it
            // changes, the library does not) ...
            if t.ratio(1, 3) {
                docs[u].push(format!("{}{}", *t.pick(&["\n", "\n\n\n", "(* moved *)\n", "   ", "(* a\nb *) "]), text));
            }
            // ... and every text also without / with more trailing blank space
            if t.ratio(1, 3) {
                docs[u].push(text.trim_end().to_string());
            }
            if t.ratio(1, 4) {
                docs[u].push(format!("{}\n \n", text));
            }
            docs[u].push(text);
        }
        // now and then a document that declares a name which a document of the OTHER URI declares
        // too (at another offset): which of the two is "the duplicate" must be a matter of the
        // contents, not of which document was opened or changed first
        if t.ratio(1, 5) {
            let shared = *t.pick(&[
                "PROGRAM shared_p\nVAR\nq : INT;\nEND_VAR\nq := 1;\nEND_PROGRAM\n",
                "TYPE\nshared_t : (sa, sb);\nEND_TYPE\n",
                "FUNCTION_BLOCK shared_fb\nVAR_INPUT\ni : INT;\nEND_VAR\nEND_FUNCTION_BLOCK\n",
                "FUNCTION shared_f : INT\nVAR_INPUT\ni : INT;\nEND_VAR\nshared_f := i;\nEND_FUNCTION\n",
            ]);
            let own = docs[u].iter().find(|d| d.contains("END_")).cloned().unwrap_or_default();
            docs[u].push(match t.below(3) {
                0 => format!("{}{}", shared, own),
                1 => format!("{}{}", own, shared),
                _ => format!("\n\n   {}", shared),
            });
        }
        // now and then a document that declares one name twice ITSELF: the diagnostic then has a
        // second label ("first definition") in the same document, in front of the reported one -
        // the position shown for the diagnostic is that of its primary label, here and on the
        // command line
        if t.ratio(1, 5) {
            let nm = format!("{}twice", ["a", "b"][u]);
            let forms = [
                format!("FUNCTION_BLOCK {}\nVAR_INPUT\ni : INT;\nEND_VAR\nEND_FUNCTION_BLOCK\n", nm),
                format!("TYPE\n{} : (tw_a{u}, tw_b{u});\nEND_TYPE\n", nm, u = u),
                format!("PROGRAM {}\nVAR\nq : INT;\nEND_VAR\nq := 1;\nEND_PROGRAM\n", nm),
                format!("FUNCTION {n} : INT\nVAR_INPUT\ni : INT;\nEND_VAR\n{n} := i;\nEND_FUNCTION\n", n = nm),
                format!("TYPE\n{} : STRUCT\ntw_m : INT;\nEND_STRUCT;\nEND_TYPE\n", nm),
            ];
            let first = forms[t.below(forms.len())].clone();
            let second = if t.flag() { first.clone() } else { forms[t.below(forms.len())].clone() };
            let own = docs[u].iter().find(|d| d.contains("END_")).cloned().unwrap_or_default();
            docs[u].push(match t.below(3) {
                0 => format!("{}{}", first, second),
                1 => format!("{}\n{}\n{}", first, own, second),
                _ => format!("(* twice *)\n\n{}   {}", first, second),
            });
        }
        // now and then a document with a great many diagnostics of its own (a rule that reports every
        // occurrence): nothing is cut off, in this document or in the other one
        if t.ratio(1, 8) {
            let count = *t.pick(&[64usize, 99, 100, 101, 130, 260]);
            let mut d = format!("PROGRAM {}many\nVAR CONSTANT\n", ["a", "b"][u]);
            for i in 0..count {
                d.push_str(&format!("c{} : INT;\n", i));
            }
            d.push_str("END_VAR\nEND_PROGRAM\n");
            docs[u].push(d);
        }
    }
    let mut cur: [Option<String>; 2] = [None, None];
    let mut out = vec![];
    for _ in 0..n {
        let u = t.below(2);
        let d = t.below(docs[u].len());
        let stale = if t.ratio(1, 5) && gates.want("DID_CHANGE_WITH_TWO_CONTENT_CHANGES") { Some(docs[u][t.below(docs[u].len())].clone()) } else { None };
        let reopen = t.ratio(1, 6) && gates.want("DOCUMENT_CLOSED_AND_REOPENED");
        // now and then a change notification without any content change (once, or twice in a row)
        if let Some(c) = cur[u].clone() {
            if t.ratio(1, 8) && gates.want("DID_CHANGE_WITHOUT_CONTENT_CHANGES") {
                let reps = 1 + t.below(2);
                for _ in 0..reps {
                    out.push(Note { uri_idx: u, text: c.clone(), stale: None, reopen: false, unchanged: true });
                }
                continue;
            }
        }
        cur[u] = Some(docs[u][d].clone());
        out.push(Note { uri_idx: u, text: docs[u][d].clone(), stale: if reopen { None } else { stale }, reopen, unchanged: false });
    }
    out
}

pub fn run(ctx: &Ctx) -> i32 {
    let clock = Clock::start();
    let mut rep = Report::new(
        "C11",
        ctx.tier,
        ctx.seed,
        "exploration",
        "ALL didOpen/didChange histories of length <= 3 (quick: 1110) / <= 4 (thorough: 11110) over 2 URIs x 5 texts (valid, lexical error, syntax error, semantic error, depends-on-the-other-document); the enumeration is prefix-closed, so the publication for the last notification of each history is judged: (1) one publishDiagnostics per notification with its URI and version, in order; (2) equals (multiset of code, start line, start character, message) what a fresh server publishes for that document when the other open document is opened first; (3) equals (code, line, column) what `ironplcc check <dir>` prints for that file. Plus random histories of length <= 40 over documents of the valid / single-fault generators with token mutations, documents with several diagnostics at ONE place (duplicated structure elements, a value listed three times, a list of names of one undeclared type - lists are compared, not sets), flat chains of 150 .. 250 operands, texts that begin with U+FEFF ((1), (2) and (3)). Non-trivial: history touches both URIs or changes one URI twice; distinct by history.",
    );
    let gates = ctx.gates_for("C11");
    let off = gates.off_list();
    let scratch = Scratch::new("c11");
    let dir = scratch.path.to_string_lossy().to_string();
    let refs = Refs::new(&dir);
    let hs = all_histories(ctx.tier.pick(3, 4));
    let out = run_items(&hs, ctx.threads, |h, stats| {
        let notes = to_notes(h);
        let both = h.iter().any(|x| x.0 == 0) && h.iter().any(|x| x.0 == 1);
        let twice = h.len() >= 2 && (h.iter().filter(|x| x.0 == 0).count() >= 2 || h.iter().filter(|x| x.0 == 1).count() >= 2);
        stats.case(both || twice, hash_str(&format!("{:?}", h)));
        stats.class(&format!("exhaustive.len{}", h.len()));
        if h.len() == 3 && stats.samples.len() < 2 {
            stats.samples.push(json!({"history": h.iter().map(|&(u, k)| format!("{}:{}", ["a.st", "b.st"][u], ["valid", "lexical-error", "syntax-error", "semantic-error", "depends-on-other"][k])).collect::<Vec<_>>()}));
        }
        match judge_history(&refs, &notes, true) {
            Ok(()) => Ok(()),
            Err((k, _)) if k == "infrastructure-timeout" => {
                stats.inconclusive += 1;
                Ok(())
            }
            Err((k, d)) => Err(Failure::new("history", &k, d, json!({"history": notes.iter().map(|n| json!({"uri": (if n.uri_idx == 0 { "a.st" } else { "b.st" }), "text": n.text, "stale": n.stale, "reopen": n.reopen, "unchanged": n.unchanged})).collect::<Vec<_>>()}))),
        }
    });
    rep.add(out);
    // a fixed family: diagnostics that relate TWO documents (the same declaration in both, a constant
    // global in one and a plain external of it in the other).  Every form x which document is opened
    // last x which of the two holds the extra text: the publication for a document carries what
    // `check` reports for THAT file - a diagnostic whose reported position lies in the other
    // document is not published for this one (and never with the other document's coordinates)
    {
        let forms: Vec<(String, String)> = vec![
            ("FUNCTION_BLOCK shared_fb\nVAR_INPUT\ni : INT;\nEND_VAR\nEND_FUNCTION_BLOCK\n".to_string(), "FUNCTION_BLOCK shared_fb\nVAR_INPUT\ni : INT;\nEND_VAR\nEND_FUNCTION_BLOCK\n".to_string()),
            ("PROGRAM shared_p\nVAR\nq : INT;\nEND_VAR\nq := 1;\nEND_PROGRAM\n".to_string(), "PROGRAM shared_p\nVAR\nq : INT;\nEND_VAR\nq := 1;\nEND_PROGRAM\n".to_string()),
            ("TYPE\nshared_t : (sa, sb);\nEND_TYPE\n".to_string(), "TYPE\nshared_t : (sa, sb);\nEND_TYPE\n".to_string()),
            ("FUNCTION shared_f : INT\nVAR_INPUT\ni : INT;\nEND_VAR\nshared_f := i;\nEND_FUNCTION\n".to_string(), "FUNCTION shared_f : INT\nVAR_INPUT\ni : INT;\nEND_VAR\nshared_f := i;\nEND_FUNCTION\n".to_string()),
            ("TYPE\nshared_x : (xa, xb);\nEND_TYPE\n".to_string(), "FUNCTION_BLOCK shared_x\nVAR\nv : INT;\nEND_VAR\nEND_FUNCTION_BLOCK\n".to_string()),
            (
                "CONFIGURATION cfg\nVAR_GLOBAL CONSTANT\nlim : INT := 5;\nEND_VAR\nRESOURCE r ON cpu\nPROGRAM inst : prog;\nEND_RESOURCE\nEND_CONFIGURATION\n".to_string(),
                "FUNCTION_BLOCK user\nVAR_EXTERNAL\nlim : INT;\nEND_VAR\nEND_FUNCTION_BLOCK\nPROGRAM prog\nVAR\nu : user;\nEND_VAR\nEND_PROGRAM\n".to_string(),
            ),
        ];
        let pads = ["", "(* five\nlines\nof\ncomment\nin front *)\n   "];
        let mut items: Vec<Vec<Note>> = vec![];
        for (fa, fb) in &forms {
            for pad_a in pads {
                for pad_b in pads {
                    let ta = format!("{}{}", pad_a, fa);
                    let tb = format!("{}{}", pad_b, fb);
                    let a = Note { uri_idx: 0, text: ta.clone(), stale: None, reopen: false, unchanged: false };
                    let b = Note { uri_idx: 1, text: tb.clone(), stale: None, reopen: false, unchanged: false };
                    items.push(vec![a.clone(), b.clone()]);
                    items.push(vec![b.clone(), a.clone()]);
                    items.push(vec![a.clone(), b.clone(), Note { uri_idx: 0, text: ta.clone(), stale: None, reopen: false, unchanged: false }]);
                }
            }
        }
        let out = run_items(&items, ctx.threads, |notes, stats| {
            stats.case(true, hash_str(&format!("{:?}", notes.iter().map(|n| (n.uri_idx, n.text.clone())).collect::<Vec<_>>())));
            stats.class("cross-document.fixed");
            match judge_history(&refs, notes, true) {
                Ok(()) => Ok(()),
                Err((k, _)) if k == "infrastructure-timeout" => {
                    stats.inconclusive += 1;
                    Ok(())
                }
                Err((k, d)) => Err(Failure::new("history", &k, d, json!({"history": notes.iter().map(|n| json!({"uri": (if n.uri_idx == 0 { "a.st" } else { "b.st" }), "text": n.text, "stale": n.stale, "reopen": n.reopen, "unchanged": n.unchanged})).collect::<Vec<_>>()}))),
            }
        });
        rep.add(out);
    }
    rep.exhaustive = Some(false);
    rep.extra.insert("exhaustive_history_length".into(), json!(ctx.tier.pick(3, 4)));
    let cases = ctx.tier.pick(2_000, 30_000);
    let refs_sets: Vec<Refs> = (0..NAME_SETS.len()).map(|k| Refs::with_names(&dir, k)).collect();
    let out = run_tapes("C11", ctx.seed, ctx.threads, cases, 900, |tape, stats, counting| {
        let g = Gates::with_off(off.clone());
        let mut t = Tape::new(tape);
        let notes = random_history(&mut t, &g);
        // half of the histories use the plain names, the others a pair that needs percent encoding
        let k = if t.flag() { 0 } else { t.below(NAME_SETS.len()) };
        let refs2 = &refs_sets[k];
        if counting && k != 0 {
            stats.class("random-history.names-need-percent-encoding");
        }
        g.take_wanted();
        g.take_hits();
        if counting {
            stats.case(notes.len() >= 2, hash_str(&notes.iter().map(|n| format!("{}{}", n.uri_idx, n.text)).collect::<String>()));
            stats.class("random-history");
            stats.class_n("random-history.notifications", notes.len() as u64);
        }
        // agreement with `ironplcc check <dir>` is also judged for the random histories
        match judge_history(refs2, &notes, true) {
            Ok(()) => Ok(()),
            Err((k, _)) if k == "infrastructure-timeout" => {
                stats.inconclusive += 1;
                Ok(())
            }
            Err((k, d)) => Err(Failure::new("history", &k, d, json!({"names": refs2.names, "history": notes.iter().map(|n| json!({"uri": (if n.uri_idx == 0 { "a.st" } else { "b.st" }), "text": n.text, "stale": n.stale, "reopen": n.reopen, "unchanged": n.unchanged})).collect::<Vec<_>>()}))),
        }
    });
    rep.add(out);
    rep.replay_witnesses(&ctx.findings, &|w| witness(w));
    rep.extra.insert("gates_off".into(), json!(off));
    rep.assumptions = vec![
        "diagnostics are compared as multisets (file order inside the project is hash seeded)".into(),
        "P0030 (set-level diagnostic without a file) is excluded on both sides".into(),
        "start positions are compared in characters (the unit of `ironplcc check`); a third of the random documents carry non-ASCII comments, characters beyond the BMP included only in comments that follow the diagnostic".into(),
    ];
    rep.wall_s = clock.secs();
    rep.finish()
}

/// witness {"kind":"history","history":[{"uri":"a.st","text":..},...], "cli": bool}
pub fn witness(w: &Value) -> Result<(), String> {
    let scratch = Scratch::new("c11w");
    let dir = scratch.path.to_string_lossy().to_string();
    let refs = Refs::new(&dir);
    let notes: Vec<Note> = w["history"]
        .as_array()
        .cloned()
        .unwrap_or_default()
        .iter()
        .map(|n| Note { uri_idx: if n["uri"] == "b.st" { 1 } else { 0 }, text: n["text"].as_str().unwrap_or("").to_string(), stale: n["stale"].as_str().map(String::from), reopen: n["reopen"].as_bool().unwrap_or(false), unchanged: n["unchanged"].as_bool().unwrap_or(false) })
        .collect();
    if notes.is_empty() {
        return Err("empty history".into());
    }
    let refs = match w["names"].as_array() {
        Some(a) if a.len() == 2 => match NAME_SETS.iter().position(|ns| ns[0] == a[0].as_str().unwrap_or("") && ns[1] == a[1].as_str().unwrap_or("")) {
            Some(k) => Refs::with_names(&refs.dir.clone(), k),
            None => refs,
        },
        _ => refs,
    };
    judge_history(&refs, &notes, w["cli"].as_bool().unwrap_or(true)).map_err(|(k, d)| format!("{}: {}", k, d))
}

pub fn replay(ctx: &Ctx, v: &Value) -> i32 {
    let w = if v["check"] == "witness" { v["inputs"].clone() } else { json!({"history": v["inputs"]["history"], "cli": true}) };
    match witness(&w) {
        Ok(()) => {
            println!("replay: property holds on this input");
            0
        }
        Err(e) => {
            println!("VIOLATION property=C11 replay={}", ctx.replay_path.clone().unwrap_or_default());
            eprintln!("{}", e);
            1
        }
    }
}

//! C10 – re-rendering round-trips.
//!
//! Domain: libraries in the image of the parser over the C01 generator.
//! Oracle: t1 = write_to_string(lib) is Ok, parse(t1) is Ok and equal to lib
//! (derived equality + case-sensitive identifier spellings), and
//! write_to_string(parse(t1)) == t1 (fixed point).

use crate::astwalk::{collect_ids, debug_diff};
use crate::gates::Gates;
use crate::lexeme::SpellOpts;
use crate::props::c01::build;
use crate::report::Report;
use crate::runner::*;
use crate::Ctx;
use ironplc_dsl::core::FileId;
use ironplc_parser::options::ParseOptions;
use ironplc_parser::parse_program;
use ironplc_plc2plc::write_to_string;
use serde_json::{json, Value};

pub fn roundtrip(text: &str) -> Result<bool, (String, String, String)> {
    let fid = FileId::from_string("c10.st");
    let lib = match crate::panicx::catch(|| parse_program(text, &fid, &ParseOptions::default())) {
        Ok(Ok(l)) => l,
        // not accepted by the parser: outside the domain of C10
        _ => return Ok(false),
    };
    let t1 = match crate::panicx::catch(|| write_to_string(&lib)) {
        Ok(Ok(t)) => t,
        Ok(Err(ds)) => {
            return Err(("render-error".into(), format!("write_to_string failed: {:?}", ds.iter().map(|d| d.code.clone()).collect::<Vec<_>>()), String::new()))
        }
        Err((loc, msg)) => return Err(("render-panic".into(), format!("write_to_string panicked at {}: {}", loc, msg), String::new())),
    };
    let lib2 = match crate::panicx::catch(|| parse_program(&t1, &fid, &ParseOptions::default())) {
        Ok(Ok(l)) => l,
        Ok(Err(d)) => {
            return Err((
                "rendering-rejected".into(),
                format!("rendered text does not parse: {} at {}..{} near {:?}", d.primary.message.chars().take(160).collect::<String>(), d.primary.location.start, d.primary.location.end, t1.get(d.primary.location.start.saturating_sub(20)..(d.primary.location.end + 20).min(t1.len())).unwrap_or("")),
                t1,
            ))
        }
        Err((loc, msg)) => return Err(("reparse-panic".into(), format!("{}: {}", loc, msg), t1)),
    };
    if lib2 != lib {
        return Err(("roundtrip-mismatch".into(), debug_diff(&lib, &lib2), t1));
    }
    let a: Vec<String> = collect_ids(&lib).into_iter().map(|x| x.0).collect();
    let b: Vec<String> = collect_ids(&lib2).into_iter().map(|x| x.0).collect();
    if a != b {
        return Err(("identifier-spelling".into(), "identifier spellings differ after the round trip".into(), t1));
    }
    match crate::panicx::catch(|| write_to_string(&lib2)) {
        Ok(Ok(t2)) => {
            if t2 != t1 {
                return Err(("not-a-fixed-point".into(), "rendering the re-parsed library yields a different text".into(), t1));
            }
        }
        _ => return Err(("render-error".into(), "second rendering failed".into(), t1)),
    }
    Ok(true)
}

/// second observation point: `ironplcc echo` output fed back to `ironplcc echo`
fn echo_twice(text: &str) -> Result<(), (String, String)> {
    let dir = crate::drive::Scratch::new("c10");
    let a = dir.write("a.st", text.as_bytes()).to_string_lossy().to_string();
    let o1 = crate::drive::run_cli(&["echo".to_string(), a], None);
    if o1.timed_out {
        return Ok(());
    }
    if o1.status != Some(0) {
        return Err(("echo-failed".into(), format!("`ironplcc echo` exits {:?} on a text the parser accepts", o1.status)));
    }
    let b = dir.write("b.st", o1.stdout.as_bytes()).to_string_lossy().to_string();
    let o2 = crate::drive::run_cli(&["echo".to_string(), b], None);
    if o2.timed_out {
        return Ok(());
    }
    if o2.status != Some(0) {
        return Err(("echo-output-rejected".into(), format!("`ironplcc echo` exits {:?} on its own output", o2.status)));
    }
    if o1.stdout != o2.stdout {
        return Err(("echo-not-a-fixed-point".into(), "echo of the echo output differs from the echo output".into()));
    }
    Ok(())
}

fn check_tape(tape: &[u8], gates: &Gates, stats: &mut Stats, counting: bool, cli_budget: &std::sync::atomic::AtomicI64) -> Result<(), Failure> {
    let case = build(tape, gates, &SpellOpts::canonical(), 3);
    let r = roundtrip(&case.text);
    if counting && matches!(r, Ok(true)) && cli_budget.fetch_sub(1, std::sync::atomic::Ordering::Relaxed) > 0 {
        stats.class("cli.echo-twice");
        echo_twice(&case.text).map_err(|(k, d)| Failure::new("echo", &k, d, json!({"text": case.text})))?;
    }
    if counting {
        let accepted = matches!(r, Ok(true) | Err(_));
        stats.case(accepted && case.lexemes.len() >= 5, hash_str(&case.text));
        if !accepted {
            stats.class("not-accepted-by-parser");
        }
        stats.absorb_gates(gates);
        let t = case.text.clone();
        stats.sample(3, || json!(t));
    } else {
        gates.take_hits();
        gates.take_wanted();
    }
    match r {
        Ok(_) => Ok(()),
        Err((kind, detail, t1)) => Err(Failure::new("roundtrip", &kind, detail, json!({"text": case.text, "rendered": t1}))),
    }
}

pub fn run(ctx: &Ctx) -> i32 {
    let clock = Clock::start();
    let mut rep = Report::new(
        "C10",
        ctx.tier,
        ctx.seed,
        "exploration",
        "programs of the C01 generator (all productions whose gates are on) in canonical spelling -> lib = parse(text); t1 = write_to_string(lib) must be Ok, parse(t1) must be Ok and == lib (plus case-sensitive identifier spellings) and write_to_string(parse(t1)) == t1; for a sample `ironplcc echo` of the echo output must succeed and reproduce it. Non-trivial: accepted by the parser and >= 5 lexemes; distinct by text hash.",
    );
    let mut gates = ctx.gates_for("C10");
    // C10-specific exclusions live in known_findings.json under property C10 like all others
    let _ = &mut gates;
    let off = gates.off_list();
    let cases = ctx.tier.pick(400_000, 5_000_000);
    let cli_budget = std::sync::atomic::AtomicI64::new(ctx.tier.pick(300, 6000));
    let out = run_tapes("C10", ctx.seed, ctx.threads, cases, 1200, |tape, stats, counting| {
        let g = Gates::with_off(off.clone());
        check_tape(tape, &g, stats, counting, &cli_budget)
    });
    rep.add(out);
    crate::fuzzrun::tape_campaign(ctx, &mut rep, "C10", &gates);
    rep.replay_witnesses(&ctx.findings, &|w| witness(w));
    rep.extra.insert("gates_off".into(), json!(off));
    rep.assumptions = vec!["texts the parser rejects are outside C10's domain (counted as not-accepted-by-parser)".into()];
    rep.wall_s = clock.secs();
    rep.finish()
}

/// witness {"kind":"roundtrip","text":..}
pub fn witness(w: &Value) -> Result<(), String> {
    let text = w["text"].as_str().ok_or("witness without text")?;
    match roundtrip(text) {
        Ok(true) => Ok(()),
        Ok(false) => Err("witness text is not accepted by the parser".into()),
        Err((k, d, _)) => Err(format!("{}: {}", k, d)),
    }
}

pub fn replay(ctx: &Ctx, v: &Value) -> i32 {
    let text = v["inputs"]["text"].as_str().unwrap_or("");
    let r = if v["check"] == "echo" { echo_twice(text).map(|_| true).map_err(|(k, d)| (k, d, String::new())) } else { roundtrip(text) };
    match r {
        Ok(_) => {
            println!("replay: property holds on this input");
            0
        }
        Err((k, d, _)) => {
            println!("VIOLATION property=C10 replay={}", ctx.replay_path.clone().unwrap_or_default());
            eprintln!("{}: {}", k, d);
            1
        }
    }
}

/// one tape through the in-process oracle (used by the coverage-guided `tapes` fuzz target)
pub fn fuzz_one(tape: &[u8], gates: &Gates) -> Result<(), Failure> {
    let mut s = Stats::default();
    let zero = std::sync::atomic::AtomicI64::new(0);
    check_tape(tape, gates, &mut s, false, &zero)
}

//! C15 – semantic tokens decode to exactly the highlighted lexemes of the document.
//!
//! Documents are printed by the harness (so the lexeme table is known without lexing), opened
//! and changed through a short history, then `textDocument/semanticTokens/full` is requested.
//! The response is decoded under the LSP relative encoding and compared with the lexeme table
//! of the *current* text.

use crate::drive::*;
use crate::gates::Gates;
use crate::gen_syntax::Gen;
use crate::lexeme::{layout, Class, Layout, Lexeme, SpellOpts, TriviaKind};
use crate::printer::Printer;
use crate::report::Report;
use crate::runner::*;
use crate::tape::Tape;
use crate::Ctx;
use serde_json::{json, Value};
use std::collections::HashMap;

pub struct Doc {
    pub text: String,
    pub lay: Layout,
    pub lexemes: Vec<Lexeme>,
}

pub fn gen_doc(t: &mut Tape, gates: &Gates) -> Doc {
    let mut g = Gen::new(gates, t.rest());
    let lib = g.library(2);
    let mut p = Printer::new(gates, g.t.rest());
    p.library(&lib);
    let mut lt = p.t.rest();
    let lexemes = p.finish();
    let mut opts = SpellOpts::wild();
    // non-ASCII documents are generated also while KF-C15-02 is known (then judged in bytes)
    let _ = gates.want("SEMANTIC_TOKENS_NON_ASCII_DOCUMENT");
    opts.non_ascii = lt.ratio(1, 4);
    opts.line_comments = gates.want("TRIVIA_LINE_COMMENT");
    opts.touch = gates.want("LEXEMES_MAY_TOUCH");
    // OSCAT marker comments are not used here: a blanked description block is no comment lexeme
    opts.oscat_phase.set(255);
    let (lay, _) = layout(&lexemes, &opts, &mut lt);
    gates.take_hits();
    // advance the caller's tape a little so that successive documents differ
    for _ in 0..8 {
        t.byte();
    }
    let mut doc = Doc { text: lay.text.clone(), lay, lexemes };
    // a document that ends in the middle of a program (the user is still typing, or has deleted the
    // tail): cut directly after a lexeme, optionally followed by a comment / blanks and NO final
    // line break - every lexeme up to the cut is still a token
    if lt.ratio(1, 5) {
        let ends: Vec<(usize, usize)> = doc.lay.pieces.iter().enumerate().filter(|(_, p)| p.lexeme.is_some()).map(|(i, p)| (i, p.end)).collect();
        if ends.len() >= 2 {
            // prefer a cut right after an END_IF when there is one
            let end_ifs: Vec<(usize, usize)> = ends.iter().copied().filter(|(i, _)| doc.lay.pieces[*i].lexeme.map(|l| doc.lexemes[l].text.eq_ignore_ascii_case("END_IF")).unwrap_or(false)).collect();
            let (pi, cut) = if !end_ifs.is_empty() && lt.flag() { end_ifs[lt.below(end_ifs.len())] } else { ends[lt.below(ends.len())] };
            doc.lay.pieces.truncate(pi + 1);
            doc.text.truncate(cut);
            match lt.below(4) {
                0 => {}
                1 => doc.text.push_str("  \t"),
                k => {
                    let lead = if k == 2 { " " } else { "" };
                    doc.text.push_str(lead);
                    let start = doc.text.len();
                    let line = doc.text.matches('\n').count();
                    let line_start = doc.text.rfind('\n').map(|p| p + 1).unwrap_or(0);
                    let c = "(* tail *)";
                    doc.text.push_str(c);
                    let colb = start - line_start;
                    let colc = doc.text[line_start..start].chars().count();
                    let colu = doc.text[line_start..start].encode_utf16().count();
                    doc.lay.pieces.push(crate::lexeme::Piece { start, end: start + c.len(), line, col_bytes: colb, col_chars: colc, col_utf16: colu, lexeme: None, trivia: Some(TriviaKind::Comment) });
                }
            }
            doc.lay.text = doc.text.clone();
        }
    }
    // an OSCAT description header in front of the document (the closing marker first on its line or
    // not, LF or CRLF inside): the preprocessor blanks the text between the markers, the two markers stay comments
    // and every lexeme after the header keeps its place
    if lt.ratio(1, 6) {
        let nl = if lt.flag() { "\r\n" } else { "\n" };
        // (non-ASCII text in the description, also on the line that carries the closing marker; the
        // code may go on behind the closing marker on the same line)
        let body = match lt.below(7) {
            0 => format!("{}version 1.2{}programmer x{}", nl, nl, nl),
            1 => " one line ".to_string(),
            2 => format!("{}  indented{}  ", nl, nl),
            3 => " Gr\u{f6}\u{df}e \u{1f600} ".to_string(),
            4 => format!("{}Pr\u{fc}fung{}  \u{e4}\u{20ac}\u{1f600} ", nl, nl),
            5 => format!("{}\u{e9}t\u{e9}{}", nl, nl),
            _ => String::new(),
        };
        let after = if lt.ratio(1, 3) { " " } else { nl };
        let header = format!("{}{}{}{}", crate::lexeme::OSCAT_OPEN_MARK, body, crate::lexeme::OSCAT_CLOSE_MARK, after);
        let shift = header.len();
        let lines = header.matches('\n').count();
        for p in doc.lay.pieces.iter_mut() {
            p.start += shift;
            p.end += shift;
            p.line += lines;
        }
        // the two markers themselves stay comments (only the text between them is blanked)
        let open_len = crate::lexeme::OSCAT_OPEN_MARK.len();
        let close_at = open_len + body.len();
        let close_line = header[..close_at].matches('\n').count();
        let close_col_start = header[..close_at].rfind('\n').map(|p| p + 1).unwrap_or(0);
        let col = close_at - close_col_start;
        let colc = header[close_col_start..close_at].chars().count();
        let colu = header[close_col_start..close_at].encode_utf16().count();
        let mk = |start: usize, end: usize, line: usize, col: usize, colc: usize, colu: usize| crate::lexeme::Piece { start, end, line, col_bytes: col, col_chars: colc, col_utf16: colu, lexeme: None, trivia: Some(TriviaKind::Comment) };
        doc.lay.pieces.insert(0, mk(close_at, close_at + crate::lexeme::OSCAT_CLOSE_MARK.len(), close_line, col, colc, colu));
        doc.lay.pieces.insert(0, mk(0, open_len, 0, 0, 0, 0));
        doc.text = format!("{}{}", header, doc.text);
        doc.lay.text = doc.text.clone();
        // (when the code goes on behind the closing marker, the columns of the pieces of that line move)
        if after == " " {
            let pos = crate::lexeme::PosIndex::new(&doc.text);
            let text = doc.text.clone();
            for p in doc.lay.pieces.iter_mut() {
                let (l, cb, cc, cu) = pos.pos(p.start.min(text.len()));
                p.line = l;
                p.col_bytes = cb;
                p.col_chars = cc;
                p.col_utf16 = cu;
            }
        }
    }
    doc
}

/// the unit in which a response counts characters and lengths
#[derive(Clone, Copy, PartialEq, Debug)]
pub enum Unit {
    /// what the protocol prescribes
    Utf16,
    /// known finding KF-C15-02: the pinned tree counts bytes
    Bytes,
}
fn width(c: char, unit: Unit) -> usize {
    match unit {
        Unit::Utf16 => c.len_utf16(),
        Unit::Bytes => c.len_utf8(),
    }
}

/// (line, character in `unit`) -> byte offset
pub fn offset_of(text: &str, line: usize, ch: usize, unit: Unit) -> Option<usize> {
    let mut cur_line = 0;
    let mut off = 0;
    for l in text.split_inclusive('\n') {
        if cur_line == line {
            let mut u = 0;
            for (bi, c) in l.char_indices() {
                if u == ch {
                    return Some(off + bi);
                }
                u += width(c, unit);
            }
            if u == ch {
                return Some(off + l.len());
            }
            return None;
        }
        off += l.len();
        cur_line += 1;
    }
    if cur_line == line && ch == 0 {
        Some(off)
    } else {
        None
    }
}

/// Judges a semantic-tokens result against the lexeme table of `doc`.
/// One unit for the whole response: UTF-16, or - only while KF-C15-02 is listed as known - bytes.
pub fn judge(doc: &Doc, legend: &[String], result: &Value, bytes_known: bool) -> Result<usize, (String, String)> {
    match judge_unit(doc, legend, result, Unit::Utf16) {
        Ok(k) => Ok(k),
        Err(e) => {
            if bytes_known && !doc.text.is_ascii() {
                judge_unit(doc, legend, result, Unit::Bytes).map_err(|(k, d)| (k, format!("{} (judged in bytes, the unit of known finding KF-C15-02; in UTF-16: {})", d, e.1)))
            } else {
                Err(e)
            }
        }
    }
}

pub fn judge_unit(doc: &Doc, legend: &[String], result: &Value, unit: Unit) -> Result<usize, (String, String)> {
    let data: Vec<u64> = match result.get("data").and_then(|d| d.as_array()) {
        Some(a) => a.iter().map(|x| x.as_u64().unwrap_or(u64::MAX)).collect(),
        None => return Err(("no-data".into(), format!("result is {} for a document without lexical errors", result))),
    };
    if data.len() % 5 != 0 {
        return Err(("malformed".into(), format!("data has {} entries, not a multiple of 5", data.len())));
    }
    // pieces by start offset
    let mut by_start: HashMap<usize, &crate::lexeme::Piece> = HashMap::new();
    for p in &doc.lay.pieces {
        by_start.insert(p.start, p);
    }
    let mut line = 0usize;
    let mut start = 0usize;
    let mut prev_end_off = 0usize;
    let mut reported = std::collections::HashSet::new();
    for (k, q) in data.chunks(5).enumerate() {
        let (dl, ds, len, ty) = (q[0] as usize, q[1] as usize, q[2] as usize, q[3] as usize);
        if dl == 0 {
            start += ds;
        } else {
            line += dl;
            start = ds;
        }
        if k > 0 && dl == 0 && ds == 0 {
            return Err(("not-increasing".into(), format!("token #{} has deltaLine 0 and deltaStart 0", k)));
        }
        let off = match offset_of(&doc.text, line, start, unit) {
            Some(o) => o,
            None => return Err(("outside-document".into(), format!("token #{} decodes to line {} character {} which is outside the document", k, line, start))),
        };
        if off < prev_end_off {
            return Err(("overlap".into(), format!("token #{} at line {} character {} starts before the end of the previous token", k, line, start)));
        }
        // length in `unit`s of the document from `off`
        let mut u = 0usize;
        let mut end = off;
        for c in doc.text[off..].chars() {
            if u >= len {
                break;
            }
            u += width(c, unit);
            end += c.len_utf8();
        }
        if u != len {
            return Err(("outside-document".into(), format!("token #{} length {} runs past the end of the document", k, len)));
        }
        prev_end_off = end;
        let piece = match by_start.get(&off) {
            Some(p) if p.end == end => *p,
            // (a `//` comment may be reported with or without the line break that ends it)
            Some(p) if p.trivia == Some(TriviaKind::Comment) && doc.text[p.start..].starts_with("//") && (doc.text[p.end..end.max(p.end)] == *"\n" || doc.text[p.end..end.max(p.end)] == *"\r\n") => *p,
            _ => {
                return Err((
                    "not-a-lexeme".into(),
                    format!("token #{} decodes to line {} character {} length {} = {:?}, which is not exactly one lexeme of the document", k, line, start, len, doc.text.get(off..end).unwrap_or("?").chars().take(40).collect::<String>()),
                ))
            }
        };
        let name = legend.get(ty).cloned().unwrap_or_else(|| format!("#{}", ty));
        let ok = match (piece.lexeme.map(|i| (&doc.lexemes[i].class, doc.lexemes[i].text.as_str())), &piece.trivia) {
            (None, Some(TriviaKind::Comment)) => name == "comment",
            (None, _) => false,
            (Some((Class::Ident, _)), _) => name == "variable",
            (Some((Class::Address, _)), _) => name == "operator",
            (Some((Class::Keyword, _)), _) => name == "keyword" || name == "modifier",
            (Some((Class::TypeKw, w)), _) => name == "keyword" || (name == "string" && (w.eq_ignore_ascii_case("STRING") || w.eq_ignore_ascii_case("WSTRING"))),
            (Some((Class::WordOp, _)), _) | (Some((Class::Op, _)), _) => name == "operator" || name == "keyword",
            // words the lexer cannot tell from identifiers (T, ms, N, INTERVAL ...)
            (Some((Class::TextKw, _)), _) => name == "variable" || name == "keyword",
            // the range delimiter is the only punctuation that may be highlighted
            (Some((Class::Punct, w)), _) => w == ".." && (name == "keyword" || name == "operator"),
            (Some((Class::Number, _)), _) | (Some((Class::Str, _)), _) => false,
        };
        if !ok {
            return Err((
                "wrong-legend-entry".into(),
                format!("token #{} {:?} is reported as '{}'", k, doc.text.get(off..end).unwrap_or("?").chars().take(40).collect::<String>(), name),
            ));
        }
        reported.insert(off);
    }
    // completeness: identifiers, comments, addresses
    for p in &doc.lay.pieces {
        let must = match (p.lexeme.map(|i| &doc.lexemes[i].class), &p.trivia) {
            (Some(Class::Ident), _) | (Some(Class::Address), _) => true,
            (Some(Class::Keyword), _) | (Some(Class::TypeKw), _) | (Some(Class::WordOp), _) | (Some(Class::Op), _) => true,
            (None, Some(TriviaKind::Comment)) => true,
            _ => false,
        };
        if must && !reported.contains(&p.start) {
            return Err(("lexeme-not-reported".into(), format!("{:?} at byte {} (line {}) is not in the response", &doc.text[p.start..p.end].chars().take(40).collect::<String>(), p.start, p.line)));
        }
    }
    Ok(data.len() / 5)
}

fn legend_of(frames: &[Value]) -> Vec<String> {
    for f in frames {
        if f["id"] == 0 {
            if let Some(a) = f["result"]["capabilities"]["semanticTokensProvider"]["legend"]["tokenTypes"].as_array() {
                return a.iter().map(|x| x.as_str().unwrap_or("").to_string()).collect();
            }
        }
    }
    vec![]
}

fn check_tape(tape: &[u8], gates: &Gates, stats: &mut Stats, counting: bool) -> Result<(), Failure> {
    let mut t = Tape::new(tape);
    let derived = crate::tape::derived(tape, 64);
    let mut choice = Tape::new(&derived);
    // a history of 1..3 texts for the same URI; the last one is current
    let n = 1 + choice.below(4);
    let mut docs: Vec<Doc> = (0..n).map(|_| gen_doc(&mut t, gates)).collect();
    // now and then the current text has no lexeme at all (the user has deleted everything): an
    // empty list of tokens, not "no result"
    let blank = choice.ratio(1, 16);
    if blank {
        let text = (*choice.pick(&["", "", " ", "\n", "\r\n", "\t \n\n "])).to_string();
        let d = docs.last_mut().unwrap();
        *d = Doc { text: text.clone(), lay: Layout { text, pieces: vec![] }, lexemes: vec![] };
    }
    // now and then the lexemes sit beyond line 65 535, or behind a comment lexeme longer than
    // 65 535 characters on their line: deltas and lengths are 32-bit quantities
    if !blank && choice.ratio(1, 24) {
        let d = docs.last_mut().unwrap();
        let (prefix, comment_len, lines) = match choice.below(3) {
            0 => ("\n".repeat(70_000), 0usize, 70_000usize),
            1 => ("\r\n".repeat(66_000), 0, 66_000),
            _ => (format!("(*{}*) ", "x".repeat(70_000)), 70_004, 0),
        };
        let k = prefix.len();
        for p in d.lay.pieces.iter_mut() {
            p.start += k;
            p.end += k;
            p.line += lines;
        }
        if comment_len > 0 {
            d.lay.pieces.insert(0, crate::lexeme::Piece { start: 0, end: comment_len, line: 0, col_bytes: 0, col_chars: 0, col_utf16: 0, lexeme: None, trivia: Some(TriviaKind::Comment) });
        }
        d.text.insert_str(0, &prefix);
        d.lay.text = d.text.clone();
        if counting {
            stats.class("doc.positions-beyond-65535");
        }
    }
    let lexical_error = !blank && choice.ratio(1, 8);
    if lexical_error {
        let d = docs.last_mut().unwrap();
        // text that is no token: at the very start, at the very end, or directly in front of a
        // lexeme (never inside a comment or a string)
        let junk = *choice.pick(&["?\n", "?", "@", "~", "\u{feff}", "\u{1a}", "`", "\\", "!", "\u{20ac}", "\u{0}"]);
        let lexeme_starts: Vec<usize> = d.lay.pieces.iter().filter(|p| p.lexeme.is_some()).map(|p| p.start).collect();
        let at = match choice.below(3) {
            0 => 0,
            1 => d.text.len(),
            _ => {
                if lexeme_starts.is_empty() {
                    0
                } else {
                    lexeme_starts[choice.below(lexeme_starts.len())]
                }
            }
        };
        d.text.insert_str(at, junk);
    }
    // earlier versions may be unlexable too, and tokens may be requested after ANY version (an
    // editor asks after every keystroke): each answer is about the text that is current when the
    // request arrives - a list for a lexable text, null for an unlexable one, whatever was
    // answered before
    let n_docs = docs.len();
    let mut junked: Vec<bool> = vec![false; n_docs];
    for i in 0..n_docs.saturating_sub(1) {
        if choice.ratio(1, 4) {
            let junk = *choice.pick(&["?", "@", "~", "`", "!", "\u{20ac}"]);
            let d = &mut docs[i];
            let starts: Vec<usize> = d.lay.pieces.iter().filter(|p| p.lexeme.is_some()).map(|p| p.start).collect();
            let at = if starts.is_empty() || choice.flag() { d.text.len() } else { starts[choice.below(starts.len())] };
            d.text.insert_str(at, junk);
            junked[i] = true;
        }
    }
    junked[n_docs - 1] = lexical_error;
    let asked: Vec<bool> = (0..n_docs).map(|i| i + 1 == n_docs || choice.ratio(1, 2)).collect();
    // the document is usually one that exists nowhere on disk; now and then it names a file that
    // does exist - by its plain path, or through a directory that is a symbolic link -, whose
    // contents on disk are an older, shorter text, and the folder may be the workspace folder of the
    // session: the answer is about the text the editor sent, never about the file
    let mut _scratch: Option<Scratch> = None;
    let mut init = lsp_initialize(0);
    let uri_string: String = if choice.ratio(1, 8) && gates.want("DOCUMENT_THAT_EXISTS_ON_DISK") {
        let sc = Scratch::new("c15disk");
        sc.write("real/doc.st", b"PROGRAM stale\nVAR\nold : INT;\nEND_VAR\nold := 1;\nEND_PROGRAM\n");
        let through_link = choice.flag();
        let dirname = if through_link {
            let _ = std::os::unix::fs::symlink(sc.path.join("real"), sc.path.join("link"));
            "link"
        } else {
            "real"
        };
        let folder = format!("file://{}/{}", sc.path.to_string_lossy(), dirname);
        if choice.flag() {
            init["params"]["workspaceFolders"] = json!([{"uri": folder, "name": "w"}]);
            init["params"]["rootUri"] = json!(folder);
        }
        if counting {
            stats.class(if through_link { "uri.existing-file-through-symlink" } else { "uri.existing-file" });
        }
        let u = format!("{}/doc.st", folder);
        _scratch = Some(sc);
        u
    } else {
        "file:///w/doc.st".to_string()
    };
    let uri: &str = &uri_string;
    let other = "file:///w/other.st";
    let mut msgs = vec![init, lsp_initialized()];
    // other documents of the session: none, one opened first, or up to three whose names sort before
    // and after the document's, opened before it, between its versions or after it (a store that
    // is kept in some order must find every document whatever the order of arrival)
    let other_text = "PROGRAM other\nVAR\nz : INT;\nEND_VAR\nEND_PROGRAM\n";
    let others: Vec<&str> = match choice.below(4) {
        0 => vec![],
        1 => vec![other],
        2 => vec!["file:///w/a_first.st", "file:///w/zz_last.st"],
        _ => vec!["file:///w/zz_last.st", "file:///w/doc.s", "file:///w/a_first.st"],
    };
    let others_when = choice.below(3); // 0 before the document, 1 after its first version, 2 after its last version
    if others_when == 0 {
        for (k, o) in others.iter().enumerate() {
            msgs.push(lsp_did_open(o, 1, &other_text.replace("other", &format!("other{}", k))));
        }
    }
    let mut ver = 0i64;
    let mut reopened = false;
    for (i, d) in docs.iter().enumerate() {
        if i == 0 {
            ver = 1;
            msgs.push(lsp_did_open(uri, 1, &d.text));
        } else if choice.ratio(1, 4) {
            // the client closes the document and opens it again: version numbering restarts
            msgs.push(lsp_did_close(uri));
            ver = 1;
            reopened = true;
            msgs.push(lsp_did_open(uri, 1, &d.text));
        } else {
            ver += 1;
            msgs.push(lsp_did_change(uri, ver, &[&d.text]));
        }
        if (i == 0 && others_when == 1) || (i + 1 == n_docs && others_when == 2 && !(i == 0 && others_when == 1)) {
            for (k, o) in others.iter().enumerate() {
                msgs.push(lsp_did_open(o, 1, &other_text.replace("other", &format!("other{}", k))));
            }
        }
        if i + 1 < n_docs && asked[i] {
            msgs.push(lsp_semantic_tokens(json!(100 + i as i64), uri));
        }
    }
    msgs.push(lsp_semantic_tokens(json!(7), uri));
    msgs.push(lsp_shutdown(8));
    msgs.push(lsp_exit());
    let run = lsp_run(&msgs);
    if run.timed_out {
        stats.inconclusive += 1;
        return Ok(());
    }
    let doc = docs.last().unwrap();
    let resp = run.frames.iter().find(|f| f["id"] == 7 && f.get("method").is_none());
    let fail = |kind: &str, detail: String| Failure::new("semantic-tokens", kind, detail, json!({"text": doc.text, "response": resp, "history_length": n}));
    let resp = match resp {
        Some(r) => r,
        None => return Err(fail("no-response", format!("no response to the semanticTokens request (exit {:?})", run.status))),
    };
    let legend = legend_of(&run.frames);
    // the answers to the requests made after earlier versions
    for i in 0..n_docs.saturating_sub(1) {
        if !asked[i] {
            continue;
        }
        let d = &docs[i];
        let r = run.frames.iter().find(|f| f["id"] == 100 + i as i64 && f.get("method").is_none());
        let failv = |kind: &str, detail: String| Failure::new("semantic-tokens", kind, format!("request after version {} of {}: {}", i + 1, n_docs, detail), json!({"text": d.text, "response": r, "history_length": n, "texts": docs.iter().map(|x| x.text.clone()).collect::<Vec<_>>()}));
        let r = match r {
            Some(r) => r,
            None => return Err(failv("no-response", format!("no response to the semanticTokens request (exit {:?})", run.status))),
        };
        if counting {
            stats.class(if junked[i] { "intermediate-request.unlexable-version" } else { "intermediate-request.lexable-version" });
        }
        if junked[i] {
            if !r["result"].is_null() && r.get("error").is_none() {
                return Err(failv("partial-list", "the text current at that moment contains text that is not a valid token, but the result is not null".into()));
            }
        } else if d.lay.text == d.text {
            if let Err((kind, detail)) = judge(d, &legend, &r["result"], gates.is_off("SEMANTIC_TOKENS_NON_ASCII_DOCUMENT")) {
                return Err(failv(&kind, detail));
            }
        }
    }
    if counting {
        let lines_with_tokens = doc.text.lines().filter(|l| !l.trim().is_empty()).count();
        let comment_then_token = doc.text.lines().any(|l| l.contains("*)") && l.rsplit("*)").next().map(|r| !r.trim().is_empty()).unwrap_or(false));
        stats.case(lines_with_tokens >= 3 && comment_then_token, hash_str(&doc.text));
        stats.class(if blank { "doc.blank" } else if lexical_error { "doc.lexical-error" } else if doc.text.is_ascii() { "doc.ascii" } else { "doc.non-ascii" });
        stats.class(&format!("history.{}", n));
        if reopened {
            stats.class("history.with-close-and-reopen");
        }
        stats.absorb_gates(gates);
        if stats.samples.len() < 2 && doc.text.len() < 500 {
            stats.samples.push(json!({"document": doc.text, "data_prefix": resp["result"]["data"].as_array().map(|a| a.iter().take(20).cloned().collect::<Vec<_>>())}));
        }
    } else {
        gates.take_wanted();
    }
    if lexical_error {
        // the junk is no token of IEC 61131-3 wherever it stands outside comments and strings, and
        // the generator put it there: the document is unlexable by construction (asking the lexer
        // under test would make the oracle agree with whatever it does)
        if !resp["result"].is_null() || resp.get("error").is_some() {
            if resp.get("error").is_none() {
                return Err(fail("partial-list", "the document contains text that is not a valid token, but the result is not null".into()));
            }
        }
        return Ok(());
    }
    match judge(doc, &legend, &resp["result"], gates.is_off("SEMANTIC_TOKENS_NON_ASCII_DOCUMENT")) {
        Ok(k) => {
            if counting {
                stats.class_n("tokens-decoded", k as u64);
            }
            Ok(())
        }
        Err((kind, detail)) => Err(fail(&kind, detail)),
    }
}

/// Tight joints, written by hand: lexemes that touch without any blank between them (valid
/// programs almost never have an address directly before a period, an operator directly after a
/// comment ...).  The texts need not parse - semantic tokens are a matter of the lexer alone.
/// piece classes: K keyword, T type keyword, W word operator, I identifier, N number, S string,
/// P punctuation, O operator, A address, C comment, B blanks, L line break
fn tight_docs() -> Vec<Vec<(&'static str, char)>> {
    vec![
        vec![("%IX1.0", 'A'), (".", 'P'), ("b", 'I')],
        vec![("x", 'I'), (":=", 'O'), ("%MW1", 'A'), ("..", 'P'), ("5", 'N'), (";", 'P')],
        vec![("a", 'I'), (".", 'P'), ("b", 'I'), (".", 'P'), ("c", 'I'), (":=", 'O'), ("1", 'N'), (";", 'P')],
        vec![("x", 'I'), (":=", 'O'), ("-", 'O'), ("1", 'N'), ("+", 'O'), ("y", 'I'), (";", 'P')],
        vec![("(*c*)", 'C'), ("x", 'I'), ("(*d*)", 'C'), ("y", 'I')],
        vec![("a", 'I'), (":=", 'O'), ("b", 'I'), ("**", 'O'), ("c", 'I'), ("*", 'O'), ("d", 'I'), (";", 'P')],
        vec![("x", 'I'), (":=", 'O'), ("y", 'I'), ("<=", 'O'), ("z", 'I'), ("<>", 'O'), ("w", 'I'), (">=", 'O'), ("v", 'I'), ("<", 'O'), ("u", 'I'), (">", 'O'), ("t", 'I'), ("=", 'O'), ("s", 'I'), (";", 'P')],
        vec![("IF", 'K'), ("(", 'P'), ("x", 'I'), (")", 'P'), ("THEN", 'K'), (" ", 'B'), ("y", 'I'), (":=", 'O'), ("1", 'N'), (";", 'P'), ("END_IF", 'K'), (";", 'P')],
        vec![("v", 'I'), (" ", 'B'), ("AT", 'K'), (" ", 'B'), ("%I*", 'A'), (":", 'P'), ("BOOL", 'T'), (";", 'P')],
        vec![("x", 'I'), (":=", 'O'), ("16#FF", 'N'), (";", 'P'), ("y", 'I'), (":=", 'O'), ("2#1010", 'N'), (";", 'P')],
        vec![("s", 'I'), (":=", 'O'), ("'a.b'", 'S'), (";", 'P')],
        vec![("x", 'I'), (":=", 'O'), ("a", 'I'), ("&", 'O'), ("b", 'I'), (";", 'P')],
        vec![("f", 'I'), ("(", 'P'), ("a", 'I'), (":=", 'O'), ("1", 'N'), (",", 'P'), ("b", 'I'), ("=>", 'O'), ("c", 'I'), (")", 'P'), (";", 'P')],
        vec![("x", 'I'), (":=", 'O'), ("NOT", 'W'), (" ", 'B'), ("y", 'I'), (" ", 'B'), ("AND", 'W'), (" ", 'B'), ("z", 'I'), (" ", 'B'), ("OR", 'W'), (" ", 'B'), ("w", 'I'), (" ", 'B'), ("XOR", 'W'), (" ", 'B'), ("v", 'I'), (" ", 'B'), ("MOD", 'W'), (" ", 'B'), ("2", 'N'), (";", 'P')],
        vec![("%QB10.20.30", 'A'), (".", 'P'), ("z", 'I')],
        vec![("arr", 'I'), ("[", 'P'), ("1", 'N'), ("..", 'P'), ("2", 'N'), ("]", 'P')],
        vec![("x", 'I'), (":=", 'O'), ("%MW1", 'A'), (".", 'P')],
        vec![("x", 'I'), (":=", 'O'), ("%IX1.2", 'A'), (".", 'P'), ("y", 'I'), ("\r\n", 'L'), (".", 'P'), ("b", 'I')],
        vec![("%mw7", 'A'), ("(*c*)", 'C'), ("%Qx0.1", 'A'), (",", 'P'), ("%M*", 'A'), (")", 'P')],
        vec![("END_VAR", 'K'), (";", 'P'), ("VAR", 'K'), (";", 'P'), ("END_VAR", 'K'), ("(*x*)", 'C'), ("VAR_INPUT", 'K')],
    ]
}

fn doc_of(spec: &[(&'static str, char)]) -> Doc {
    use crate::lexeme::{Join, Piece};
    let mut text = String::new();
    let mut lexemes = vec![];
    let mut pieces = vec![];
    let (mut line, mut col) = (0usize, 0usize);
    for (t, k) in spec {
        let start = text.len();
        text.push_str(t);
        let class = match k {
            'K' => Some(Class::Keyword),
            'T' => Some(Class::TypeKw),
            'W' => Some(Class::WordOp),
            'I' => Some(Class::Ident),
            'N' => Some(Class::Number),
            'S' => Some(Class::Str),
            'P' => Some(Class::Punct),
            'O' => Some(Class::Op),
            'A' => Some(Class::Address),
            _ => None,
        };
        let (lexeme, trivia) = match class {
            Some(c) => {
                lexemes.push(Lexeme { text: t.to_string(), class: c, join: Join::Tight, mark: None });
                (Some(lexemes.len() - 1), None)
            }
            None => (None, Some(match k {
                'C' => TriviaKind::Comment,
                'L' => TriviaKind::Newline,
                _ => TriviaKind::Blank,
            })),
        };
        pieces.push(Piece { start, end: text.len(), line, col_bytes: col, col_chars: col, col_utf16: col, lexeme, trivia });
        if t.contains('\n') {
            line += 1;
            col = 0;
        } else {
            col += t.len();
        }
    }
    Doc { text: text.clone(), lay: Layout { text, pieces }, lexemes }
}

/// Neighbour grid: the class of a lexeme is a matter of its own text, whatever stands in front of
/// it or behind it.  Every ordered pair of ~80 representative lexemes (keywords in three letter
/// cases, type keywords, word operators, identifiers, numbers, strings, punctuation, operators,
/// addresses), separated by a blank, a line break, a comment, or nothing where the two may touch.
/// One document per (first lexeme, separator): a line per second lexeme.  Texts need not parse.
const NEIGHBOURS: &[(&str, char)] = &[
    ("IF", 'K'), ("THEN", 'K'), ("END_IF", 'K'), ("end_if", 'K'), ("VAR", 'K'), ("END_VAR", 'K'), ("PROGRAM", 'K'), ("TYPE", 'K'), ("Type", 'K'), ("STRUCT", 'K'),
    ("ARRAY", 'K'), ("OF", 'K'), ("AT", 'K'), ("RETURN", 'K'), ("CONSTANT", 'K'), ("RETAIN", 'K'), ("TO", 'K'), ("EN", 'K'), ("ENO", 'K'), ("eno", 'K'),
    ("TRUE", 'K'), ("false", 'K'), ("STEP", 'K'), ("ON", 'K'), ("WITH", 'K'), ("FROM", 'K'), ("TASK", 'K'), ("R_EDGE", 'K'), ("READ_ONLY", 'K'), ("FUNCTION_BLOCK", 'K'),
    ("BOOL", 'T'), ("INT", 'T'), ("Time", 'T'), ("STRING", 'T'), ("WSTRING", 'T'), ("DATE", 'T'), ("TOD", 'T'), ("dt", 'T'), ("LWORD", 'T'),
    ("AND", 'W'), ("OR", 'W'), ("XOR", 'W'), ("MOD", 'W'), ("NOT", 'W'), ("mod", 'W'),
    ("x", 'I'), ("abc_1", 'I'), ("_u", 'I'), ("Valve", 'I'),
    ("1", 'N'), ("2#1010", 'N'), ("1.5", 'N'),
    ("'a.b'", 'S'), ("\"w\"", 'S'),
    (".", 'P'), (",", 'P'), (";", 'P'), (":", 'P'), ("(", 'P'), (")", 'P'), ("[", 'P'), ("]", 'P'), ("..", 'P'),
    (":=", 'O'), ("+", 'O'), ("-", 'O'), ("*", 'O'), ("/", 'O'), ("**", 'O'), ("<", 'O'), (">", 'O'), ("<=", 'O'), (">=", 'O'), ("<>", 'O'), ("=", 'O'), ("&", 'O'), ("=>", 'O'),
    ("%IX1.2", 'A'), ("%MW1", 'A'), ("%I*", 'A'),
];

fn neighbour_docs() -> Vec<Vec<(&'static str, char)>> {
    let mut docs = vec![];
    for &(a, ka) in NEIGHBOURS {
        for (sep, ks) in [(" ", 'B'), ("\r\n", 'L'), ("(*c*)", 'C'), ("", 'B'), ("\t(* a *) ", 'X')] {
            let mut spec: Vec<(&'static str, char)> = vec![];
            for &(b, kb) in NEIGHBOURS {
                spec.push((a, ka));
                match (sep, ks) {
                    ("", _) => {
                        if !crate::lexeme::can_touch(a, b) {
                            spec.push((" ", 'B'));
                        }
                    }
                    (_, 'X') => {
                        spec.push(("\t", 'B'));
                        spec.push(("(* a *)", 'C'));
                        spec.push((" ", 'B'));
                    }
                    _ => spec.push((sep, ks)),
                }
                spec.push((b, kb));
                spec.push(("\n", 'L'));
            }
            docs.push(spec);
        }
    }
    docs
}

fn run_neighbour_grid(rep: &mut Report) {
    let docs = neighbour_docs();
    let out = run_items(&docs, 16, |spec, stats| {
        let doc = doc_of(spec);
        let uri = "file:///w/neighbours.st";
        let run = lsp_run(&[lsp_initialize(0), lsp_initialized(), lsp_did_open(uri, 1, &doc.text), lsp_semantic_tokens(json!(7), uri), lsp_shutdown(8), lsp_exit()]);
        if run.timed_out {
            stats.inconclusive += 1;
            return Ok(());
        }
        stats.case(true, hash_str(&doc.text));
        stats.class("neighbour-grid");
        let fail = |kind: &str, detail: String| Failure::new("neighbours", kind, format!("{:?}: {}", doc.text.chars().take(60).collect::<String>(), detail), json!({"text": doc.text}));
        let resp = run.frames.iter().find(|f| f["id"] == 7 && f.get("method").is_none()).ok_or_else(|| fail("no-response", "no response to the semanticTokens request".into()))?;
        judge_unit(&doc, &legend_of(&run.frames), &resp["result"], Unit::Utf16).map(|_| ()).map_err(|(k, d)| fail(&k, d))
    });
    rep.add(out);
}

fn run_tight_grid(rep: &mut Report) {
    let docs = tight_docs();
    let out = run_items(&docs, 8, |spec, stats| {
        let doc = doc_of(spec);
        let uri = "file:///w/tight.st";
        let run = lsp_run(&[lsp_initialize(0), lsp_initialized(), lsp_did_open(uri, 1, &doc.text), lsp_semantic_tokens(json!(7), uri), lsp_shutdown(8), lsp_exit()]);
        if run.timed_out {
            stats.inconclusive += 1;
            return Ok(());
        }
        stats.case(true, hash_str(&doc.text));
        stats.class("tight-joint-grid");
        let fail = |kind: &str, detail: String| Failure::new("tight-joints", kind, format!("{:?}: {}", doc.text, detail), json!({"text": doc.text}));
        let resp = run.frames.iter().find(|f| f["id"] == 7 && f.get("method").is_none()).ok_or_else(|| fail("no-response", "no response to the semanticTokens request".into()))?;
        judge_unit(&doc, &legend_of(&run.frames), &resp["result"], Unit::Utf16).map(|_| ()).map_err(|(k, d)| fail(&k, d))
    });
    rep.add(out);
}

pub fn run(ctx: &Ctx) -> i32 {
    let clock = Clock::start();
    let mut rep = Report::new(
        "C15",
        ctx.tier,
        ctx.seed,
        "exploration",
        "documents printed by the harness from the C01 generator in wild spelling (comments before tokens on the same line, multi-line comments, CRLF, mixed case; a separately counted non-ASCII class), opened and replaced through a history of 1..4 full-text versions (didChange, or didClose + didOpen with the version restarted) (optionally with another document open), then semanticTokens/full. The response is decoded under the LSP relative encoding (legend read from the initialize response): strictly increasing, non-overlapping, every range equals exactly one lexeme of the harness' lexeme table for the CURRENT text in UTF-16 units (while KF-C15-02 is known, a non-ASCII document may instead be consistent in bytes - one unit for the whole response), legend entry compatible with the lexeme class, every identifier / comment / address / keyword / operator lexeme reported; 20 hand-written texts whose lexemes touch without blanks (an address before a period, operators after comments ...); a neighbour grid of 400 documents (every ordered pair of 80 representative lexemes, separated by a blank, a line break, a comment, a comment between blanks, or nothing where the two may touch: the class of a lexeme is a matter of its own text); a document with an unlexable character yields result null. Non-trivial: >= 3 lines with tokens and a comment followed by a token on the same line; distinct by document text.",
    );
    let gates = ctx.gates_for("C15");
    let off = gates.off_list();
    let cases = ctx.tier.pick(20_000, 300_000);
    let out = run_tapes("C15", ctx.seed, ctx.threads, cases, 900, |tape, stats, counting| {
        let g = Gates::with_off(off.clone());
        check_tape(tape, &g, stats, counting)
    });
    rep.add(out);
    run_tight_grid(&mut rep);
    run_neighbour_grid(&mut rep);
    rep.replay_witnesses(&ctx.findings, &|w| witness(w));
    rep.extra.insert("gates_off".into(), json!(off));
    rep.assumptions = vec![
        "words the lexer cannot tell from identifiers (T, ms, N, INTERVAL ...) may be reported as variable or keyword; the range delimiter '..' may be reported as keyword or not at all".into(),
        "form feed is not used as trivia".into(),
    ];
    rep.wall_s = clock.secs();
    rep.finish()
}

/// witness {"kind":"tokens","text":..} : an ASCII text made of plain lexemes; judged by re-lexing
/// it with a tiny independent scanner (identifiers / comments only) for completeness & ranges
pub fn witness(w: &Value) -> Result<(), String> {
    let text = w["text"].as_str().ok_or("no text")?;
    let uri = "file:///w/doc.st";
    let msgs = vec![lsp_initialize(0), lsp_initialized(), lsp_did_open(uri, 1, text), lsp_semantic_tokens(json!(7), uri), lsp_shutdown(8), lsp_exit()];
    let run = lsp_run(&msgs);
    let resp = run.frames.iter().find(|f| f["id"] == 7 && f.get("method").is_none()).ok_or("no response")?;
    let data: Vec<u64> = resp["result"]["data"].as_array().ok_or("no data")?.iter().map(|x| x.as_u64().unwrap_or(0)).collect();
    // expected (line, start, len) of the words listed in the witness, in order
    let want: Vec<(usize, usize, usize)> = w["expect"].as_array().ok_or("no expect")?.iter().map(|e| (e[0].as_u64().unwrap() as usize, e[1].as_u64().unwrap() as usize, e[2].as_u64().unwrap() as usize)).collect();
    let mut got = vec![];
    let (mut line, mut start) = (0usize, 0usize);
    for q in data.chunks(5) {
        if q[0] == 0 {
            start += q[1] as usize;
        } else {
            line += q[0] as usize;
            start = q[1] as usize;
        }
        got.push((line, start, q[2] as usize));
    }
    if got != want {
        return Err(format!("decoded (line, start, length) {:?}, expected {:?}", got, want));
    }
    Ok(())
}

pub fn replay(ctx: &Ctx, v: &Value) -> i32 {
    let r: Result<(), String> = if v["check"] == "witness" {
        witness(&v["inputs"])
    } else if v["check"] == "tight-joints" || v["check"] == "neighbours" {
        // a document of one of the two fixed grids, found again by its text
        let text = v["inputs"]["text"].as_str().unwrap_or("");
        let mut all = tight_docs();
        all.extend(neighbour_docs());
        match all.iter().map(|spec| doc_of(spec)).find(|d| d.text == text) {
            None => Err("the replay file names a document that is in neither grid".to_string()),
            Some(doc) => {
                let uri = "file:///w/grid.st";
                let run = lsp_run(&[lsp_initialize(0), lsp_initialized(), lsp_did_open(uri, 1, &doc.text), lsp_semantic_tokens(json!(7), uri), lsp_shutdown(8), lsp_exit()]);
                match run.frames.iter().find(|f| f["id"] == 7 && f.get("method").is_none()) {
                    None => Err("no response to the semanticTokens request".to_string()),
                    Some(resp) => judge_unit(&doc, &legend_of(&run.frames), &resp["result"], Unit::Utf16).map(|_| ()).map_err(|(k, d)| format!("{}: {}", k, d)),
                }
            }
        }
    } else {
        let tape: Vec<u8> = v["tape"].as_array().map(|a| a.iter().map(|x| x.as_u64().unwrap_or(0) as u8).collect()).unwrap_or_default();
        let gates = ctx.gates_for("C15");
        let mut s = Stats::default();
        check_tape(&tape, &gates, &mut s, false).map_err(|f| format!("{}: {}", f.kind, f.detail))
    };
    match r {
        Ok(()) => {
            println!("replay: property holds on this input");
            0
        }
        Err(e) => {
            println!("VIOLATION property=C15 replay={}", ctx.replay_path.clone().unwrap_or_default());
            eprintln!("{}", e);
            1
        }
    }
}

//! C02 – the check verdict agrees with the documented semantic rules, both directions.
//!
//! valid-by-construction unit  => analyze() is Ok (or answers only P9999: counted as trivial);
//! the same unit with exactly one planted fault (every rule's documented Fails shape, every
//! applicable site) => Err and the rule's published code is among the codes;
//! two planted faults => Err.

use crate::gates::Gates;
use crate::gen_valid::*;
use crate::lexeme::{layout, SpellOpts};
use crate::printer::Printer;
use crate::report::Report;
use crate::runner::*;
use crate::tape::Tape;
use crate::Ctx;
use ironplc_analyzer::stages::analyze;
use ironplc_dsl::common::Library;
use ironplc_dsl::core::FileId;
use ironplc_dsl::diagnostic::Diagnostic;
use ironplc_parser::options::ParseOptions;
use ironplc_parser::parse_program;
use serde_json::{json, Value};

pub fn spell_unit(u: &Unit, gates: &Gates) -> String {
    let mut p = Printer::new(gates, Tape::empty());
    p.library(&u.lib);
    let lex = p.finish();
    let (lay, _) = layout(&lex, &SpellOpts::canonical(), &mut Tape::empty());
    gates.take_hits();
    lay.text
}

/// the same unit with every identifier occurrence and keyword in a letter case of its own
/// (identifiers are case-insensitive: the rules see the same names)
pub fn spell_unit_cased(u: &Unit, gates: &Gates, key: u64) -> String {
    let mut p = Printer::new(gates, Tape::empty());
    p.library(&u.lib);
    let lex = p.finish();
    let mut o = SpellOpts::canonical();
    o.ident_case = true;
    o.kw_case = true;
    let bytes = crate::tape::derived(&key.to_le_bytes(), 4096);
    let (lay, _) = layout(&lex, &o, &mut Tape::new(&bytes));
    gates.take_hits();
    lay.text
}

pub enum Verdict {
    Ok,
    Err(Vec<Diagnostic>),
    ParseErr(String),
    Panic(String),
}

pub fn analyze_text(text: &str, name: &str) -> (Verdict, Option<Library>) {
    let fid = FileId::from_string(name);
    let lib = match crate::panicx::catch(|| parse_program(text, &fid, &ParseOptions::default())) {
        Ok(Ok(l)) => l,
        Ok(Err(d)) => return (Verdict::ParseErr(format!("{} {} at {}", d.code, d.primary.message.chars().take(200).collect::<String>(), d.primary.location.start)), None),
        Err((loc, msg)) => return (Verdict::Panic(format!("parse: {} {}", loc, msg)), None),
    };
    let v = match crate::panicx::catch(|| analyze(&[&lib])) {
        Ok(Ok(())) => Verdict::Ok,
        Ok(Err(ds)) => Verdict::Err(ds),
        Err((loc, msg)) => Verdict::Panic(format!("analyze: {} {}", loc, msg)),
    };
    (v, Some(lib))
}

pub fn codes_of(ds: &[Diagnostic]) -> Vec<String> {
    let mut v: Vec<String> = ds.iter().map(|d| d.code.clone()).collect();
    v.sort();
    v
}

pub const RULE_CODES: &[&str] = &[
    "P0003", "P0004", "P0005", "P0006", "P0007", "P0008", "P0009", "P0010", "P0011", "P0012", "P0013", "P0014", "P0015", "P0016", "P0017", "P0018",
    "P0019", "P0020", "P0021", "P0022", "P0029",
];

/// check a valid unit: Ok(true)= analysed Ok, Ok(false)= trivial (P9999 only / generator health)
pub fn check_valid(text: &str, expected: &Library) -> Result<Result<bool, String>, (String, String)> {
    let (v, lib) = analyze_text(text, "c02.st");
    match v {
        Verdict::ParseErr(e) => return Ok(Err(format!("generator health: valid unit does not parse: {}", e))),
        Verdict::Panic(e) => return Err(("panic".into(), e)),
        _ => {}
    }
    if let Some(l) = &lib {
        if l != expected {
            return Ok(Err("generator health: valid unit parses to a different library (C01 domain)".into()));
        }
    }
    match v {
        Verdict::Ok => Ok(Ok(true)),
        Verdict::Err(ds) => {
            let codes = codes_of(&ds);
            if codes.iter().all(|c| c == "P9999") {
                let where_ = ds.iter().map(|d| d.primary.message.clone()).collect::<Vec<_>>().join("; ");
                Ok(Err(format!("P9999 only: {}", where_)))
            } else {
                let rule: Vec<&String> = codes.iter().filter(|c| RULE_CODES.contains(&c.as_str())).collect();
                Err((
                    "valid-rejected".into(),
                    format!(
                        "a unit that satisfies every documented rule is rejected with {:?}: {}",
                        rule,
                        ds.iter().map(|d| format!("{} {} [{}..{}] {:?}", d.code, d.primary.message, d.primary.location.start, d.primary.location.end, d.described)).collect::<Vec<_>>().join("; ")
                    ),
                ))
            }
        }
        _ => unreachable!(),
    }
}

pub fn check_faulty(text: &str, planted: &[Planted]) -> Result<Vec<String>, (String, String)> {
    let (v, _) = analyze_text(text, "c02.st");
    let what = planted.iter().map(|p| format!("{:?}@{}#{}", p.kind, p.site_class, p.site)).collect::<Vec<_>>().join(" + ");
    match v {
        Verdict::ParseErr(e) => Err(("generator-health".into(), format!("faulty unit does not parse ({}): {}", what, e))),
        Verdict::Panic(e) => Err(("panic".into(), e)),
        Verdict::Ok => Err(("fault-accepted".into(), format!("analysis succeeds although a rule is violated: {}", what))),
        Verdict::Err(ds) => {
            let codes = codes_of(&ds);
            if planted.len() == 1 {
                let want = planted[0].kind.code();
                // an unknown name assigned to an enumeration variable is either an undeclared
                // variable or an undefined enumeration value: both codes say so
                let alt = if planted[0].site_class.ends_with(".assigned-to-enum-variable") {
                    "P0014"
                } else if planted[0].site_class.ends_with(".inserted-enum-typed-variable") {
                    // `m : T := V` with T undeclared: "enumeration not declared" or "unknown type"
                    "P0012"
                } else {
                    want
                };
                if !codes.iter().any(|c| c == want || c == alt) {
                    return Err(("wrong-code".into(), format!("single fault {} must be reported with {}, got {:?}", what, want, codes)));
                }
            }
            Ok(codes)
        }
    }
}

/// second observation point of the property: `ironplcc check` exit status and error[Pnnnn] lines
fn cli_agrees(text: &str, stats: &mut Stats) -> Result<(), (String, String)> {
    let (v, _) = analyze_text(text, "c02.st");
    let want: Vec<String> = match &v {
        Verdict::Ok => vec![],
        Verdict::Err(ds) => codes_of(ds),
        Verdict::ParseErr(_) => vec!["P0002".into()],
        Verdict::Panic(_) => return Ok(()),
    };
    let dir = crate::drive::Scratch::new("c02");
    let p = dir.write("c02.st", text.as_bytes()).to_string_lossy().to_string();
    let out = crate::drive::run_cli(&["check".to_string(), p], None);
    if out.timed_out {
        stats.inconclusive += 1;
        return Ok(());
    }
    stats.class("cli.check-run");
    let mut got: Vec<String> = crate::drive::parse_cli_diags(&out.stderr).into_iter().map(|d| d.code).collect();
    got.sort();
    if (out.status == Some(0)) != want.is_empty() {
        return Err(("cli-verdict-differs".into(), format!("`ironplcc check` exits {:?}; in-process analysis gives codes {:?}", out.status, want)));
    }
    if got != want {
        return Err(("cli-codes-differ".into(), format!("`ironplcc check` prints codes {:?}; in-process analysis gives {:?}", got, want)));
    }
    Ok(())
}

fn check_tape(tape: &[u8], gates: &Gates, stats: &mut Stats, counting: bool, per_kind: usize, all_sites_limit: usize, cli_budget: &std::sync::atomic::AtomicI64) -> Result<(), Failure> {
    let mut profile = Profile::default();
    // a quarter of the units also compare enumeration variables with their values
    profile.enum_compare = crate::tape::fnv(tape) % 2 == 0;
    let mut t = Tape::new(tape);
    let unit = gen_unit(&mut t, gates, &profile);
    let derived = crate::tape::derived(tape, 256);
    let mut choice = Tape::new(&derived);
    // a third of the units (and their mutants) are written with random letter case per occurrence
    let key = crate::tape::fnv(tape);
    let cased = key % 3 == 1;
    let spell_unit = |u: &Unit, g: &Gates| if cased { spell_unit_cased(u, g, key) } else { spell_unit(u, g) };
    if counting && cased {
        stats.class("spelling.random-letter-case");
    }
    let text = spell_unit(&unit, gates);
    let h = hash_str(&text);
    let valid_outcome = check_valid(&text, &unit.lib);
    // a unit that contains a known false rejection is not judged itself; its mutants are
    let valid_outcome = if unit.tainted {
        match valid_outcome {
            Ok(Err(why)) if why.starts_with("P0015") || why.contains("P0015") => {
                if counting {
                    stats.class("valid.tainted-known-false-rejection");
                }
                Ok(Ok(true))
            }
            Err((kind, detail)) if kind == "valid-rejected" && detail.contains("P0015") => {
                if counting {
                    stats.class("valid.tainted-known-false-rejection");
                }
                Ok(Ok(true))
            }
            other => other,
        }
    } else {
        valid_outcome
    };
    match valid_outcome {
        Ok(Ok(_)) => {
            if counting {
                let nt = unit.lib.elements.len() >= 2;
                stats.case(nt, h);
                stats.class("valid.analysed-ok");
                let tx = text.clone();
                stats.sample(2, || json!({"valid": tx}));
            }
        }
        Ok(Err(why)) => {
            if counting {
                stats.case(false, h);
                if why.starts_with("P9999") {
                    stats.class("valid.trivial-p9999");
                    if stats.notes.len() < 5 {
                        stats.notes.push(why);
                    }
                } else {
                    stats.class("generator-health-failure");
                    if stats.notes.len() < 5 {
                        stats.notes.push(format!("{} :: {}", why, text.chars().take(400).collect::<String>()));
                    }
                }
            }
            gates.take_wanted();
            return Ok(());
        }
        Err((kind, detail)) => {
            return Err(Failure::new("valid-unit", &kind, detail, json!({"text": text})));
        }
    }
    // single faults
    let total_sites: usize = unit.sites.iter().sum();
    for kind in ALL_FAULTS.iter() {
        let n = unit.sites[kind.index()];
        if n == 0 {
            continue;
        }
        let picks: Vec<usize> = if total_sites <= all_sites_limit {
            (0..n).collect()
        } else {
            let mut v: Vec<usize> = (0..per_kind.min(n)).map(|_| choice.below(n)).collect();
            v.sort();
            v.dedup();
            v
        };
        for k in picks {
            let mut t2 = Tape::new(tape);
            let fu = gen_unit_with(&mut t2, gates, &profile, Some((*kind, k)));
            let planted = match &fu.planted {
                Some(p) => p.clone(),
                None => {
                    if counting {
                        stats.class("generator-health-failure");
                        stats.notes.push(format!("site {:?}#{} not planted", kind, k));
                    }
                    continue;
                }
            };
            let ftext = spell_unit(&fu, gates);
            if counting {
                stats.case(true, hash_str(&ftext));
                stats.class(&format!("fault.{}.{}", kind.code(), planted.site_class));
                if *kind == FaultKind::UndeclaredVar || *kind == FaultKind::CallMixed {
                    let tx = ftext.clone();
                    stats.sample(5, || json!({"fault": format!("{:?}", kind), "site_class": planted.site_class, "text": tx}));
                }
            }
            check_faulty(&ftext, &[planted.clone()]).map_err(|(k2, d)| {
                Failure::new("single-fault", &k2, d, json!({"text": ftext, "fault": format!("{:?}", kind), "site": k, "expected_code": kind.code(), "marker": planted.marker}))
            })?;
        }
    }
    // the binary (sample): the valid unit and one mutant
    if counting && cli_budget.fetch_sub(1, std::sync::atomic::Ordering::Relaxed) > 0 {
        cli_agrees(&text, stats).map_err(|(k, d)| Failure::new("cli", &k, d, json!({"text": text})))?;
        let ks: Vec<&FaultKind> = ALL_FAULTS.iter().filter(|k| unit.sites[k.index()] > 0).collect();
        if !ks.is_empty() {
            let k = *ks[choice.below(ks.len())];
            let s = choice.below(unit.sites[k.index()]);
            let mut t2 = Tape::new(tape);
            let fu = gen_unit_with(&mut t2, gates, &profile, Some((k, s)));
            let ftext = spell_unit(&fu, gates);
            cli_agrees(&ftext, stats).map_err(|(k2, d)| Failure::new("cli", &k2, d, json!({"text": ftext})))?;
        }
    }
    // one double fault
    let kinds: Vec<&FaultKind> = ALL_FAULTS.iter().filter(|k| unit.sites[k.index()] > 0).collect();
    if kinds.len() >= 2 {
        let a = *kinds[choice.below(kinds.len())];
        let b = *kinds[choice.below(kinds.len())];
        let ka = choice.below(unit.sites[a.index()]);
        let kb = choice.below(unit.sites[b.index()]);
        if (a, ka) != (b, kb) {
            let mut t2 = Tape::new(tape);
            let fu = gen_unit_multi(&mut t2, gates, &profile, vec![(a, ka), (b, kb)]);
            if fu.planted_all.len() == 2 {
                let ftext = spell_unit(&fu, gates);
                if counting {
                    stats.case(true, hash_str(&ftext));
                    stats.class("fault.double");
                }
                check_faulty(&ftext, &fu.planted_all)
                    .map_err(|(k2, d)| Failure::new("double-fault", &k2, d, json!({"text": ftext, "faults": format!("{:?}#{} + {:?}#{}", a, ka, b, kb)})))?;
            }
        }
    }
    if counting {
        stats.absorb_gates(gates);
    } else {
        gates.take_wanted();
    }
    Ok(())
}

pub fn run(ctx: &Ctx) -> i32 {
    let clock = Clock::start();
    let mut rep = Report::new(
        "C02",
        ctx.tier,
        ctx.seed,
        "fault_enumeration",
        "valid-by-construction units (types, functions, function blocks incl. SFC bodies, programs, configuration; every name declared, P9999 constructs avoided) must analyse Ok; each unit is re-generated with exactly one planted fault (16 rule kinds = documented Fails shapes; every applicable site for small units, a sample per kind for large ones) and must fail with the rule's published code among its codes; one random double fault per unit must fail; for a sample the exit status and error[Pnnnn] codes of `ironplcc check` must equal the in-process verdict and codes. Non-trivial: every mutant, and valid units with >= 2 declarations that analysed Ok; distinct by text hash.",
    );
    let gates = ctx.gates_for("C02");
    let off = gates.off_list();
    let cases = ctx.tier.pick(60_000, 1_000_000);
    let (per_kind, all_limit) = ctx.tier.pick((2, 40), (4, 120));
    let cli_budget = std::sync::atomic::AtomicI64::new(ctx.tier.pick(300, 6000));
    let out = run_tapes("C02", ctx.seed, ctx.threads, cases, 900, |tape, stats, counting| {
        let g = Gates::with_off(off.clone());
        check_tape(tape, &g, stats, counting, per_kind, all_limit, &cli_budget)
    });
    rep.add(out);
    // health: every fault kind must have been exercised, generator health failures must be rare
    for k in ALL_FAULTS.iter() {
        let n: u64 = rep.stats.classes.iter().filter(|(c, _)| c.starts_with(&format!("fault.{}.", k.code()))).map(|(_, v)| *v).sum();
        if n == 0 && rep.failures.is_empty() {
            rep.infra_errors.push(format!("no mutant of kind {:?} was generated", k));
        }
    }
    let bad = *rep.stats.classes.get("generator-health-failure").unwrap_or(&0);
    if bad * 50 > rep.stats.evaluations.max(1) {
        rep.infra_errors.push(format!("{} generator health failures in {} evaluations: {:?}", bad, rep.stats.evaluations, rep.stats.notes));
    }
    crate::fuzzrun::tape_campaign(ctx, &mut rep, "C02", &gates);
    rep.replay_witnesses(&ctx.findings, &|w| witness(w));
    rep.extra.insert("gates_off".into(), json!(off));
    rep.assumptions = vec![
        "P9999 ('capability not implemented') is outside the property; units that only draw P9999 are counted as trivial".into(),
        "min = max subranges are not generated as valid (the rule text says strictly less)".into(),
    ];
    rep.wall_s = clock.secs();
    rep.finish()
}

/// witness kinds: {"kind":"valid","text":..} must analyse Ok; {"kind":"faulty","text":..,"code":..} must fail with code
pub fn witness(w: &Value) -> Result<(), String> {
    let text = w["text"].as_str().ok_or("witness without text")?;
    let (v, _) = analyze_text(text, "witness.st");
    match w["kind"].as_str().unwrap_or("") {
        "valid" => match v {
            Verdict::Ok => Ok(()),
            Verdict::Err(ds) => Err(format!("rejected with {:?}", codes_of(&ds))),
            Verdict::ParseErr(e) => Err(format!("does not parse: {}", e)),
            Verdict::Panic(e) => Err(format!("panic: {}", e)),
        },
        "faulty" => match v {
            Verdict::Err(ds) => {
                let want = w["code"].as_str().unwrap_or("");
                if codes_of(&ds).iter().any(|c| c == want) {
                    Ok(())
                } else {
                    Err(format!("codes {:?} lack {}", codes_of(&ds), want))
                }
            }
            Verdict::Ok => Err("accepted".into()),
            Verdict::ParseErr(e) => Err(format!("does not parse: {}", e)),
            Verdict::Panic(e) => Err(format!("panic: {}", e)),
        },
        k => Err(format!("unknown witness kind {}", k)),
    }
}

pub fn replay(ctx: &Ctx, v: &Value) -> i32 {
    let text = v["inputs"]["text"].as_str().unwrap_or("");
    let r: Result<(), String> = match v["check"].as_str().unwrap_or("") {
        "valid-unit" => witness(&json!({"kind": "valid", "text": text})),
        "single-fault" => witness(&json!({"kind": "faulty", "text": text, "code": v["inputs"]["expected_code"]})),
        "double-fault" => match analyze_text(text, "replay.st").0 {
            Verdict::Err(_) => Ok(()),
            _ => Err("double fault accepted".into()),
        },
        "witness" => witness(&v["inputs"]),
        "cli" => {
            let mut st = Stats::default();
            cli_agrees(text, &mut st).map_err(|(k, d)| format!("{}: {}", k, d))
        }
        c => Err(format!("unknown check {}", c)),
    };
    match r {
        Ok(()) => {
            println!("replay: property holds on this input");
            0
        }
        Err(e) => {
            println!("VIOLATION property=C02 replay={}", ctx.replay_path.clone().unwrap_or_default());
            eprintln!("{}", e);
            1
        }
    }
}

/// one tape through the in-process oracle (used by the coverage-guided `tapes` fuzz target)
pub fn fuzz_one(tape: &[u8], gates: &Gates) -> Result<(), Failure> {
    let mut s = Stats::default();
    let zero = std::sync::atomic::AtomicI64::new(0);
    check_tape(tape, gates, &mut s, false, 2, 40, &zero)
}

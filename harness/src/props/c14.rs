//! C14 – file encoding is transparent: the result depends only on the decoded text.
//!
//! (1) generated programs (valid and single-fault) with non-ASCII characters in comments and
//!     string literals written in five encodings (UTF-8, UTF-8 + BOM, UTF-16LE + BOM,
//!     UTF-16BE + BOM, Windows-1252), LF and CRLF: same exit status, same (code, line, column)
//!     from `check`, same `tokenize` listing;
//! (2) exhaustive: every byte 0x00..0xFF inserted in a comment, in a string literal, between two
//!     tokens and inside an identifier of a fixed valid program: exit status 0/1, every reported
//!     position inside the decoded text;
//! (3) random binary files.

use crate::drive::*;
use crate::gates::Gates;
use crate::gen_valid::*;
use crate::props::c02::spell_unit;
use crate::report::Report;
use crate::runner::*;
use crate::tape::Tape;
use crate::Ctx;
use serde_json::{json, Value};

const REPERTOIRE_1252: &[char] = &['é', 'ü', 'ß', 'Ä', 'Ö', 'ñ', '€', '©', 'µ', 'ç', 'å', '£', 'ø', '½'];

/// documented decoding cascade: UTF-8 (with BOM sniffing, which also recognises UTF-16 BOMs), else Windows-1252
pub fn decode_like_cli(bytes: &[u8]) -> Option<String> {
    for enc in [encoding_rs::UTF_8, encoding_rs::WINDOWS_1252] {
        let (res, _, had_errors) = enc.decode(bytes);
        if !had_errors {
            return Some(res.to_string());
        }
    }
    None
}

fn encode(text: &str, which: usize) -> Option<Vec<u8>> {
    Some(match which {
        0 => text.as_bytes().to_vec(),
        1 => {
            let mut v = vec![0xEF, 0xBB, 0xBF];
            v.extend(text.as_bytes());
            v
        }
        2 => {
            let mut v = vec![0xFF, 0xFE];
            for u in text.encode_utf16() {
                v.extend(u.to_le_bytes());
            }
            v
        }
        3 => {
            let mut v = vec![0xFE, 0xFF];
            for u in text.encode_utf16() {
                v.extend(u.to_be_bytes());
            }
            v
        }
        _ => {
            let (b, _, unmappable) = encoding_rs::WINDOWS_1252.encode(text);
            if unmappable {
                return None;
            }
            let b = b.to_vec();
            // a 1252 byte sequence that happens to be valid UTF-8 would be read as UTF-8: not this variant
            if !text.is_ascii() && std::str::from_utf8(&b).is_ok() {
                return None;
            }
            b
        }
    })
}

const ENC_NAMES: [&str; 5] = ["utf-8", "utf-8+bom", "utf-16le+bom", "utf-16be+bom", "windows-1252"];

fn decorate(text: &str, t: &mut Tape) -> String {
    // non-ASCII characters in comments and string literals.  In a quarter of the texts every one
    // of them stands inside a word (a letter follows it): byte pairs "high byte + letter" are what
    // double-byte encodings are made of, and such a file holds no byte that rules them out
    let mut out = String::new();
    let in_words = t.ratio(1, 4);
    for line in text.lines() {
        if in_words {
            if t.ratio(1, 3) {
                let c1 = *t.pick(REPERTOIRE_1252);
                let c2 = *t.pick(REPERTOIRE_1252);
                out.push_str(&format!("(* Gr{}sse f{}r Z{}hler *) ", c1, c2, c1));
            }
            let mut l = line.to_string();
            if l.contains("'text'") && t.flag() {
                let c = *t.pick(REPERTOIRE_1252);
                l = l.replace("'text'", &format!("'t{}xt'", c));
            }
            out.push_str(&l);
            out.push('\n');
            continue;
        }
        if t.ratio(1, 4) {
            let c1 = *t.pick(REPERTOIRE_1252);
            let c2 = *t.pick(REPERTOIRE_1252);
            out.push_str(&format!("(* {}{} note *) ", c1, c2));
        }
        let mut l = line.to_string();
        if l.contains("'text'") && t.flag() {
            let c = *t.pick(REPERTOIRE_1252);
            l = l.replace("'text'", &format!("'t{}xt'", c));
        }
        out.push_str(&l);
        if t.ratio(1, 5) {
            let c = *t.pick(REPERTOIRE_1252);
            out.push_str(&format!(" (* {} *)", c));
        }
        out.push('\n');
    }
    out
}

struct Obs {
    status: Option<i32>,
    diags: Vec<(String, usize, usize)>,
    tokens: String,
    tok_status: Option<i32>,
}

fn observe(bytes: &[u8]) -> Option<Obs> {
    let dir = Scratch::new("c14");
    let p = dir.write("in.st", bytes).to_string_lossy().to_string();
    let c = run_cli(&["check".to_string(), p.clone()], None);
    let tk = run_cli(&["tokenize".to_string(), p], None);
    if c.timed_out || tk.timed_out {
        return None;
    }
    let mut diags: Vec<(String, usize, usize)> = parse_cli_diags(&c.stderr).into_iter().map(|d| (d.code, d.line, d.col)).collect();
    diags.sort();
    Some(Obs { status: c.status, diags, tokens: tk.stdout, tok_status: tk.status })
}

fn check_tape(tape: &[u8], gates: &Gates, stats: &mut Stats, counting: bool) -> Result<(), Failure> {
    let mut t = Tape::new(tape);
    let mut p = Profile::default();
    p.max_stmts = 4;
    p.max_types = 2;
    p.max_fbs = 2;
    let unit = gen_unit(&mut t, gates, &p);
    let derived = crate::tape::derived(tape, 256);
    let mut choice = Tape::new(&derived);
    let kinds: Vec<FaultKind> = ALL_FAULTS.iter().copied().filter(|k| unit.sites[k.index()] > 0).collect();
    let faulty = !kinds.is_empty() && choice.flag();
    let uniform = if faulty && choice.flag() {
        // a fault kind chosen uniformly over all rules (see gen_valid::unit_with_fault_of)
        let kd = ALL_FAULTS[choice.below(ALL_FAULTS.len())];
        let mut big = Profile::default();
        big.max_progs = 1;
        big.sfc = false;
        unit_with_fault_of(kd, tape, gates, &big).map(|fu| spell_unit(&fu, gates))
    } else {
        None
    };
    let base = if let Some(u) = uniform {
        u
    } else if faulty {
        let kd = kinds[choice.below(kinds.len())];
        let s = choice.below(unit.sites[kd.index()]);
        let mut t2 = Tape::new(tape);
        spell_unit(&gen_unit_with(&mut t2, gates, &p, Some((kd, s))), gates)
    } else {
        spell_unit(&unit, gates)
    };
    gates.take_hits();
    let mut text = decorate(&base, &mut choice);
    let crlf = choice.ratio(1, 3);
    if crlf {
        text = text.replace('\n', "\r\n");
    }
    // characters that old tools and byte-level shortcuts treat specially (end-of-file marker, NUL,
    // DEL, no-break space, a BOM that is not at the start, form feed, line separators) at the very
    // end, at the very start or in the middle of the text
    const SPECIAL: &[char] = &['\u{1a}', '\u{0}', '\u{7f}', '\u{a0}', '\u{feff}', '\u{c}', '\u{b}', '\u{2028}', '\u{201a}', '\u{1b}', '\u{fffd}', '\u{fffe}', '\u{ffff}', '\u{d7ff}', '\u{e000}', '\u{10ffff}', '\u{1f600}', '\u{85}', '\u{81}'];
    if choice.ratio(1, 4) {
        let c = *choice.pick(SPECIAL);
        match choice.below(4) {
            0 => text.push(c),
            1 => {
                // last character of the file, no final line break
                while text.ends_with('\n') || text.ends_with('\r') {
                    text.pop();
                }
                text.push(c);
            }
            // (a text that STARTS with U+FEFF cannot be told from a byte-order mark: not written)
            2 => text.insert(0, if c == '\u{feff}' { '\u{a0}' } else { c }),
            _ => {
                let at = text.char_indices().map(|(i, _)| i).nth(choice.below(text.chars().count().max(1))).unwrap_or(0);
                text.insert(at, if at == 0 && c == '\u{feff}' { '\u{a0}' } else { c });
            }
        }
    }
    // a text whose ONLY non-ASCII characters are its last one or two, with no line break behind
    // them: stored as Windows-1252 these bytes are the beginning of a UTF-8 sequence that never
    // ends (a decoder that is not told "this was all" keeps waiting instead of giving up)
    if choice.ratio(1, 10) {
        let tail = *choice.pick(&["\u{e9}", "\u{f0}\u{178}", "\u{e2}\u{201a}", "\u{c3}", "\u{f4}", "\u{e0}\u{a0}", "(* Zo\u{eb}"]);
        let mut plain = base.clone();
        if crlf {
            plain = plain.replace('\n', "\r\n");
        }
        while plain.ends_with('\n') || plain.ends_with('\r') {
            plain.pop();
        }
        text = format!("{}{}{}", plain, if choice.flag() { "\n" } else { " " }, tail);
        if counting {
            stats.class("text.ascii-with-unfinished-utf8-sequence-at-the-end");
        }
    }
    // byte sequences that look like a byte-order mark, as the FIRST non-ASCII text of the file
    // but not at its start (U+FEFF itself; the Windows-1252 characters whose bytes are FE FF,
    // FF FE or EF BB BF): a mark counts only at offset 0
    if choice.ratio(1, 8) {
        let x = *choice.pick(&["\u{feff}", "\u{fe}\u{ff}", "\u{ff}\u{fe}", "\u{ef}\u{bb}\u{bf}", "\u{fffe}", "\u{ff}", "\u{fe}"]);
        let lead = if crlf { "\r\n" } else { "\n" };
        text = match choice.below(3) {
            0 => format!("(* {} *){}{}", x, lead, text),
            1 => format!("(*{}*) {}", x, text),
            _ => format!("{}(* a{}b *) {}", lead, x, text),
        };
        if counting {
            stats.class("text.bom-like-sequence-first-non-ascii");
        }
    }
    // a first line that looks like an editor's encoding declaration (Emacs, Vim, Python, XML style):
    // it is a comment - the encoding of a file is what its bytes are, whatever a comment says
    if choice.ratio(1, 10) {
        let label = *choice.pick(&["latin1", "windows-1250", "iso-8859-15", "utf-16le", "UTF-16BE", "utf-8", "cp437", "gb18030", "shift_jis", "windows-1252", "ascii"]);
        let head = match choice.below(5) {
            0 => format!("(* -*- coding: {} -*- *)", label),
            1 => format!("(* coding: {} *)", label),
            2 => format!("(* vim: set fileencoding={} : *)", label),
            3 => format!("(* Encoding: {} *)", label),
            _ => format!("(* <?xml version=\"1.0\" encoding=\"{}\"?> charset={} *)", label, label),
        };
        text = format!("{}{}{}", head, if crlf { "\r\n" } else { "\n" }, text);
        if counting {
            stats.class("text.first-line-encoding-declaration");
        }
    }
    // Windows-1252 characters whose bytes happen to be a well-formed UTF-8 sequence ("Ã©" = C3 A9,
    // "â‚¬" = E2 82 AC, "Ø±" = D8 B1 ...) in front of the code of some lines, and one lone high byte
    // at the very end: the file as a whole is not UTF-8, so every byte of it is Windows-1252 - also
    // the runs a UTF-8 decoder would have been happy with (a decoder that hands over in mid-file
    // reads them as one character and every column behind them moves)
    if choice.ratio(1, 8) {
        let run = *choice.pick(&["\u{c3}\u{a9}", "\u{e2}\u{201a}\u{ac}", "\u{c2}\u{b0}", "\u{d8}\u{b1}", "\u{c3}\u{bc}\u{c3}\u{178}", "\u{f0}\u{178}\u{2dc}\u{20ac}", "\u{c3}\u{a9}\u{c3}\u{a9}\u{c3}\u{a9}"]);
        let nl = if crlf { "\r\n" } else { "\n" };
        let mut out = String::new();
        for l in text.lines() {
            if choice.ratio(1, 2) {
                out.push_str(&format!("(* {} *) ", run));
            }
            out.push_str(l);
            out.push_str(nl);
        }
        out.push_str("(* \u{e9} *)");
        out.push_str(nl);
        text = out;
        if counting {
            stats.class("text.utf8-looking-runs-before-the-first-lone-high-byte");
        }
    }
    // a file larger than any read / decode block (4 KiB ... 64 KiB and beyond), with two-byte
    // characters so dense that every block boundary of the UTF-8 form has an even chance to fall
    // inside one; a few ASCII bytes in front shift the phase
    if choice.ratio(1, 12) && gates.want("FILE_LARGER_THAN_A_BLOCK") {
        // (now and then far larger: a size limit, a buffer or a counter that is measured in stored
        // bytes treats the encodings of one text differently - the sizes straddle 256 KiB, 512 KiB,
        // 1 MiB and 2 MiB in one encoding but not in another)
        let kib = if choice.ratio(1, 4) { *choice.pick(&[140usize, 270, 530, 700, 1050, 1400, 2100]) } else { *choice.pick(&[5usize, 9, 17, 33, 66, 70, 130, 200]) };
        let mut filler = "x".repeat(choice.below(4));
        filler.insert_str(0, "(* ");
        filler.push_str(" *)\n");
        let c = *choice.pick(REPERTOIRE_1252);
        // dense two-byte characters, or plain ASCII (one byte in UTF-8 and Windows-1252, two in UTF-16)
        let line = if choice.flag() { format!("(* {} *)\n", c.to_string().repeat(30 + choice.below(9))) } else { format!("(* {} {} *)\n", "filler text 0123456789".repeat(1 + choice.below(3)), c) };
        // (the size is counted in characters)
        let per_line = line.chars().count();
        let lines = (kib * 1024) / per_line + 1;
        filler.push_str(&line.repeat(lines));
        if crlf {
            filler = filler.replace('\n', "\r\n");
        }
        text = if choice.flag() { format!("{}{}", filler, text) } else { format!("{}{}", text, filler) };
        if counting {
            stats.class("text.larger-than-a-block");
        }
    }
    let mut reference: Option<(usize, Obs)> = None;
    let mut skipped_1252 = false;
    for which in 0..5 {
        let bytes = match encode(&text, which) {
            Some(b) => b,
            None => {
                skipped_1252 = true;
                continue;
            }
        };
        let o = match observe(&bytes) {
            Some(o) => o,
            None => {
                stats.inconclusive += 1;
                continue;
            }
        };
        if counting {
            stats.case(!text.is_ascii(), hash_str(&format!("{}{}", which, text)));
            stats.class(&format!("encoding.{}", ENC_NAMES[which]));
        }
        let inputs = json!({"text": text, "encoding": ENC_NAMES[which], "faulty": faulty});
        match o.status {
            Some(c) if c != 101 => {} // any exit status but the panic status; death by signal is None
            other => return Err(Failure::new("encodings", "abnormal-exit", format!("`check` of the {} file exits {:?}", ENC_NAMES[which], other), inputs)),
        }
        match o.tok_status {
            Some(c) if c != 101 => {}
            other => return Err(Failure::new("encodings", "abnormal-exit", format!("`tokenize` of the {} file exits {:?}", ENC_NAMES[which], other), inputs)),
        }
        if let Some((rw, r)) = &reference {
            if (r.status == Some(0)) != (o.status == Some(0)) {
                return Err(Failure::new("encodings", "verdict-differs", format!("exit status {:?} as {} but {:?} as {}", r.status, ENC_NAMES[*rw], o.status, ENC_NAMES[which]), inputs));
            }
            if r.diags != o.diags {
                return Err(Failure::new("encodings", "positions-differ", format!("(code, line, column) {:?} as {} but {:?} as {}", r.diags, ENC_NAMES[*rw], o.diags, ENC_NAMES[which]), inputs));
            }
            if r.tokens != o.tokens || (r.tok_status == Some(0)) != (o.tok_status == Some(0)) {
                return Err(Failure::new("encodings", "tokens-differ", format!("`tokenize` listing differs between {} and {}", ENC_NAMES[*rw], ENC_NAMES[which]), inputs));
            }
        } else {
            reference = Some((which, o));
        }
    }
    // the file reached through a directory argument: same observations as the file named directly
    if let Some((_, r)) = &reference {
        if choice.ratio(1, 3) {
            let which = choice.below(5);
            if let Some(b) = encode(&text, which) {
                let dir = Scratch::new("c14dir");
                let sub = dir.path.join("only");
                std::fs::create_dir_all(&sub).unwrap();
                std::fs::write(sub.join(*choice.pick(&["in.st", "IN.ST", "source", "in.txt"])), &b).unwrap();
                let c = run_cli(&["check".to_string(), sub.to_string_lossy().to_string()], None);
                if !c.timed_out {
                    if counting {
                        stats.class(&format!("directory.{}", ENC_NAMES[which]));
                    }
                    let mut diags: Vec<(String, usize, usize)> = parse_cli_diags(&c.stderr).into_iter().map(|d| (d.code, d.line, d.col)).collect();
                    diags.sort();
                    let inputs = json!({"text": text, "encoding": ENC_NAMES[which], "given_as": "directory"});
                    if (c.status == Some(0)) != (r.status == Some(0)) || diags != r.diags {
                        return Err(Failure::new(
                            "encodings-directory",
                            "verdict-differs",
                            format!("the file named directly: exit {:?} {:?}; the directory that holds only this file (stored as {}): exit {:?} {:?}", r.status, r.diags, ENC_NAMES[which], c.status, diags),
                            inputs,
                        ));
                    }
                }
            }
        }
    }
    // the same file inside a set: a valid companion in ANOTHER encoding is read by the same process
    // (before or after it); the observations for the file must not change
    if let Some((_, r)) = &reference {
        if choice.ratio(1, 3) {
            let comp_text = "PROGRAM comp_zz9\nVAR\ncomp_v : INT; (* caf\u{e9} \u{20ac} *)\nEND_VAR\ncomp_v := 1;\nEND_PROGRAM\n";
            let comp_enc = *choice.pick(&[4usize, 4, 2, 1, 0]);
            let main_enc = choice.below(5);
            if let (Some(cb), Some(mb)) = (encode(comp_text, comp_enc), encode(&text, main_enc)) {
                let dir = Scratch::new("c14set");
                // the companion's name sorts before or after the file's
                let (cn, mn) = if choice.flag() { ("a_comp.st", "m_main.st") } else { ("z_comp.st", "m_main.st") };
                let cp = dir.write(cn, &cb).to_string_lossy().to_string();
                let mp = dir.write(mn, &mb).to_string_lossy().to_string();
                let args = if choice.flag() { vec!["check".to_string(), cp.clone(), mp.clone()] } else { vec!["check".to_string(), mp.clone(), cp.clone()] };
                let c = run_cli(&args, None);
                if !c.timed_out {
                    if counting {
                        stats.class(&format!("set.companion-{}.file-{}", ENC_NAMES[comp_enc], ENC_NAMES[main_enc]));
                    }
                    let inputs = json!({"text": text, "encoding": ENC_NAMES[main_enc], "companion_encoding": ENC_NAMES[comp_enc], "companion": comp_text, "args": args[1..].iter().map(|a| a.rsplit('/').next().unwrap_or("").to_string()).collect::<Vec<_>>()});
                    let mut diags: Vec<(String, usize, usize)> =
                        parse_cli_diags(&c.stderr).into_iter().filter(|d| d.file.as_deref().map(|f| f.ends_with(mn)).unwrap_or(true)).map(|d| (d.code, d.line, d.col)).collect();
                    diags.sort();
                    // diagnostics without a position of their own (P9999, P0030) are attributed to an
                    // arbitrary file of the set: compared by presence only
                    let positioned = |v: &Vec<(String, usize, usize)>| -> Vec<(String, usize, usize)> { v.iter().filter(|d| d.0 != "P9999" && d.0 != "P0030").cloned().collect() };
                    let (diags, rdiags) = (positioned(&diags), positioned(&r.diags));
                    if (c.status == Some(0)) != (r.status == Some(0)) {
                        return Err(Failure::new("encodings-set", "verdict-differs", format!("alone the file gives exit {:?}; next to a valid {} companion (file stored as {}) `check` exits {:?}", r.status, ENC_NAMES[comp_enc], ENC_NAMES[main_enc], c.status), inputs));
                    }
                    if diags != rdiags {
                        return Err(Failure::new("encodings-set", "positions-differ", format!("alone: {:?}; next to a valid {} companion (file stored as {}): {:?}", rdiags, ENC_NAMES[comp_enc], ENC_NAMES[main_enc], diags), inputs));
                    }
                }
            }
        }
    }
    if counting {
        if skipped_1252 {
            stats.class("encoding.windows-1252.skipped(bytes-valid-utf8)");
        }
        stats.class(if faulty { "program.single-fault" } else { "program.valid" });
        if crlf {
            stats.class("line-ends.crlf");
        }
        stats.absorb_gates(gates);
        if stats.samples.len() < 2 && !text.is_ascii() {
            stats.samples.push(json!({"text": text.chars().take(500).collect::<String>()}));
        }
    } else {
        gates.take_wanted();
    }
    Ok(())
}

const FIXED: &str = "PROGRAM prog\nVAR\ncounter : INT; (* a comment *)\nlabel : STRING := 'abc';\nEND_VAR\ncounter := counter + 1;\nEND_PROGRAM\n";

/// positions reported for raw bytes lie inside the decoded text
fn positions_inside(bytes: &[u8], what: &str) -> Result<(), (String, String)> {
    let dir = Scratch::new("c14b");
    let p = dir.write("in.st", bytes).to_string_lossy().to_string();
    for cmd in ["check", "tokenize"] {
        let o = run_cli(&[cmd.to_string(), p.clone()], None);
        if o.timed_out {
            continue;
        }
        match o.status {
            Some(c) if c != 101 => {} // any exit status but the panic status; death by signal is None
            other => return Err(("abnormal-exit".into(), format!("{}: `{}` exits {:?}: {}", what, cmd, other, strip_ansi(&o.stderr).lines().last().unwrap_or("")))),
        }
        if let Some(text) = decode_like_cli(bytes) {
            let lines: Vec<&str> = text.split('\n').collect();
            for d in parse_cli_diags(&o.stderr) {
                if d.file.is_none() || d.code == "P0030" {
                    continue;
                }
                if d.line == 0 || d.line > lines.len() {
                    return Err(("position-outside-text".into(), format!("{}: {} reported at line {} but the decoded text has {} lines", what, d.code, d.line, lines.len())));
                }
                let l = lines[d.line - 1];
                let width = l.chars().count().max(l.len());
                if d.col == 0 || d.col > width + 1 {
                    return Err(("position-outside-text".into(), format!("{}: {} reported at {}:{} but that line has {} characters", what, d.code, d.line, d.col, l.chars().count())));
                }
            }
        }
    }
    Ok(())
}

pub fn run(ctx: &Ctx) -> i32 {
    let clock = Clock::start();
    let mut rep = Report::new(
        "C14",
        ctx.tier,
        ctx.seed,
        "exploration",
        "(1) generated programs (valid / one planted fault) decorated with non-ASCII characters of the Windows-1252 repertoire in comments and string literals, LF or CRLF, each written as UTF-8, UTF-8+BOM, UTF-16LE+BOM, UTF-16BE+BOM and Windows-1252 (a 1252 variant whose bytes are valid UTF-8 is skipped and counted): identical exit status, (code, line, column) multiset of `check` and `tokenize` listing; (2) EXHAUSTIVE: every byte value 0x00-0xFF inserted in a comment, in a string literal, between two tokens and inside an identifier of a fixed valid program (1024 files): exit status 0/1 and every reported position inside the decoded text (decoding cascade re-implemented with encoding_rs); (2b) degenerate texts (empty, blanks, lone comment / token / unmatched text, with and without final line break) in every encoding; (3) random binary files <= 4 KiB. Non-trivial (1): text contains a non-ASCII character; (2),(3) always. Distinct by (encoding, text) / file bytes.",
    );
    let gates = ctx.gates_for("C14");
    let off = gates.off_list();
    // (2) exhaustive byte insertion
    let anchors: [(&str, usize); 4] =
        [("in-comment", FIXED.find("a comment").unwrap() + 2), ("in-string", FIXED.find("'abc'").unwrap() + 2), ("between-tokens", FIXED.find("counter : INT").unwrap() + 8), ("inside-identifier", FIXED.find("counter := ").unwrap() + 3)];
    let mut items: Vec<(usize, u8)> = vec![];
    for a in 0..4 {
        for b in 0..=255u8 {
            items.push((a, b));
        }
    }
    let out = run_items(&items, ctx.threads, |(a, b), stats| {
        let (name, at) = anchors[*a];
        let mut bytes = FIXED.as_bytes().to_vec();
        bytes.insert(at, *b);
        stats.case(true, hash_str(&format!("{}{}", name, b)));
        stats.class(&format!("byte.{}", name));
        if *b == 0xE9 && stats.samples.len() < 3 {
            stats.samples.push(json!({"byte": format!("0x{:02X}", b), "position": name}));
        }
        positions_inside(&bytes, &format!("byte 0x{:02X} {}", b, name)).map_err(|(k, d)| Failure::new("byte-insertion", &k, d, json!({"byte": b, "position": name})))
    });
    rep.add(out);
    rep.extra.insert("byte_insertion_exhaustive".into(), json!(true));
    // (2b) degenerate texts in every encoding: nothing, blanks, a lone comment, unmatched text, a
    // lone token, with and without a final line break - same exit status and positions everywhere
    let degenerate: Vec<&str> = vec!["", " ", "\n", "\r\n", "(* caf\u{e9} *)", "(* c *)\n", "?", "?\n", "\u{20ac}", "x", "x := 1;", "PROGRAM", "'\u{e9}'", "(* never closed"];
    let out = run_items(&degenerate, 4, |text, stats| {
        let mut reference: Option<(usize, Obs)> = None;
        for which in 0..5 {
            let bytes = match encode(text, which) {
                Some(b) => b,
                None => continue,
            };
            let o = match observe(&bytes) {
                Some(o) => o,
                None => {
                    stats.inconclusive += 1;
                    continue;
                }
            };
            stats.case(true, hash_str(&format!("deg{}{}", which, text)));
            stats.class("degenerate-text");
            let inputs = json!({"text": text, "encoding": ENC_NAMES[which]});
            match (o.status, o.tok_status) {
                (Some(a), Some(b)) if a != 101 && b != 101 => {}
                other => return Err(Failure::new("degenerate", "abnormal-exit", format!("{:?} as {}: check / tokenize exit {:?}", text, ENC_NAMES[which], other), inputs)),
            }
            if let Some((rw, r)) = &reference {
                if (r.status == Some(0)) != (o.status == Some(0)) || (r.tok_status == Some(0)) != (o.tok_status == Some(0)) || r.diags != o.diags {
                    return Err(Failure::new(
                        "degenerate",
                        "verdict-differs",
                        format!("{:?}: check exit {:?} / tokenize exit {:?} / {:?} as {}, but {:?} / {:?} / {:?} as {}", text, r.status, r.tok_status, r.diags, ENC_NAMES[*rw], o.status, o.tok_status, o.diags, ENC_NAMES[which]),
                        inputs,
                    ));
                }
            } else {
                reference = Some((which, o));
            }
        }
        Ok(())
    });
    rep.add(out);
    // (3) random binaries
    let nbin = ctx.tier.pick(150, 3000);
    let seeds: Vec<u64> = (0..nbin as u64).collect();
    let seed = ctx.seed;
    let out = run_items(&seeds, ctx.threads, |k, stats| {
        let d = crate::tape::derived(&crate::tape::mix(seed ^ k.wrapping_mul(77)).to_le_bytes(), 4096);
        let len = (d[0] as usize * 16 + d[1] as usize) % 4096;
        let bytes = &d[..len.max(1)];
        stats.case(true, crate::tape::fnv(bytes));
        stats.class("random-binary");
        positions_inside(bytes, "random binary").map_err(|(kk, dd)| Failure::new("random-binary", &kk, dd, json!({"bytes": bytes})))
    });
    rep.add(out);
    // (3b) a byte-order mark followed by content that is malformed for the marked encoding (an odd
    // number of bytes, an unpaired surrogate, a Windows-1252 text that an editor put a UTF-8 mark in
    // front of ...): "arbitrary other byte content is handled like any text" - a verdict, never a crash
    {
        let boms: [&[u8]; 3] = [&[0xEF, 0xBB, 0xBF], &[0xFF, 0xFE], &[0xFE, 0xFF]];
        let tails: Vec<Vec<u8>> = vec![
            vec![],
            vec![0x41],
            vec![0x41, 0x00, 0x42],
            vec![0x00, 0xD8],
            vec![0xD8, 0x00],
            vec![0x00, 0xD8, 0x41, 0x00],
            vec![0x00, 0xDC, 0x00, 0xD8],
            vec![0xE9],
            vec![0xC3, 0x28],
            vec![0xF0, 0x9F],
            vec![0xFF, 0xFF, 0xFF],
            b"PROGRAM p\nVAR\nx : INT; (* caf\xe9 *)\nEND_VAR\nx := y;\nEND_PROGRAM\n".to_vec(),
            b"P\x00R\x00O\x00G\x00R\x00A\x00M\x00 \x00p\x00\n\x00E\x00N\x00D\x00_\x00P\x00R\x00O\x00G\x00R\x00A\x00M\x00\n".to_vec(),
            b"\x00P\x00R\x00O\x00G\x00R\x00A\x00M\x00 \x00p\x00\n\x00E\x00N\x00D\x00_\x00P\x00R\x00O\x00G\x00R\x00A\x00M\x00\n\x00".to_vec(),
        ];
        let mut items: Vec<Vec<u8>> = vec![];
        for b in boms.iter() {
            for t in tails.iter() {
                let mut v = b.to_vec();
                v.extend_from_slice(t);
                items.push(v);
            }
        }
        let out = run_items(&items, ctx.threads, |bytes, stats| {
            stats.case(true, crate::tape::fnv(bytes));
            stats.class("mark-then-malformed-content");
            positions_inside(bytes, "byte-order mark followed by malformed content").map_err(|(kk, dd)| Failure::new("random-binary", &kk, dd, json!({"bytes": bytes})))
        });
        rep.add(out);
    }
    // (3c) what the first two characters of a file may be: a guess at the encoding from the first
    // bytes (a zero byte "must be" half of a UTF-16 code unit ...) shows only for such files.  NUL and
    // other control characters, a letter, a blank, a non-ASCII letter in either position, before a
    // program with a lexical and a semantic fault, at even and odd lengths - the five encodings of each
    // text must be observed alike
    {
        let firsts = ["\u{0}", "\u{1}", "P", " ", "\n", "\u{e9}", "\u{20ac}", "(", "\u{ff}", "\u{fe}"];
        let mut items: Vec<String> = vec![];
        for a in firsts.iter() {
            for b in firsts.iter() {
                if !a.contains('\u{0}') && !b.contains('\u{0}') && !(a.contains('\u{1}') || b.contains('\u{1}')) {
                    continue;
                }
                for pad in ["", " "] {
                    items.push(format!("{}{}ROGRAM p{}\nVAR\nx : INT; (* caf\u{e9} *)\nEND_VAR\nx := y; ?\nEND_PROGRAM\n", a, b, pad));
                }
            }
        }
        let out = run_items(&items, ctx.threads, |text, stats| {
            stats.case(true, hash_str(text));
            stats.class("first-two-characters");
            witness(&json!({"text": text})).map_err(|d| Failure::new("first-characters", "encoding-dependent", d, json!({"text": text})))
        });
        rep.add(out);
    }
    // (1) encodings
    let cases = ctx.tier.pick(800, 15_000);
    let out = run_tapes("C14", ctx.seed, ctx.threads, cases, 600, |tape, stats, counting| {
        let g = Gates::with_off(off.clone());
        check_tape(tape, &g, stats, counting)
    });
    rep.add(out);
    rep.replay_witnesses(&ctx.findings, &|w| witness(w));
    rep.extra.insert("gates_off".into(), json!(off));
    rep.assumptions = vec!["the documented decoding is UTF-8 (BOM sniffing recognises UTF-8 / UTF-16 BOMs) and otherwise Windows-1252".into()];
    rep.wall_s = clock.secs();
    rep.finish()
}

pub fn witness(w: &Value) -> Result<(), String> {
    let text = w["text"].as_str().ok_or("no text")?;
    let mut reference: Option<Obs> = None;
    for which in 0..5 {
        if let Some(bytes) = encode(text, which) {
            let o = observe(&bytes).ok_or("timeout")?;
            if let Some(r) = &reference {
                if (r.status == Some(0)) != (o.status == Some(0)) || r.diags != o.diags || r.tokens != o.tokens {
                    return Err(format!("{} differs from utf-8: exit {:?}/{:?}, diags {:?}/{:?}", ENC_NAMES[which], r.status, o.status, r.diags, o.diags));
                }
            } else {
                reference = Some(o);
            }
        }
    }
    Ok(())
}

pub fn replay(ctx: &Ctx, v: &Value) -> i32 {
    let r: Result<(), String> = match v["check"].as_str().unwrap_or("") {
        "encodings" | "witness" | "first-characters" => witness(&v["inputs"]),
        "byte-insertion" => {
            let b = v["inputs"]["byte"].as_u64().unwrap_or(0) as u8;
            let name = v["inputs"]["position"].as_str().unwrap_or("");
            let at = match name {
                "in-comment" => FIXED.find("a comment").unwrap() + 2,
                "in-string" => FIXED.find("'abc'").unwrap() + 2,
                "between-tokens" => FIXED.find("counter : INT").unwrap() + 8,
                _ => FIXED.find("counter := ").unwrap() + 3,
            };
            let mut bytes = FIXED.as_bytes().to_vec();
            bytes.insert(at, b);
            positions_inside(&bytes, name).map_err(|(k, d)| format!("{}: {}", k, d))
        }
        _ => {
            let bytes: Vec<u8> = v["inputs"]["bytes"].as_array().map(|a| a.iter().map(|x| x.as_u64().unwrap_or(0) as u8).collect()).unwrap_or_default();
            positions_inside(&bytes, "replay").map_err(|(k, d)| format!("{}: {}", k, d))
        }
    };
    match r {
        Ok(()) => {
            println!("replay: property holds on this input");
            0
        }
        Err(e) => {
            println!("VIOLATION property=C14 replay={}", ctx.replay_path.clone().unwrap_or_default());
            eprintln!("{}", e);
            1
        }
    }
}

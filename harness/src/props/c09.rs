//! C09 – literals are read as the value IEC 61131-3 assigns them, or rejected.
//!
//! Text-first: the generator writes a literal from a structured model with
//! boundary-heavy classes, an exact reference evaluator (checked 128-bit
//! integer arithmetic, calendar rules, the standard library's correctly
//! rounded decimal->f64 conversion) says what the value is or that it cannot be
//! represented; the literal is embedded in a program and the node found in the
//! parsed library must carry exactly that value – or the parser must reject.

use crate::gates::Gates;
use crate::report::Report;
use crate::runner::*;
use crate::tape::Tape;
use crate::Ctx;
use ironplc_dsl::common::*;
use ironplc_dsl::textual::*;
use ironplc_dsl::core::FileId;
use ironplc_parser::options::ParseOptions;
use ironplc_parser::parse_program;
use serde_json::{json, Value};

#[derive(Clone, Debug, PartialEq)]
pub enum Expect {
    Int { mag: u128, neg: bool, ty: Option<String> },
    Bits { mag: u128, ty: Option<String> },
    Real { value: f64, ty: Option<String> },
    Bool(bool),
    Str(Vec<char>),
    /// a string with '$' escapes: the dsl may keep the text between the quotes verbatim or hold the
    /// decoded characters (both readings keep every character; anything else is a wrong value)
    StrRawOrDecoded(Vec<char>, Vec<char>),
    /// total nanoseconds
    Duration(i128),
    Date(i32, u8, u8),
    Tod(u8, u8, u8, u32),
    Dt(i32, u8, u8, u8, u8, u8, u32),
    Address { loc: char, size: Option<char>, comps: Vec<u32> },
    /// the value cannot be represented: the parser must reject
    Reject(String),
    /// representability is a matter of taste: reject, or accept with exactly this value
    Either(Box<Expect>),
}

pub struct Lit {
    pub text: String,
    pub expect: Expect,
    pub family: &'static str,
    pub class: String,
    /// how the literal is embedded
    pub embed: Embed,
}

#[derive(Clone, Copy, PartialEq, Debug)]
pub enum Embed {
    Init,
    Address,
    TaskInterval,
    /// an integer written in another position that converts a number: 0 subrange lower bound,
    /// 1 subrange upper bound, 2 array lower bound, 3 CASE selector, 4 expression operand,
    /// 5 task priority, 6 string length, 7 repetition count of an array initial value
    IntAt(u8),
}

fn underscores(digits: &str, t: &mut Tape) -> String {
    // single underscores between digits
    let mut out = String::new();
    for (i, c) in digits.chars().enumerate() {
        if i > 0 && t.ratio(1, 4) {
            out.push('_');
        }
        out.push(c);
    }
    out
}

fn magnitude_class(t: &mut Tape) -> (u128, &'static str, bool) {
    // (value, class, overflow-beyond-u128)
    match t.below(14) {
        0 => (0, "zero", false),
        1 => (1, "one", false),
        2 => (t.below(100) as u128, "small", false),
        3 => (*t.pick(&[127u128, 128, 255, 256]), "w8", false),
        4 => (*t.pick(&[32767u128, 32768, 65535, 65536]), "w16", false),
        5 => (*t.pick(&[2147483647u128, 2147483648, 4294967295, 4294967296]), "w32", false),
        6 => (*t.pick(&[9223372036854775807u128, 9223372036854775808, 18446744073709551615, 18446744073709551616]), "w64", false),
        7 => (*t.pick(&[(1u128 << 127) - 1, 1u128 << 127, u128::MAX]), "w128", false),
        8 => (0, "over128", true),
        9 => (t.u64() as u128, "rand64", false),
        10 => (t.u128(), "rand128", false),
        11 => (t.u32() as u128, "rand32", false),
        _ => (t.u16() as u128, "rand16", false),
    }
}

const INT_TY: [&str; 8] = ["SINT", "INT", "DINT", "LINT", "USINT", "UINT", "UDINT", "ULINT"];
const BIT_TY: [&str; 4] = ["BYTE", "WORD", "DWORD", "LWORD"];

fn to_base(mut v: u128, base: u32) -> String {
    if v == 0 {
        return "0".into();
    }
    let mut s = vec![];
    while v > 0 {
        let d = (v % base as u128) as u32;
        s.push(std::char::from_digit(d, base).unwrap().to_ascii_uppercase());
        v /= base as u128;
    }
    s.iter().rev().collect()
}

fn gen_integer(t: &mut Tape) -> Lit {
    let (mag, class, over) = magnitude_class(t);
    let base = *t.pick(&[10u32, 10, 16, 8, 2]);
    let ty = if t.ratio(1, 3) { Some(t.pick(&INT_TY).to_string()) } else { None };
    let mut digits = if over {
        // more than 128 bits: 40..45 decimal digits or the based equivalent
        // (the smallest such number, or - half of the time - random digits / the largest digit all
        // the way: a digit loop that detects overflow by a wrap-around test misses most of these)
        let (first, more, alphabet): (&[u8], usize, &[u8]) = match base {
            10 => (b"123456789", 39 + t.below(6), b"0123456789"),
            16 => (b"123456789ABCDEFabcdef", 32 + t.below(8), b"0123456789ABCDEFabcdef"),
            8 => (b"4567", 42 + t.below(8), b"01234567"),
            _ => (b"1", 128 + t.below(12), b"01"),
        };
        match t.below(4) {
            0 | 1 => match base {
                10 => format!("4{}", "0123456789".repeat(4)),
                16 => format!("1{}", "0".repeat(32)),
                8 => format!("4{}", "0".repeat(42)),
                _ => format!("1{}", "0".repeat(128)),
            },
            2 => {
                let top = *alphabet.last().unwrap() as char;
                let top = if base == 16 && t.flag() { 'F' } else { top };
                std::iter::repeat(top).take(more + 1).collect()
            }
            _ => {
                let mut d = String::new();
                d.push(first[t.below(first.len())] as char);
                for _ in 0..more {
                    d.push(alphabet[t.below(alphabet.len())] as char);
                }
                d
            }
        }
    } else {
        to_base(mag, base)
    };
    if t.ratio(1, 6) {
        digits = format!("0{}", digits);
    }
    let digits = if t.ratio(1, 3) { underscores(&digits, t) } else { digits };
    let (sign, neg) = if base == 10 {
        match t.below(4) {
            0 => ("-", true),
            1 => ("+", false),
            _ => ("", false),
        }
    } else {
        ("", false)
    };
    let body = match base {
        10 => format!("{}{}", sign, digits),
        b => format!("{}#{}", b, digits),
    };
    let text = match &ty {
        Some(tn) => format!("{}#{}", tn, body),
        None => body,
    };
    let expect = if over { Expect::Reject("magnitude exceeds 128 bits".into()) } else { Expect::Int { mag, neg, ty: ty.clone() } };
    Lit { text, expect, family: "integer", class: format!("{}.base{}{}{}", class, base, if ty.is_some() { ".typed" } else { "" }, if neg { ".neg" } else { "" }), embed: Embed::Init }
}

fn gen_bits(t: &mut Tape) -> Lit {
    let (mag, class, over) = magnitude_class(t);
    let base = *t.pick(&[10u32, 16, 16, 8, 2]);
    let ty = t.pick(&BIT_TY).to_string();
    let digits = if over { format!("4{}", "0123456789".repeat(4)) } else { to_base(mag, if over { 10 } else { base }) };
    let base = if over { 10 } else { base };
    let digits = if t.ratio(1, 3) { underscores(&digits, t) } else { digits };
    let body = if base == 10 { digits } else { format!("{}#{}", base, digits) };
    let text = format!("{}#{}", ty, body);
    let expect = if over { Expect::Reject("magnitude exceeds 128 bits".into()) } else { Expect::Bits { mag, ty: Some(ty) } };
    Lit { text, expect, family: "bitstring", class: format!("{}.base{}", class, base), embed: Embed::Init }
}

fn gen_real(t: &mut Tape, g: &Gates) -> Lit {
    let whole = match t.below(5) {
        0 => "0".to_string(),
        1 => "1".to_string(),
        2 => t.byte().to_string(),
        3 => t.u32().to_string(),
        _ => t.u64().to_string(),
    };
    let nf = 1 + t.below(8);
    let mut frac = String::new();
    for _ in 0..nf {
        frac.push((b'0' + t.below(10) as u8) as char);
    }
    let mut class = String::from("plain");
    let mut exp = String::new();
    if t.ratio(1, 2) {
        let e = match t.below(5) {
            0 => 0,
            1 => t.below(10) as i32,
            2 => t.below(39) as i32,
            3 => 300 + t.below(8) as i32,
            _ => {
                if g.want("REAL_EXPONENT_OVERFLOW") {
                    309 + t.below(100) as i32
                } else {
                    t.below(39) as i32
                }
            }
        };
        let sign = match t.below(3) {
            0 => "",
            1 => "-",
            _ => {
                if g.want("REAL_EXPONENT_PLUS") {
                    "+"
                } else {
                    ""
                }
            }
        };
        let el = if t.flag() { "E" } else { "e" };
        exp = format!("{}{}{}", el, sign, e);
        class = format!("exp{}", if sign == "-" { ".neg" } else if sign == "+" { ".plus" } else { "" });
        if e >= 309 && sign != "-" {
            class.push_str(".overflow");
        }
    }
    let w = if t.ratio(1, 4) { underscores(&whole, t) } else { whole.clone() };
    let f = if t.ratio(1, 4) { underscores(&frac, t) } else { frac.clone() };
    let ty = if t.ratio(1, 3) { Some(if t.flag() { "REAL" } else { "LREAL" }.to_string()) } else { None };
    let (sign, neg) = match t.below(4) {
        0 => ("-", true),
        1 => ("+", false),
        _ => ("", false),
    };
    let body = format!("{}{}.{}{}", sign, w, f, exp);
    let clean = format!("{}.{}{}", whole, frac, exp.replace('+', ""));
    let mut v: f64 = clean.parse().unwrap();
    let mut body = body;
    if v.is_infinite() && !g.want("REAL_EXPONENT_OVERFLOW") {
        // excluded by a known finding: drop the exponent
        body = format!("{}{}.{}", sign, w, f);
        v = format!("{}.{}", whole, frac).parse().unwrap();
        class = "plain".into();
    }
    let text = match &ty {
        Some(tn) => format!("{}#{}", tn, body),
        None => body,
    };
    let expect = if v.is_infinite() {
        Expect::Reject("value exceeds the range of LREAL".into())
    } else {
        Expect::Real { value: if neg { -v } else { v }, ty: ty.clone() }
    };
    Lit { text, expect, family: "real", class, embed: Embed::Init }
}

const UNITS: [(&str, i128); 5] = [("d", 86_400_000_000_000), ("h", 3_600_000_000_000), ("m", 60_000_000_000), ("s", 1_000_000_000), ("ms", 1_000_000)];

fn gen_duration(t: &mut Tape, g: &Gates) -> Lit {
    // a non-empty subsequence of (d,h,m,s,ms) in order
    let mask = 1 + t.below(31);
    let mut sel: Vec<usize> = (0..5).filter(|i| mask & (1 << (4 - i)) != 0).collect();
    if sel.len() > 1 && !g.want("DURATION_MULTI_UNIT") {
        sel.truncate(1);
    }
    let mut total: i128 = 0;
    let mut text = String::new();
    let mut class = format!("units{}", sel.len());
    let mut reject: Option<String> = None;
    let mut unit_count_over_64 = false;
    for (k, &u) in sel.iter().enumerate() {
        let (name, f) = UNITS[u];
        let first = k == 0;
        let last = k + 1 == sel.len();
        // value: in range for non-first units; the most significant unit may be out of range
        let limit: u128 = match name {
            "h" => 24,
            "m" => 60,
            "s" => 60,
            "ms" => 1000,
            _ => 1_000_000,
        };
        let v: u128 = if first {
            match t.below(8) {
                0 => 0,
                1 => 1,
                2 => limit,
                3 => limit + 1,
                4 => t.u16() as u128,
                5 => {
                    if g.want("DURATION_HUGE_VALUE") {
                        class.push_str(".huge");
                        *t.pick(&[4294967296u128, 9223372036854775807, 18446744073709551615, 18446744073709551616, 99999999999999999999])
                    } else {
                        t.u16() as u128
                    }
                }
                _ => t.below(limit as usize) as u128,
            }
        } else {
            t.below(limit as usize) as u128
        };
        if v > u64::MAX as u128 {
            unit_count_over_64 = true;
        }
        let mut num = v.to_string();
        if t.ratio(1, 8) && num.len() > 1 {
            num = underscores(&num, t);
        }
        let mut part_ns: Option<i128> = (v as i128).checked_mul(f).filter(|_| v < (1u128 << 100));
        if last && t.ratio(1, 3) {
            // 1..3 digits usually, up to 15 (the lexer's precision) sometimes
            let fd = if t.ratio(1, 3) { 4 + t.below(12) } else { 1 + t.below(3) };
            let allowed = match name {
                "d" | "h" | "m" => g.want("DURATION_FRACTION_DHM"),
                _ => g.want("DURATION_FRACTION_S_MS"),
            };
            if allowed {
                // a fraction whose value is a whole number of nanoseconds: fr * f must be a
                // multiple of 10^fd, i.e. fr a multiple of 10^fd / gcd(f, 10^fd)
                let scale = 10i128.pow(fd as u32);
                let underscore_ok = g.want("FRACTION_UNDERSCORE");
                let g = gcd(f, scale);
                let step = scale / g;
                let frn: i128 = step * (t.u64() as i128 % g);
                let fr = format!("{:0width$}", frn, width = fd);
                // underscores are ignored right of the decimal point too
                let fr_text = if fd > 1 && t.ratio(1, 4) && underscore_ok { underscores(&fr, t) } else { fr.clone() };
                if fr_text.contains('_') {
                    class.push_str(".fraction-underscore");
                }
                num = format!("{}.{}", num, fr_text);
                let add = frn * f / scale;
                if fd > 3 {
                    class.push_str(".long");
                }
                part_ns = part_ns.and_then(|p| p.checked_add(add));
                class.push_str(&format!(".frac-{}", name));
            }
        }
        match part_ns {
            Some(p) => total = total.checked_add(p).unwrap_or(i128::MAX),
            None => reject = Some("unit value overflows".into()),
        }
        if !text.is_empty() && t.ratio(1, 4) && g.want("DURATION_UNDERSCORE") {
            text.push('_');
        }
        text.push_str(&num);
        text.push_str(name);
    }
    // representable: |seconds| <= i64::MAX
    let max_ns: i128 = (i64::MAX as i128) * 1_000_000_000 + 999_999_999;
    if total > max_ns {
        reject = Some("duration exceeds the representable range".into());
    }
    let neg = t.ratio(1, 5);
    let prefix = match t.below(3) {
        0 => "T#",
        1 => "TIME#",
        _ => {
            if g.want("DURATION_LOWER_T") {
                "t#"
            } else {
                "T#"
            }
        }
    };
    let full = format!("{}{}{}", prefix, if neg { "-" } else { "" }, text);
    let expect = match reject {
        Some(r) => Expect::Reject(r),
        None => {
            let e = Expect::Duration(if neg { -total } else { total });
            // a unit count that does not fit the dsl's 64-bit FixedPoint: rejecting it is as
            // acceptable as reading it exactly (never a different value)
            if unit_count_over_64 {
                Expect::Either(Box::new(e))
            } else {
                e
            }
        }
    };
    let embed = if t.ratio(1, 6) { Embed::TaskInterval } else { Embed::Init };
    Lit { text: full, expect, family: "duration", class, embed }
}

fn gcd(a: i128, b: i128) -> i128 {
    if b == 0 {
        a
    } else {
        gcd(b, a % b)
    }
}

fn days_in_month(y: i32, m: u8) -> u8 {
    match m {
        1 | 3 | 5 | 7 | 8 | 10 | 12 => 31,
        4 | 6 | 9 | 11 => 30,
        2 => {
            if (y % 4 == 0 && y % 100 != 0) || y % 400 == 0 {
                29
            } else {
                28
            }
        }
        _ => 0,
    }
}

/// a field value that only looks valid after a narrowing cast: v + k * 2^w, w in {8, 16, 32, 64}
fn wrapped(v: u32, t: &mut Tape) -> u128 {
    let w = *t.pick(&[8u32, 16, 32, 64]);
    v as u128 + ((1 + t.below(3)) as u128) * (1u128 << w)
}

fn gen_date_fields(t: &mut Tape) -> (String, Option<(i32, u8, u8)>, String, bool) {
    // returns (text, valid value, class, taste-band)
    let y: i32 = match t.below(8) {
        0 => 2000 + t.below(40) as i32,
        1 => 1970,
        2 => 1,
        3 => 9999,
        4 => 0,
        5 => 10000,
        6 => *t.pick(&[1900, 2000, 2024, 2023, 2100, 1600]),
        _ => 1 + t.below(9999) as i32,
    };
    let mut m: u128 = match t.below(7) {
        0 => 0,
        1 => 13,
        2 => 12,
        3 => 1,
        _ => 1 + t.below(12) as u128,
    };
    let dim = if (1..=12).contains(&m) { days_in_month(y, m as u8) as u32 } else { 31 };
    let mut d: u128 = match t.below(8) {
        0 => 0,
        1 => dim as u128,
        2 => dim as u128 + 1,
        3 => 1,
        4 => 32,
        _ => 1 + t.below(dim.max(1) as usize) as u128,
    };
    // wrap magnitudes: a valid field value plus a multiple of 2^8 / 2^16 / 2^32 / 2^64
    let mut wrap = false;
    let mut ytext = format!("{:04}", y);
    if t.ratio(1, 8) && (1..=12).contains(&m) && d >= 1 && d <= dim as u128 {
        wrap = true;
        match t.below(3) {
            0 => m = wrapped(m as u32, t),
            1 => d = wrapped(d as u32, t),
            _ => ytext = format!("{}", y as u128 + ((1 + t.below(3)) as u128) * (1u128 << *t.pick(&[32u32, 64]))),
        }
    }
    let two = |v: u128, t: &mut Tape| if v < 10 && t.flag() { format!("0{}", v) } else { v.to_string() };
    let text = format!("{}-{}-{}", ytext, two(m, t), two(d, t));
    let taste = (y == 0 || y >= 10000) && !wrap;
    let valid = !wrap && (1..=12).contains(&m) && d >= 1 && d <= dim as u128;
    let class = format!("{}{}{}{}", if valid { "valid" } else { "invalid" }, if taste { ".year-band" } else { "" }, if m == 2 && d >= 28 { ".feb-end" } else { "" }, if wrap { ".wrap-magnitude" } else { "" });
    (text, if valid { Some((y, m as u8, d as u8)) } else { None }, class, taste)
}

fn gen_tod_fields(t: &mut Tape, g: &Gates) -> (String, Option<(u8, u8, u8, u32)>, String) {
    let h: u32 = match t.below(6) {
        0 => 0,
        1 => 23,
        2 => 24,
        3 => 12,
        _ => t.below(24) as u32,
    };
    let m: u32 = match t.below(6) {
        0 => 0,
        1 => 59,
        2 => 60,
        _ => t.below(60) as u32,
    };
    let s: u32 = match t.below(8) {
        0 => 0,
        1 => 59,
        2 => 60,
        3 => {
            if g.want("TOD_SECONDS_ABOVE_255") {
                *t.pick(&[255u32, 256, 300, 316])
            } else {
                59
            }
        }
        _ => t.below(60) as u32,
    };
    let two = |v: u128, t: &mut Tape| if v < 10 && t.flag() { format!("0{}", v) } else { v.to_string() };
    let mut micro = 0u32;
    let (mut hh, mut mm, mut ss) = (h as u128, m as u128, s as u128);
    let mut wrap = false;
    if t.ratio(1, 8) && h < 24 && m < 60 && s < 60 {
        wrap = true;
        match t.below(3) {
            0 => hh = wrapped(h, t),
            1 => mm = wrapped(m, t),
            _ => ss = wrapped(s, t),
        }
    }
    let mut text = format!("{}:{}:{}", two(hh, t), two(mm, t), two(ss, t));
    let mut class = String::new();
    if wrap {
        class.push_str(".wrap-magnitude");
    }
    if t.ratio(1, 4) && g.want("TOD_FRACTION") {
        let fd = 1 + t.below(3);
        let mut fr = String::new();
        for _ in 0..fd {
            fr.push((b'0' + t.below(10) as u8) as char);
        }
        micro = fr.parse::<u32>().unwrap() * 10u32.pow(6 - fd as u32);
        let fr_text = if fd > 1 && t.ratio(1, 4) && g.want("FRACTION_UNDERSCORE") { underscores(&fr, t) } else { fr.clone() };
        text = format!("{}.{}", text, fr_text);
        class.push_str(".fraction");
    }
    let valid = !wrap && h < 24 && m < 60 && s < 60;
    let class = format!("{}{}", if valid { "valid" } else { "invalid" }, class);
    (text, if valid { Some((h as u8, m as u8, s as u8, micro)) } else { None }, class)
}

fn gen_date(t: &mut Tape, g: &Gates) -> Lit {
    let (f, v, class, taste) = gen_date_fields(t);
    let prefix = match t.below(3) {
        0 => "DATE#",
        1 => "D#",
        _ => {
            if g.want("DATE_LOWER_D") {
                "d#"
            } else {
                "D#"
            }
        }
    };
    let expect = match v {
        Some((y, m, d)) => {
            let e = Expect::Date(y, m, d);
            if taste {
                Expect::Either(Box::new(e))
            } else {
                e
            }
        }
        None => Expect::Reject("date field out of range".into()),
    };
    Lit { text: format!("{}{}", prefix, f), expect, family: "date", class, embed: Embed::Init }
}
fn gen_tod(t: &mut Tape, g: &Gates) -> Lit {
    let (f, v, class) = gen_tod_fields(t, g);
    let prefix = if t.flag() { "TOD#" } else { "TIME_OF_DAY#" };
    let expect = match v {
        Some((h, m, s, u)) => Expect::Tod(h, m, s, u),
        None => Expect::Reject("time-of-day field out of range".into()),
    };
    Lit { text: format!("{}{}", prefix, f), expect, family: "tod", class, embed: Embed::Init }
}
fn gen_dt(t: &mut Tape, g: &Gates) -> Lit {
    let (df, dv, dclass, taste) = gen_date_fields(t);
    let (tf, tv, tclass) = gen_tod_fields(t, g);
    let prefix = if t.flag() { "DT#" } else { "DATE_AND_TIME#" };
    let expect = match (dv, tv) {
        (Some((y, mo, d)), Some((h, mi, s, u))) => {
            let e = Expect::Dt(y, mo, d, h, mi, s, u);
            if taste {
                Expect::Either(Box::new(e))
            } else {
                e
            }
        }
        _ => Expect::Reject("date-and-time field out of range".into()),
    };
    Lit { text: format!("{}{}-{}", prefix, df, tf), expect, family: "dt", class: format!("{}+{}", dclass, tclass), embed: Embed::Init }
}

fn gen_string(t: &mut Tape, g: &Gates) -> Lit {
    let wide = t.ratio(1, 3);
    let q = if wide { '"' } else { '\'' };
    // now and then a string at and beyond the sizes a length field may have (255/256, 65 535/65 536)
    let long = t.ratio(1, 40);
    let n = if long { *t.pick(&[255usize, 256, 257, 1000, 65_535, 65_536, 70_000]) } else { t.count(0, 12) };
    let mut raw: Vec<char> = vec![];
    let mut dec: Vec<char> = vec![];
    let mut escapes = 0;
    let with_escapes = !long && t.ratio(1, 3) && g.want("STRING_DOLLAR_ESCAPES");
    if long {
        // a pattern in which every position is recognisable (a dropped or repeated stretch shows)
        let step = 1 + t.below(7);
        for i in 0..n {
            let c = (33 + ((i * step + i / 89) % 90) as u8) as char;
            let c = if c == q || c == '$' { 'x' } else { c };
            raw.push(c);
            dec.push(c);
        }
    }
    for _ in 0..if long { 0 } else { n } {
        if with_escapes && t.ratio(1, 3) {
            // IEC 61131-3 table 5/6: $$ $L $N $P $R $T (either case), $hh (wide: $hhhh), and the
            // escaped delimiter (gated: the lexer ends the token at the first quote)
            escapes += 1;
            match t.below(8) {
                0 => {
                    raw.extend(['$', '$']);
                    dec.push('$');
                }
                1..=5 => {
                    let (c, d) = *t.pick(&[('L', '\n'), ('N', '\n'), ('P', '\u{c}'), ('R', '\r'), ('T', '\t')]);
                    let c = if t.flag() { c.to_ascii_lowercase() } else { c };
                    raw.extend(['$', c]);
                    dec.push(d);
                }
                6 => {
                    let v = 0x20 + t.below(0x5f) as u32;
                    let hex = if wide { format!("{:04X}", v) } else { format!("{:02X}", v) };
                    raw.push('$');
                    raw.extend(hex.chars());
                    dec.push(char::from_u32(v).unwrap());
                }
                _ => {
                    if g.want("STRING_ESCAPED_DELIMITER") {
                        raw.extend(['$', q]);
                        dec.push(q);
                    } else {
                        raw.push('y');
                        dec.push('y');
                    }
                }
            }
            continue;
        }
        let c = if t.ratio(1, 6) && g.want("STRING_NON_ASCII") {
            // letters, symbols - and characters that text tools like to 'normalise': no-break space,
            // soft hyphen, zero-width space, ideographic space, line separator, a BOM in the middle
            *t.pick(&['é', 'ß', 'Ä', '€', '漢', 'ñ', '😀', '\u{a0}', '\u{ad}', '\u{200b}', '\u{3000}', '\u{2028}', '\u{feff}', '\u{85}', '\t'])
        } else {
            (32 + t.below(95) as u8) as char
        };
        // the other quote kind is an ordinary character; a lone '$' is never written
        let c = if c == q || c == '$' { 'x' } else { c };
        raw.push(c);
        dec.push(c);
    }
    let body: String = raw.iter().collect();
    let prefix = if t.ratio(1, 4) {
        if wide {
            "WSTRING#"
        } else {
            "STRING#"
        }
    } else {
        ""
    };
    let class = format!(
        "{}{}{}{}",
        if wide { "double-quoted" } else { "single-quoted" },
        if prefix.is_empty() { "" } else { ".prefixed" },
        if raw.iter().any(|c| !c.is_ascii()) { ".non-ascii" } else { "" },
        if escapes > 0 { ".dollar-escapes" } else { "" }
    );
    let expect = if escapes > 0 { Expect::StrRawOrDecoded(raw, dec) } else { Expect::Str(raw) };
    Lit { text: format!("{}{}{}{}", prefix, q, body, q), expect, family: "string", class, embed: Embed::Init }
}

fn gen_address(t: &mut Tape, g: &Gates) -> Lit {
    let loc = *t.pick(&['I', 'Q', 'M']);
    let size = if t.ratio(1, 6) && g.want("ADDRESS_NO_SIZE_PREFIX") { None } else { Some(*t.pick(&['X', 'B', 'W', 'D', 'L'])) };
    // (IEC table 15 shows %IW2.5.7.1: the hierarchy has as many levels as the configuration says)
    let n = if t.ratio(1, 5) { 4 + t.below(9) } else { 1 + t.below(3) };
    let mut comps = vec![];
    let mut over = false;
    let mut multi = false;
    let mut parts = vec![];
    for _ in 0..n {
        let v: u128 = if g.want("ADDRESS_MULTI_DIGIT") {
            match t.below(7) {
                0 => t.below(10) as u128,
                1 => 10 + t.below(90) as u128,
                2 => t.u16() as u128,
                3 => 4294967295,
                4 => 4294967296,
                5 => wrapped(t.below(100) as u32, t) << 24,
                _ => t.below(10000) as u128,
            }
        } else {
            t.below(10) as u128
        };
        if v >= 10 {
            multi = true;
        }
        if v > u32::MAX as u128 {
            over = true;
        }
        comps.push(v as u32);
        parts.push(v.to_string());
    }
    let lower = t.ratio(1, 6) && g.want("ADDRESS_LOWER_CASE");
    let mut text = format!("%{}{}{}", loc, size.map(|c| c.to_string()).unwrap_or_default(), parts.join("."));
    if lower {
        text = text.to_lowercase();
    }
    let expect = if over { Expect::Reject("address component exceeds 32 bits".into()) } else { Expect::Address { loc, size, comps } };
    Lit {
        text,
        expect,
        family: "address",
        class: format!("comps{}{}{}{}", n, if multi { ".multi-digit" } else { "" }, if size.is_none() { ".no-size" } else { "" }, if lower { ".lower" } else { "" }),
        embed: Embed::Address,
    }
}

fn gen_bool(t: &mut Tape, g: &Gates) -> Lit {
    // BOOL# followed by a number that is no boolean value (2, 10, 255, 2^32 ...) must be rejected;
    // other spellings of 0 / 1 (01, 0_1, 00) are a matter of taste
    if t.ratio(1, 4) && g.want("BOOL_LITERAL_0_1") {
        let (mag, class, over) = magnitude_class(t);
        if over || mag >= 2 {
            let digits = if over { format!("{}0", u128::MAX) } else { mag.to_string() };
            return Lit { text: format!("BOOL#{}", digits), expect: Expect::Reject("no boolean value".into()), family: "boolean", class: format!("bool#number.{}", class), embed: Embed::Init };
        }
        let sp = *t.pick(&["0", "00", "0_0"]);
        let text = if mag == 0 { format!("BOOL#{}", sp) } else { format!("BOOL#{}", sp.replacen('0', "", 1).to_string() + "1") };
        let plain = text == "BOOL#0" || text == "BOOL#1";
        let e = Expect::Bool(mag == 1);
        return Lit { text, expect: if plain { e } else { Expect::Either(Box::new(e)) }, family: "boolean", class: "bool#digit-spelling".into(), embed: Embed::Init };
    }
    let v = t.flag();
    let text = match t.below(4) {
        0 | 1 => if v { "TRUE" } else { "FALSE" }.to_string(),
        2 => format!("BOOL#{}", if v { "TRUE" } else { "FALSE" }),
        _ => {
            if g.want("BOOL_LITERAL_0_1") {
                format!("BOOL#{}", if v { "1" } else { "0" })
            } else {
                format!("BOOL#{}", if v { "TRUE" } else { "FALSE" })
            }
        }
    };
    let class = if text.ends_with('1') || text.ends_with('0') { "bool#digit" } else if text.starts_with("BOOL") { "bool#word" } else { "word" };
    Lit { text, expect: Expect::Bool(v), family: "boolean", class: class.into(), embed: Embed::Init }
}

/// a decimal integer (optional sign where the grammar has a signed integer) in one of the
/// positions that convert a number outside a variable's initial value
fn gen_integer_position(t: &mut Tape) -> Lit {
    let pos = t.below(8) as u8;
    let (mag, class, over) = magnitude_class(t);
    let signed_pos = pos <= 3;
    let neg = signed_pos && t.ratio(1, 3);
    let plus = signed_pos && !neg && t.ratio(1, 8);
    let digits = if over { format!("{}{}", u128::MAX, t.below(10)) } else { mag.to_string() };
    let digits = if t.ratio(1, 4) { underscores(&digits, t) } else { digits };
    let text = format!("{}{}", if neg { "-" } else if plus { "+" } else { "" }, digits);
    // capacity of the field that holds the value
    let cap: u128 = if pos == 5 { u32::MAX as u128 } else { u128::MAX };
    let expect = if over || mag > cap {
        Expect::Reject("the value does not fit the field".into())
    } else if pos == 4 && neg {
        // in an expression the sign is an operator: judged by C01
        Expect::Int { mag, neg: false, ty: None }
    } else {
        Expect::Int { mag, neg: neg && mag != 0 || (neg && mag == 0), ty: None }
    };
    Lit { text, expect, family: "integer-position", class: format!("pos{}.{}{}", pos, class, if neg { ".neg" } else if plus { ".plus" } else { "" }), embed: Embed::IntAt(pos) }
}

/// texts that look like a literal of some family and have NO value in IEC 61131-3: a number with an
/// exponent inside a duration or a time of day, a decimal comma, digits outside the base, missing
/// or doubled parts.  The only right answer is a diagnostic (the pinned tree rejects every shape
/// listed here; shapes it is lenient about - a doubled or trailing underscore - are not listed)
fn gen_malformed(t: &mut Tape) -> Lit {
    let e = *t.pick(&["E", "e"]);
    let es = *t.pick(&["", "+", "-"]);
    let d = 1 + t.below(9);
    let unit = *t.pick(&["d", "h", "m", "s", "ms"]);
    let tp = *t.pick(&["T#", "t#", "TIME#", "T#-"]);
    let (text, class): (String, &str) = match t.below(22) {
        0 | 1 | 2 => (format!("{}{}.{}{}{}{}{}", tp, d, t.below(10), e, es, 1 + t.below(5), unit), "duration.exponent"),
        3 | 4 => (format!("{}#10:20:{}.{}{}{}{}", *t.pick(&["TOD", "TIME_OF_DAY", "tod"]), t.below(60), t.below(10), e, es, 1 + t.below(3)), "tod.exponent"),
        5 => (format!("DT#2024-02-03-10:20:{}.{}{}{}{}", t.below(60), t.below(10), e, es, 1 + t.below(3)), "dt.exponent"),
        6 => (format!("{}{},{}{}", tp, d, t.below(10), unit), "duration.decimal-comma"),
        7 => ((*t.pick(&["2#102", "2#12", "2#1A", "8#8", "8#19", "8#1A", "2#2", "8#78"])).to_string(), "integer.digit-outside-base"),
        8 => (format!("16#{}", *t.pick(&["G", "FG", "", "-1"])), "integer.digit-outside-base"),
        9 => (format!("{}{}", d, *t.pick(&[".e5", ".5E", ".5e+", ".5E-", "..0", "."])), "real.incomplete"),
        10 => (format!("{}{}", *t.pick(&[".", "_"]), d), "number.leading-point-or-underscore"),
        11 => (format!("{}{}", tp, unit), "duration.no-number"),
        12 => (format!("{}{}", tp, d), "duration.no-unit"),
        13 => (format!("{}{}{}{}", tp, d, unit, t.below(10)), "duration.trailing-number"),
        14 => (format!("{}{}.{}", tp, d, unit), "duration.point-without-fraction"),
        15 => (format!("{}.{}{}", tp, d, unit), "duration.fraction-without-integer"),
        16 => (format!("{}{}", *t.pick(&["+-", "--", "-+", "++"]), d), "integer.doubled-sign"),
        17 => (format!("T#{}{}{}", *t.pick(&["-+", "#", " "]), d, unit), "duration.doubled-prefix-part"),
        18 => (format!("D#2024-{}", *t.pick(&["1", "01", "01-01-01", "13"])), "date.malformed"),
        19 => (format!("TOD#{}", *t.pick(&["1:2", "10:20", "10:20:", ":20:30", "10::30"])), "tod.malformed"),
        20 => (format!("DT#2024-01-01{}", *t.pick(&["", "-10:20", "-10", "T10:20:30", " 10:20:30"])), "dt.malformed"),
        21 if t.flag() => {
            // a bit string has no sign (bit_string_literal takes an unsigned or a based integer); nor has a based integer
            let ty = *t.pick(&["BYTE", "WORD", "DWORD", "LWORD", "byte", "Word"]);
            let sg = *t.pick(&["-", "+"]);
            let body = match t.below(4) {
                0 => format!("{}#{}{}", ty, sg, d),
                1 => format!("{}#{}{}", ty, sg, *t.pick(&["0", "65_536", "255", "1"])),
                2 => format!("{}#{}16#{}", ty, sg, *t.pick(&["FF", "1", "0"])),
                _ => format!("{}{}#{}", sg.replace('+', "-"), *t.pick(&["16", "8", "2"]), *t.pick(&["1", "10", "0"])).replacen('-', "16#-", 1).replace("16#-16#", "16#-").replace("16#-8#", "8#-").replace("16#-2#", "2#-"),
            };
            (body, "bitstring.signed")
        }
        _ => (format!("{}{}", *t.pick(&["0x", "INT#", "16# ", "BOOL#"]), *t.pick(&["10", "", "FF"])), "integer.foreign-notation"),
    };
    // (a few of the generated texts are well-formed by accident - `INT#10`, `BOOL#10` is C09's BOOL# family)
    let accidental = ["INT#10", "BOOL#10", "BOOL#", "BOOL#FF"].contains(&text.as_str());
    let text = if accidental { "16#G".to_string() } else { text };
    Lit { text, expect: Expect::Reject("no literal of IEC 61131-3 is spelled like this".into()), family: "malformed", class: class.to_string(), embed: Embed::Init }
}

/// units that IEC 61131-3:2003 does not have.  `us` and `ns` are units of the 2013 edition: a parser
/// may reject them (the pinned tree does) or read them as micro- / nanoseconds exactly; every other
/// unit-like suffix can only be rejected.  Integer or fractional count, sign, prefix and letter case
/// vary; after a known unit (`T#1s5us`) the same holds.
fn gen_foreign_unit(t: &mut Tape) -> Lit {
    let tp = *t.pick(&["T#", "t#", "TIME#", "time#", "T#-", "TIME#-"]);
    let neg = tp.ends_with('-');
    let count: u64 = match t.below(5) {
        0 => 0,
        1 => 1,
        2 => 5,
        3 => t.below(1000) as u64,
        _ => t.u16() as u64,
    };
    let later = t.ratio(2, 3);
    if later {
        let (unit, f) = *t.pick(&[("us", 1_000i128), ("ns", 1i128), ("US", 1_000), ("NS", 1), ("Us", 1_000), ("nS", 1)]);
        // a fraction that is a whole number of nanoseconds (us only)
        let (num, frac_ns) = if f == 1_000 && t.ratio(1, 3) {
            let fd = 1 + t.below(3);
            let fr = t.below(10usize.pow(fd as u32));
            (format!("{}.{:0w$}", count, fr, w = fd), fr as i128 * 1000 / 10i128.pow(fd as u32))
        } else {
            (count.to_string(), 0)
        };
        let lead_s = t.ratio(1, 4);
        let lead = if lead_s { 1 + t.below(59) as i128 } else { 0 };
        let text = if lead_s { format!("{}{}s{}{}", tp, lead, num, unit) } else { format!("{}{}{}", tp, num, unit) };
        let total = lead * 1_000_000_000 + count as i128 * f + frac_ns;
        let total = if neg { -total } else { total };
        return Lit { text, expect: Expect::Either(Box::new(Expect::Duration(total))), family: "duration", class: format!("later-edition-unit.{}", unit.to_ascii_lowercase()), embed: Embed::Init };
    }
    let unit = *t.pick(&["y", "w", "min", "sec", "hr", "msec", "µs", "ps", "mss", "sm", "dd", "mh"]);
    Lit { text: format!("{}{}{}", tp, count, unit), expect: Expect::Reject("no such duration unit".into()), family: "malformed", class: "duration.foreign-unit".into(), embed: Embed::Init }
}

/// a well-formed numeric literal in which ONE digit is a decimal digit of another script (Arabic-Indic,
/// Devanagari, fullwidth ...) or a digit-like character: IEC 61131-3 digits are 0..9, so there is no
/// such literal - reading the text with that digit dropped or converted would be a wrong value
fn gen_foreign_digit(t: &mut Tape) -> Lit {
    let base = *t.pick(&[
        "13", "-27", "4_52", "+305", "WORD#13", "INT#13", "DINT#-452", "BYTE#255", "T#13.5s", "T#1h13m", "TIME#250ms", "TOD#12:30:05", "TIME_OF_DAY#23:59:59.25",
        "D#2024-11-05", "DATE#1999-12-31", "DT#2024-11-25-12:00:00", "16#1F", "2#1011", "8#17", "1.53", "1.5E13", "2.0e-12", "REAL#10.25",
    ]);
    let digits: Vec<usize> = base.char_indices().filter(|(_, c)| c.is_ascii_digit()).map(|(i, _)| i).collect();
    let at = digits[t.below(digits.len())];
    let v = base.as_bytes()[at] - b'0';
    let foreign: char = match t.below(7) {
        0 => char::from_u32(0x0660 + v as u32).unwrap(), // Arabic-Indic
        1 => char::from_u32(0x0966 + v as u32).unwrap(), // Devanagari
        2 => char::from_u32(0xFF10 + v as u32).unwrap(), // fullwidth
        3 => char::from_u32(0x06F0 + v as u32).unwrap(), // extended Arabic-Indic
        4 => char::from_u32(0x1D7CE + v as u32).unwrap(), // mathematical bold
        5 => *t.pick(&['\u{b2}', '\u{b9}', '\u{2460}', '\u{bd}']), // superscripts, circled one, one half
        _ => char::from_u32(0x0E50 + v as u32).unwrap(), // Thai
    };
    let text = if t.ratio(1, 3) {
        // inserted next to the digit instead of replacing it
        format!("{}{}{}", &base[..at + 1], foreign, &base[at + 1..])
    } else {
        format!("{}{}{}", &base[..at], foreign, &base[at + 1..])
    };
    Lit { text, expect: Expect::Reject("a digit of another script is no digit of IEC 61131-3".into()), family: "malformed", class: "number.foreign-digit".into(), embed: Embed::Init }
}

pub fn gen_literal(t: &mut Tape, g: &Gates) -> Lit {
    if t.ratio(1, 8) {
        return gen_integer_position(t);
    }
    if t.ratio(1, 40) && g.want("MALFORMED_LITERAL") {
        return gen_foreign_digit(t);
    }
    if t.ratio(1, 25) && g.want("MALFORMED_LITERAL") {
        return gen_foreign_unit(t);
    }
    if t.ratio(1, 12) && g.want("MALFORMED_LITERAL") {
        return gen_malformed(t);
    }
    match t.below(12) {
        0 | 1 => gen_integer(t),
        2 => gen_bits(t),
        3 | 4 => gen_real(t, g),
        5 | 6 => gen_duration(t, g),
        7 => gen_date(t, g),
        8 => gen_tod(t, g),
        9 => gen_dt(t, g),
        10 => {
            if t.flag() {
                gen_string(t, g)
            } else {
                gen_bool(t, g)
            }
        }
        _ => gen_address(t, g),
    }
}

pub fn embed(l: &Lit) -> String {
    match l.embed {
        Embed::Init => format!("PROGRAM p\nVAR\nx : INT := {};\nEND_VAR\nEND_PROGRAM\n", l.text),
        Embed::Address => format!("PROGRAM p\nVAR\nx AT {} : BOOL;\nEND_VAR\nEND_PROGRAM\n", l.text),
        Embed::IntAt(0) => format!("TYPE\nr : LINT({}..340282366920938463463374607431768211455);\nEND_TYPE\n", l.text),
        Embed::IntAt(1) => format!("TYPE\nr : LINT(-340282366920938463463374607431768211455..{});\nEND_TYPE\n", l.text),
        Embed::IntAt(2) => format!("TYPE\na : ARRAY[{}..340282366920938463463374607431768211455] OF INT;\nEND_TYPE\n", l.text),
        Embed::IntAt(3) => format!("PROGRAM p\nVAR\nx : INT;\nEND_VAR\nCASE x OF\n{}: x := 1;\nEND_CASE;\nEND_PROGRAM\n", l.text),
        Embed::IntAt(4) => format!("PROGRAM p\nVAR\nx : INT;\nEND_VAR\nx := {};\nEND_PROGRAM\n", l.text.trim_start_matches('-')),
        Embed::IntAt(5) => format!("CONFIGURATION c\nRESOURCE r ON cpu\nTASK t(INTERVAL := T#1s, PRIORITY := {});\nPROGRAM p WITH t : q;\nEND_RESOURCE\nEND_CONFIGURATION\n", l.text),
        Embed::IntAt(6) => format!("TYPE\ns : STRING[{}];\nEND_TYPE\n", l.text),
        Embed::IntAt(_) => format!("TYPE\na : ARRAY[1..2] OF INT := [{}(0)];\nEND_TYPE\n", l.text),
        Embed::TaskInterval => format!("CONFIGURATION c\nRESOURCE r ON cpu\nTASK t(INTERVAL := {}, PRIORITY := 1);\nPROGRAM p WITH t : q;\nEND_RESOURCE\nEND_CONFIGURATION\n", l.text),
    }
}

fn elem_name(e: &ElementaryTypeName) -> String {
    let t: Type = e.clone().into();
    t.name.original().clone()
}

/// Observed value of the literal node in the parsed library, normalised to `Expect`.
pub fn observe(lib: &Library, e: Embed) -> Result<Expect, String> {
    let si = |v: &SignedInteger| Expect::Int { mag: v.value.value, neg: v.is_neg, ty: None };
    match e {
        Embed::IntAt(pos) => {
            let first = lib.elements.first().ok_or("empty library")?;
            match (pos, first) {
                (0, LibraryElementKind::DataTypeDeclaration(DataTypeDeclarationKind::Subrange(d))) | (1, LibraryElementKind::DataTypeDeclaration(DataTypeDeclarationKind::Subrange(d))) => match &d.spec {
                    SubrangeSpecificationKind::Specification(sp) => Ok(si(if pos == 0 { &sp.subrange.start } else { &sp.subrange.end })),
                    _ => Err("subrange without bounds".into()),
                },
                (2, LibraryElementKind::DataTypeDeclaration(DataTypeDeclarationKind::Array(d))) => match &d.spec {
                    ArraySpecificationKind::Subranges(sr) => Ok(si(&sr.ranges.first().ok_or("no range")?.start)),
                    _ => Err("array without ranges".into()),
                },
                (3, LibraryElementKind::ProgramDeclaration(p)) => match &p.body {
                    FunctionBlockBodyKind::Statements(st) => match st.body.first() {
                        Some(StmtKind::Case(c)) => match c.statement_groups.first().and_then(|g| g.selectors.first()) {
                            Some(CaseSelectionKind::SignedInteger(v)) => Ok(si(v)),
                            other => Err(format!("unexpected selector {:?}", other)),
                        },
                        other => Err(format!("unexpected statement {:?}", other)),
                    },
                    _ => Err("no statements".into()),
                },
                (4, LibraryElementKind::ProgramDeclaration(p)) => match &p.body {
                    FunctionBlockBodyKind::Statements(st) => match st.body.first() {
                        Some(StmtKind::Assignment(a)) => match &a.value {
                            ExprKind::Const(ConstantKind::IntegerLiteral(i)) => Ok(Expect::Int { mag: i.value.value.value, neg: i.value.is_neg, ty: None }),
                            other => Err(format!("unexpected expression {:?}", other)),
                        },
                        other => Err(format!("unexpected statement {:?}", other)),
                    },
                    _ => Err("no statements".into()),
                },
                (5, LibraryElementKind::ConfigurationDeclaration(c)) => c.resource_decl.first().and_then(|r| r.tasks.first()).map(|t| Expect::Int { mag: t.priority as u128, neg: false, ty: None }).ok_or_else(|| "no task".to_string()),
                (6, LibraryElementKind::DataTypeDeclaration(DataTypeDeclarationKind::String(d))) => Ok(Expect::Int { mag: d.length.value, neg: false, ty: None }),
                (7, LibraryElementKind::DataTypeDeclaration(DataTypeDeclarationKind::Array(d))) => match d.init.first() {
                    Some(ArrayInitialElementKind::Repeated(r)) => Ok(Expect::Int { mag: r.size.value, neg: false, ty: None }),
                    other => Err(format!("unexpected initial element {:?}", other)),
                },
                (p, other) => Err(format!("position {}: unexpected declaration {:?}", p, std::mem::discriminant(other))),
            }
        }
        Embed::TaskInterval => {
            if let Some(LibraryElementKind::ConfigurationDeclaration(c)) = lib.elements.first() {
                if let Some(iv) = c.resource_decl.first().and_then(|r| r.tasks.first()).and_then(|t| t.interval.clone()) {
                    return Ok(Expect::Duration(iv.interval.whole_nanoseconds()));
                }
            }
            Err("no task interval in the library".into())
        }
        Embed::Address => {
            if let Some(LibraryElementKind::ProgramDeclaration(p)) = lib.elements.first() {
                if let Some(VarDecl { identifier: VariableIdentifier::Direct(d), .. }) = p.variables.first() {
                    let a = &d.address_assignment;
                    let loc = match a.location {
                        LocationPrefix::I => 'I',
                        LocationPrefix::Q => 'Q',
                        LocationPrefix::M => 'M',
                        #[allow(unreachable_patterns)]
                        _ => panic!("ironplc dsl variant unknown to the verification harness"),
                    };
                    let size = match a.size {
                        SizePrefix::Nil => None,
                        SizePrefix::X => Some('X'),
                        SizePrefix::B => Some('B'),
                        SizePrefix::W => Some('W'),
                        SizePrefix::D => Some('D'),
                        SizePrefix::L => Some('L'),
                        SizePrefix::Unspecified => Some('*'),
                        #[allow(unreachable_patterns)]
                        _ => panic!("ironplc dsl variant unknown to the verification harness"),
                    };
                    return Ok(Expect::Address { loc, size, comps: a.address.clone() });
                }
            }
            Err("no located variable in the library".into())
        }
        Embed::Init => {
            let c = match lib.elements.first() {
                Some(LibraryElementKind::ProgramDeclaration(p)) => match p.variables.first().map(|v| &v.initializer) {
                    Some(InitialValueAssignmentKind::Simple(s)) => s.initial_value.clone(),
                    other => return Err(format!("unexpected initializer kind {:?}", other)),
                },
                _ => return Err("no program".into()),
            };
            let c = c.ok_or("no initial value")?;
            Ok(match c {
                ConstantKind::IntegerLiteral(i) => Expect::Int { mag: i.value.value.value, neg: i.value.is_neg, ty: i.data_type.as_ref().map(elem_name) },
                ConstantKind::BitStringLiteral(b) => Expect::Bits { mag: b.value.value, ty: b.data_type.as_ref().map(elem_name) },
                ConstantKind::RealLiteral(r) => Expect::Real { value: r.value, ty: r.data_type.as_ref().map(elem_name) },
                ConstantKind::Boolean(b) => Expect::Bool(b.value == Boolean::True),
                ConstantKind::CharacterString(s) => Expect::Str(s.value.clone()),
                ConstantKind::Duration(d) => Expect::Duration(d.interval.whole_nanoseconds()),
                ConstantKind::Date(d) => {
                    let (y, m, dd) = d.ymd();
                    Expect::Date(y, m, dd)
                }
                ConstantKind::TimeOfDay(t) => {
                    let (h, m, s, u) = t.hmsm();
                    Expect::Tod(h, m, s, u)
                }
                ConstantKind::DateAndTime(t) => {
                    let (y, mo, d) = t.ymd();
                    let (h, mi, s, u) = t.hmsm();
                    Expect::Dt(y, mo, d, h, mi, s, u)
                }
                #[allow(unreachable_patterns)]
                _ => panic!("ironplc dsl variant unknown to the verification harness"),
            })
        }
    }
}

fn same(a: &Expect, b: &Expect) -> bool {
    match (a, b) {
        (Expect::Real { value: x, ty: tx }, Expect::Real { value: y, ty: ty_ }) => x.to_bits() == y.to_bits() && tx == ty_ || (*x == 0.0 && *y == 0.0 && tx == ty_),
        (Expect::StrRawOrDecoded(raw, dec), Expect::Str(got)) => got == raw || got == dec,
        _ => a == b,
    }
}

/// Ok(true): accepted with the exact value; Ok(false): correctly rejected
pub fn judge(program: &str, expect: &Expect, e: Embed) -> Result<bool, (String, String)> {
    let fid = FileId::from_string("c09.st");
    let r = crate::panicx::catch(|| parse_program(program, &fid, &ParseOptions::default()));
    let r = match r {
        Ok(r) => r,
        Err((loc, msg)) => return Err(("panic".into(), format!("parse_program panicked at {}: {}", loc, msg))),
    };
    match (expect, r) {
        (Expect::Reject(_), Err(_)) => Ok(false),
        (Expect::Reject(why), Ok(lib)) => {
            let got = observe(&lib, e).map(|o| format!("{:?}", o)).unwrap_or_else(|e| e);
            Err(("accepted-unrepresentable".into(), format!("literal must be rejected ({}), but was accepted as {}", why, got)))
        }
        (Expect::Either(_), Err(_)) => Ok(false),
        (Expect::Either(inner), Ok(lib)) => {
            let got = observe(&lib, e).map_err(|m| ("node-missing".to_string(), m))?;
            if same(inner, &got) {
                Ok(true)
            } else {
                Err(("wrong-value".into(), format!("expected {:?}, parser read {:?}", inner, got)))
            }
        }
        (want, Err(d)) => Err(("rejected-valid".into(), format!("valid literal {:?} is rejected: {} {}", want, d.code, d.primary.message.chars().take(160).collect::<String>()))),
        (want, Ok(lib)) => {
            let got = observe(&lib, e).map_err(|m| ("node-missing".to_string(), m))?;
            if same(want, &got) {
                Ok(true)
            } else {
                Err(("wrong-value".into(), format!("expected {:?}, parser read {:?}", want, got)))
            }
        }
    }
}

fn check_tape(tape: &[u8], gates: &Gates, stats: &mut Stats, counting: bool) -> Result<(), Failure> {
    let mut t = Tape::new(tape);
    let lit = gen_literal(&mut t, gates);
    let program = embed(&lit);
    let r = judge(&program, &lit.expect, lit.embed);
    if counting {
        let trivial = matches!(lit.text.as_str(), "0" | "1" | "TRUE" | "FALSE" | "''" | "0.0");
        stats.case(!trivial, hash_str(&lit.text));
        stats.class(&format!("{}.{}", lit.family, lit.class));
        match &r {
            Ok(true) => stats.class("outcome.accepted-exact"),
            Ok(false) => stats.class("outcome.rejected-as-required"),
            Err(_) => {}
        }
        stats.absorb_gates(gates);
        let tx = lit.text.clone();
        let ex = format!("{:?}", lit.expect);
        if stats.samples.len() < 10 && hash_str(&tx) % 7 == 0 {
            stats.samples.push(json!({"literal": tx, "expected": ex}));
        }
    } else {
        gates.take_wanted();
        gates.take_hits();
    }
    r.map(|_| ()).map_err(|(kind, detail)| {
        Failure::new("literal", &kind, format!("{} `{}`: {}", lit.family, lit.text, detail), json!({"literal": lit.text, "program": program, "expected": format!("{:?}", lit.expect), "embed": format!("{:?}", lit.embed), "family": lit.family}))
    })
}

/// Fixed boundary grid (enumerated completely on every run).
fn grid() -> Vec<(String, Expect, Embed)> {
    let mut v: Vec<(String, Expect, Embed)> = vec![];
    let int = |m: u128, n: bool, ty: Option<&str>| Expect::Int { mag: m, neg: n, ty: ty.map(String::from) };
    for (k, &w) in [8u32, 16, 32, 64, 127, 128].iter().enumerate() {
        let max: u128 = if w == 128 { u128::MAX } else { (1u128 << w) - 1 };
        for base in [2u32, 8, 10, 16] {
            let body = |x: u128| if base == 10 { x.to_string() } else { format!("{}#{}", base, to_base(x, base)) };
            v.push((body(max), int(max, false, None), Embed::Init));
            if w < 128 {
                v.push((body(max + 1), int(max + 1, false, None), Embed::Init));
            }
            let tn = INT_TY[k % 8];
            v.push((format!("{}#{}", tn, body(max)), int(max, false, Some(tn)), Embed::Init));
        }
        v.push((format!("-{}", max), int(max, true, None), Embed::Init));
        v.push((format!("+{}", max), int(max, false, None), Embed::Init));
    }
    // 2^128 in every base: not representable
    v.push(("340282366920938463463374607431768211456".into(), Expect::Reject("2^128".into()), Embed::Init));
    v.push((format!("16#1{}", "0".repeat(32)), Expect::Reject("2^128".into()), Embed::Init));
    v.push((format!("2#1{}", "0".repeat(128)), Expect::Reject("2^128".into()), Embed::Init));
    v.push((format!("8#4{}", "0".repeat(42)), Expect::Reject("2^128".into()), Embed::Init));
    // underscores at every interior position of 1234
    for pos in 1..4 {
        let mut s = "1234".to_string();
        s.insert(pos, '_');
        v.push((s, int(1234, false, None), Embed::Init));
    }
    v.push(("1_2_3_4".into(), int(1234, false, None), Embed::Init));
    v.push(("16#F_F".into(), int(255, false, None), Embed::Init));
    // every single duration unit with boundary values
    for (name, f) in UNITS.iter() {
        for val in [0i128, 1, 24, 25, 60, 61, 1000, 1001, 65536] {
            v.push((format!("T#{}{}", val, name), Expect::Duration(val * f), Embed::Init));
            v.push((format!("TIME#-{}{}", val, name), Expect::Duration(-val * f), Embed::Init));
        }
    }
    // dates: every month end, leap years
    for y in [1900, 2000, 2023, 2024] {
        for m in 1..=12u8 {
            let dim = days_in_month(y, m);
            v.push((format!("D#{}-{:02}-{:02}", y, m, dim), Expect::Date(y, m, dim), Embed::Init));
            v.push((format!("DATE#{}-{:02}-{:02}", y, m, dim + 1), Expect::Reject("day beyond month end".into()), Embed::Init));
        }
        v.push((format!("D#{}-00-10", y), Expect::Reject("month 0".into()), Embed::Init));
        v.push((format!("D#{}-13-10", y), Expect::Reject("month 13".into()), Embed::Init));
        v.push((format!("D#{}-01-00", y), Expect::Reject("day 0".into()), Embed::Init));
    }
    // time of day: every field at min, max, max+1
    for (h, m, s) in [(0, 0, 0), (23, 59, 59), (24, 0, 0), (0, 60, 0), (0, 0, 60), (12, 30, 15)] {
        let valid = h < 24 && m < 60 && s < 60;
        let e = if valid { Expect::Tod(h, m, s, 0) } else { Expect::Reject("field out of range".into()) };
        v.push((format!("TOD#{:02}:{:02}:{:02}", h, m, s), e.clone(), Embed::Init));
        v.push((format!("TIME_OF_DAY#{}:{}:{}", h, m, s), e, Embed::Init));
        let e2 = if valid { Expect::Dt(2024, 2, 29, h, m, s, 0) } else { Expect::Reject("field out of range".into()) };
        v.push((format!("DT#2024-02-29-{:02}:{:02}:{:02}", h, m, s), e2, Embed::Init));
    }
    // addresses: every prefix x size, 1-3 single digit components
    for loc in ['I', 'Q', 'M'] {
        for size in ['X', 'B', 'W', 'D', 'L'] {
            for comps in [vec![0u32], vec![7, 1], vec![1, 2, 3]] {
                let text = format!("%{}{}{}", loc, size, comps.iter().map(|c| c.to_string()).collect::<Vec<_>>().join("."));
                v.push((text, Expect::Address { loc, size: Some(size), comps }, Embed::Address));
            }
        }
    }
    v
}

pub fn run(ctx: &Ctx) -> i32 {
    let clock = Clock::start();
    let mut rep = Report::new(
        "C09",
        ctx.tier,
        ctx.seed,
        "exploration",
        "structured literal space: integers (base 2/8/10/16 x magnitude classes 0,1,max and max+1 of 8/16/32/64/127/128 bits, >128 bits, random; underscores; sign; type prefix), bit strings, reals (fraction, exponent sign, underscores, prefix, range overflow), durations (every non-empty unit subsequence, boundary values, fractions, sign, prefixes, overflow), dates / times of day / date-and-times (every field at min, max, max+1, leap years), strings (both quote kinds, prefixes, non-ASCII), direct addresses (prefix x size x 1-3 components), booleans. Oracle: exact reference evaluator -> accepted with exactly that value, or rejected when unrepresentable. A fixed boundary grid is enumerated completely on every run. Non-trivial: not the canonical small example of its family; distinct by literal text.",
    );
    let gates = ctx.gates_for("C09");
    let off = gates.off_list();
    // grid
    let items = grid();
    let out = run_items(&items, ctx.threads, |(text, expect, emb), stats| {
        let lit = Lit { text: text.clone(), expect: expect.clone(), family: "grid", class: String::new(), embed: *emb };
        let program = embed(&lit);
        stats.case(true, hash_str(text));
        stats.class("grid");
        judge(&program, expect, *emb).map(|_| ()).map_err(|(kind, detail)| {
            Failure::new("literal", &kind, format!("grid `{}`: {}", text, detail), json!({"literal": text, "program": program, "expected": format!("{:?}", expect), "embed": format!("{:?}", emb), "family": "grid"}))
        })
    });
    rep.add(out);
    rep.extra.insert("grid_size".into(), json!(items.len()));
    let cases = ctx.tier.pick(1_000_000, 20_000_000);
    let out = run_tapes("C09", ctx.seed, ctx.threads, cases, 64, |tape, stats, counting| {
        let g = Gates::with_off(off.clone());
        check_tape(tape, &g, stats, counting)
    });
    rep.add(out);
    crate::fuzzrun::tape_campaign(ctx, &mut rep, "C09", &gates);
    rep.replay_witnesses(&ctx.findings, &|w| witness(w));
    rep.extra.insert("gates_off".into(), json!(off));
    rep.assumptions = vec![
        "f64 reference = the Rust standard library's correctly rounded decimal conversion of the underscore-free text".into(),
        "typed integer literals beyond the range of their type, years 0 and >= 10000: accept-exact or reject both pass".into(),
        "escape sequences ('$') in character strings are not generated".into(),
    ];
    rep.wall_s = clock.secs();
    rep.finish()
}

fn parse_expect(s: &str) -> Option<Expect> {
    // witnesses carry the expectation in a tiny textual form
    let v: Value = serde_json::from_str(s).ok()?;
    expect_from_json(&v)
}
fn expect_from_json(v: &Value) -> Option<Expect> {
    let k = v["is"].as_str()?;
    Some(match k {
        "reject" => Expect::Reject(v["why"].as_str().unwrap_or("").into()),
        "duration_ns" => Expect::Duration(v["ns"].as_str()?.parse().ok()?),
        "int" => Expect::Int { mag: v["mag"].as_str()?.parse().ok()?, neg: v["neg"].as_bool().unwrap_or(false), ty: v["ty"].as_str().map(String::from) },
        "real" => Expect::Real { value: v["value"].as_f64()?, ty: v["ty"].as_str().map(String::from) },
        "bool" => Expect::Bool(v["value"].as_bool()?),
        "str_raw_or_decoded" => Expect::StrRawOrDecoded(v["raw"].as_str()?.chars().collect(), v["decoded"].as_str()?.chars().collect()),
        "tod" => Expect::Tod(v["h"].as_u64()? as u8, v["m"].as_u64()? as u8, v["s"].as_u64()? as u8, v["micro"].as_u64()? as u32),
        "address" => Expect::Address {
            loc: v["loc"].as_str()?.chars().next()?,
            size: v["size"].as_str().and_then(|s| s.chars().next()),
            comps: v["comps"].as_array()?.iter().map(|x| x.as_u64().unwrap_or(0) as u32).collect(),
        },
        _ => return None,
    })
}

/// witness {"kind":"literal","literal":..,"embed":"Init|Address|TaskInterval","expect":{...}}
pub fn witness(w: &Value) -> Result<(), String> {
    let text = w["literal"].as_str().ok_or("witness without literal")?;
    let emb = match w["embed"].as_str().unwrap_or("Init") {
        "Address" => Embed::Address,
        "TaskInterval" => Embed::TaskInterval,
        _ => Embed::Init,
    };
    let expect = expect_from_json(&w["expect"]).or_else(|| w["expect"].as_str().and_then(parse_expect)).ok_or("witness without a readable expectation")?;
    let lit = Lit { text: text.to_string(), expect: expect.clone(), family: "witness", class: String::new(), embed: emb };
    judge(&embed(&lit), &expect, emb).map(|_| ()).map_err(|(k, d)| format!("{}: {}", k, d))
}

pub fn replay(ctx: &Ctx, v: &Value) -> i32 {
    // replays re-run the parser on the recorded program and report what it reads now; the
    // expectation is re-derived by regenerating from the tape when there is one
    let tape: Vec<u8> = v["tape"].as_array().map(|a| a.iter().map(|x| x.as_u64().unwrap_or(0) as u8).collect()).unwrap_or_default();
    let gates = ctx.gates_for("C09");
    let r = if v["check"] == "witness" {
        witness(&v["inputs"])
    } else if v["inputs"]["family"] == "grid" {
        let text = v["inputs"]["literal"].as_str().unwrap_or("");
        match grid().into_iter().find(|g| g.0 == text) {
            Some((t, e, emb)) => {
                let lit = Lit { text: t, expect: e.clone(), family: "grid", class: String::new(), embed: emb };
                judge(&embed(&lit), &e, emb).map(|_| ()).map_err(|(k, d)| format!("{}: {}", k, d))
            }
            None => Err("grid literal not found".into()),
        }
    } else {
        let mut s = Stats::default();
        check_tape(&tape, &gates, &mut s, false).map_err(|f| format!("{}: {}", f.kind, f.detail))
    };
    match r {
        Ok(()) => {
            println!("replay: property holds on this input");
            0
        }
        Err(e) => {
            println!("VIOLATION property=C09 replay={}", ctx.replay_path.clone().unwrap_or_default());
            eprintln!("{}", e);
            1
        }
    }
}

/// one tape through the in-process oracle (used by the coverage-guided `tapes` fuzz target)
pub fn fuzz_one(tape: &[u8], gates: &Gates) -> Result<(), Failure> {
    let mut s = Stats::default();
    check_tape(tape, gates, &mut s, false)
}

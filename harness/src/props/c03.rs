//! C03 – no error is masked: a defect anywhere in the compilation set makes check fail.
//!
//! F (a faulty unit) x K (0..4 valid companion files): every position of F among the files,
//! every file order (all permutations up to 4 files, sampled beyond), every position of the
//! faulty declaration inside its file.  F is (a) a file that does not tokenize, (b) a file with
//! a syntax error, (c) a self-contained faulty declaration (C02 planter).  Companions may reuse
//! the faulty declaration's name (same kind valid declaration, identical copy, different kind).
//! Observed at Project::semantic() on an in-memory project and at `ironplcc check`.

use crate::drive::{run_cli, Scratch};
use crate::gates::Gates;
use crate::gen_valid::*;
use crate::props::c06::chunks_of;
use crate::report::Report;
use crate::runner::*;
use crate::tape::Tape;
use crate::Ctx;
use ironplc_dsl::common::*;
use ironplc_dsl::core::FileId;
use ironplcc::project::{FileBackedProject, Project};
use serde_json::{json, Value};

pub fn project_verdict(files: &[String]) -> Result<(bool, Vec<String>), (String, String)> {
    crate::panicx::catch(|| {
        let mut p = FileBackedProject::new();
        for (i, t) in files.iter().enumerate() {
            p.change_text_document(&FileId::from_string(&crate::drive::set_file_name(i)), t.clone());
        }
        match p.semantic() {
            Ok(()) => (true, vec![]),
            Err(ds) => {
                let mut c: Vec<String> = ds.iter().map(|d| d.code.clone()).collect();
                c.sort();
                (false, c)
            }
        }
    })
    .map_err(|(loc, msg)| ("panic".to_string(), format!("Project::semantic: {} {}", loc, msg)))
}

fn permutations(n: usize, limit: usize, t: &mut Tape) -> Vec<Vec<usize>> {
    if n <= 4 {
        let mut out = vec![];
        fn rec(cur: &mut Vec<usize>, used: &mut Vec<bool>, n: usize, out: &mut Vec<Vec<usize>>) {
            if cur.len() == n {
                out.push(cur.clone());
                return;
            }
            for i in 0..n {
                if !used[i] {
                    used[i] = true;
                    cur.push(i);
                    rec(cur, used, n, out);
                    cur.pop();
                    used[i] = false;
                }
            }
        }
        rec(&mut vec![], &mut vec![false; n], n, &mut out);
        out
    } else {
        (0..limit)
            .map(|_| {
                let mut p: Vec<usize> = (0..n).collect();
                for i in (1..n).rev() {
                    p.swap(i, t.below(i + 1));
                }
                p
            })
            .collect()
    }
}

#[derive(Clone, Debug)]
enum FaultyFile {
    Lexical(String),
    Syntax(String),
    /// (chunks of the faulty unit, index of the faulty declaration chunk, fault kind, declared name)
    Semantic(Vec<String>, usize, FaultKind, Option<String>, LibraryElementKind, Option<String>, String),
}

fn decl_name(e: &LibraryElementKind) -> Option<String> {
    Some(match e {
        LibraryElementKind::DataTypeDeclaration(d) => match d {
            DataTypeDeclarationKind::Enumeration(x) => x.type_name.name.original().clone(),
            DataTypeDeclarationKind::Subrange(x) => x.type_name.name.original().clone(),
            DataTypeDeclarationKind::Simple(x) => x.type_name.name.original().clone(),
            DataTypeDeclarationKind::Array(x) => x.type_name.name.original().clone(),
            DataTypeDeclarationKind::Structure(x) => x.type_name.name.original().clone(),
            DataTypeDeclarationKind::StructureInitialization(x) => x.type_name.name.original().clone(),
            DataTypeDeclarationKind::String(x) => x.type_name.name.original().clone(),
            DataTypeDeclarationKind::LateBound(x) => x.data_type_name.name.original().clone(),
            #[allow(unreachable_patterns)]
            _ => panic!("ironplc dsl variant unknown to the verification harness"),
        },
        LibraryElementKind::FunctionDeclaration(f) => f.name.original().clone(),
        LibraryElementKind::FunctionBlockDeclaration(f) => f.name.original().clone(),
        LibraryElementKind::ProgramDeclaration(f) => f.name.original().clone(),
        LibraryElementKind::ConfigurationDeclaration(f) => f.name.original().clone(),
        #[allow(unreachable_patterns)]
        _ => panic!("ironplc dsl variant unknown to the verification harness"),
    })
}

/// a valid declaration of the given name: same kind as `like` when possible
fn valid_same_name(name: &str, like: &LibraryElementKind, variant: usize) -> String {
    let same_kind = match like {
        LibraryElementKind::DataTypeDeclaration(DataTypeDeclarationKind::Structure(_)) => format!("TYPE\n{} : STRUCT\nok_member : INT;\nEND_STRUCT;\nEND_TYPE\n", name),
        LibraryElementKind::DataTypeDeclaration(DataTypeDeclarationKind::Enumeration(_)) => format!("TYPE\n{} : (ok_v1_{n}, ok_v2_{n});\nEND_TYPE\n", name, n = name),
        LibraryElementKind::DataTypeDeclaration(_) => format!("TYPE\n{} : (ok_w1_{n}, ok_w2_{n});\nEND_TYPE\n", name, n = name),
        LibraryElementKind::FunctionDeclaration(_) => format!("FUNCTION {} : INT\nVAR_INPUT\nok_in : INT;\nEND_VAR\n{} := ok_in;\nEND_FUNCTION\n", name, name),
        LibraryElementKind::FunctionBlockDeclaration(_) => format!("FUNCTION_BLOCK {}\nVAR\nok_v : INT;\nEND_VAR\nok_v := 1;\nEND_FUNCTION_BLOCK\n", name),
        LibraryElementKind::ProgramDeclaration(_) => format!("PROGRAM {}\nVAR\nok_v : INT;\nEND_VAR\nok_v := 1;\nEND_PROGRAM\n", name),
        LibraryElementKind::ConfigurationDeclaration(_) => format!("CONFIGURATION {}\nRESOURCE ok_r ON ok_cpu\nPROGRAM ok_p : ok_t;\nEND_RESOURCE\nEND_CONFIGURATION\n", name),
        #[allow(unreachable_patterns)]
        _ => panic!("ironplc dsl variant unknown to the verification harness"),
    };
    if variant == 0 {
        return same_kind;
    }
    // a declaration of a different kind with the same name: every other declaration kind in turn
    let kind_of = |e: &LibraryElementKind| match e {
        LibraryElementKind::DataTypeDeclaration(_) => 0,
        LibraryElementKind::FunctionDeclaration(_) => 1,
        LibraryElementKind::FunctionBlockDeclaration(_) => 2,
        LibraryElementKind::ProgramDeclaration(_) => 3,
        LibraryElementKind::ConfigurationDeclaration(_) => 4,
        #[allow(unreachable_patterns)]
        _ => panic!("ironplc dsl variant unknown to the verification harness"),
    };
    let forms: Vec<(usize, String)> = vec![
        (0, format!("TYPE\n{} : (ok_x1_{n}, ok_x2_{n});\nEND_TYPE\n", name, n = name)),
        (0, format!("TYPE\n{} : STRUCT\nok_member : INT;\nEND_STRUCT;\nEND_TYPE\n", name)),
        (0, format!("TYPE\n{} : INT(1..5);\nEND_TYPE\n", name)),
        (0, format!("TYPE\n{} : ARRAY[1..2] OF INT;\nEND_TYPE\n", name)),
        (1, format!("FUNCTION {} : INT\nVAR_INPUT\nok_in : INT;\nEND_VAR\n{} := ok_in;\nEND_FUNCTION\n", name, name)),
        (2, format!("FUNCTION_BLOCK {}\nVAR\nok_v : INT;\nEND_VAR\nok_v := 1;\nEND_FUNCTION_BLOCK\n", name)),
        (3, format!("PROGRAM {}\nVAR\nok_v : INT;\nEND_VAR\nok_v := 1;\nEND_PROGRAM\n", name)),
    ];
    let mine = kind_of(like);
    let others: Vec<&(usize, String)> = forms.iter().filter(|(k, _)| *k != mine).collect();
    others[(variant - 1) % others.len()].1.clone()
}

fn check_tape(tape: &[u8], gates: &Gates, stats: &mut Stats, counting: bool, cli_budget: &std::sync::atomic::AtomicI64) -> Result<(), Failure> {
    let derived = crate::tape::derived(tape, 256);
    let mut choice = Tape::new(&derived);
    // companions: 0..4 valid files with disjoint names
    let mut t = Tape::new(tape);
    let nk = choice.below(5);
    let mut companions: Vec<String> = vec![];
    let mut small = Profile::default();
    small.max_types = 3;
    small.max_fbs = 2;
    small.max_funcs = 1;
    small.max_progs = 1;
    small.max_stmts = 3;
    for k in 0..nk {
        let mut p = small.clone();
        p.prefix = format!("k{}_", k);
        let u = gen_unit(&mut t, gates, &p);
        companions.push(chunks_of(&u.lib, gates).join(""));
    }
    // the faulty unit
    let mut fp = small.clone();
    fp.prefix = "f_".into();
    let ftape: Vec<u8> = t.to_vec();
    let mut ft = Tape::new(&ftape);
    let base = gen_unit(&mut ft, gates, &fp);
    // a valid declaration that is written twice, each copy alone in its own file: nothing is wrong
    // with either file, the set must still be diagnosed (duplicate name), in every file order
    if choice.ratio(1, 8) && !base.lib.elements.is_empty() && gates.want("VALID_DECLARATION_IN_TWO_FILES") {
        let chunks = chunks_of(&base.lib, gates);
        let d = chunks[choice.below(chunks.len())].clone();
        let mut files: Vec<String> = companions.clone();
        files.push(d.clone());
        files.push(d.clone());
        let n = files.len();
        let perms = permutations(n, 24, &mut choice);
        for perm in &perms {
            let arranged: Vec<String> = perm.iter().map(|&i| files[i].clone()).collect();
            let (ok, codes) = project_verdict(&arranged).map_err(|(k, d)| Failure::new("set", &k, d, json!({"files": arranged})))?;
            if counting {
                stats.case(true, hash_str(&arranged.join("\u{1}")));
                stats.class("set.valid-declaration-in-two-files");
            }
            if ok || !codes.iter().any(|x| x == "P0019" || x == "P0020") {
                return Err(Failure::new(
                    "set",
                    "same-name-collapsed",
                    format!("one declaration is present in two files of the set; verdict ok={} codes {:?} (a duplicate-name diagnostic is required)", ok, codes),
                    json!({"files": arranged, "kind": "valid-declaration-in-two-files"}),
                ));
            }
        }
        gates.take_wanted();
        return Ok(());
    }
    let faulty = match choice.below(6) {
        0 => {
            let mut s = chunks_of(&base.lib, gates).join("");
            let junk = *choice.pick(&["?", "@@", "(* never closed", "~"]);
            let at = if s.is_empty() { 0 } else { s.char_indices().map(|(i, _)| i).nth(choice.below(s.chars().count())).unwrap_or(0) };
            // insert at a line start to keep it simple
            let at = s[..at].rfind('\n').map(|p| p + 1).unwrap_or(0);
            s.insert_str(at, &format!("{}\n", junk));
            FaultyFile::Lexical(s)
        }
        1 => {
            // drop one token that makes the text unparsable: remove an END_* keyword line
            let s = chunks_of(&base.lib, gates).join("");
            let lines: Vec<&str> = s.lines().collect();
            let cands: Vec<usize> = lines.iter().enumerate().filter(|(_, l)| l.starts_with("END_") && !l.starts_with("END_IF")).map(|(i, _)| i).collect();
            if cands.is_empty() {
                FaultyFile::Syntax(format!("{}PROGRAM\n", s))
            } else {
                let k = cands[choice.below(cands.len())];
                let out: Vec<&str> = lines.iter().enumerate().filter(|(i, _)| *i != k).map(|(_, l)| *l).collect();
                FaultyFile::Syntax(out.join("\n") + "\n")
            }
        }
        _ => {
            // self-contained kinds, plus the invocation of a name that exists nowhere (checked below)
            let kinds: Vec<FaultKind> = ALL_FAULTS.iter().copied().filter(|k| (k.self_contained() || *k == FaultKind::CallNotInstance) && base.sites[k.index()] > 0).collect();
            if kinds.is_empty() {
                FaultyFile::Lexical("?\n".into())
            } else {
                // (a quarter of the time the enumeration-value fault, when the unit has a site for it: its
                // "value of another enumeration" shape is the one a companion file could wrongly cure)
                let k = if kinds.contains(&FaultKind::EnumInitNotMember) && choice.ratio(1, 4) { FaultKind::EnumInitNotMember } else { kinds[choice.below(kinds.len())] };
                let s = choice.below(base.sites[k.index()]);
                let mut ft2 = Tape::new(&ftape);
                let fu = gen_unit_with(&mut ft2, gates, &fp, Some((k, s)));
                let pl = fu.planted.clone().unwrap();
                if k == FaultKind::CallNotInstance && !pl.site_class.ends_with(".inserted-call") {
                    // the instance name may be declared by a companion: not self-contained
                    if counting {
                        stats.class("faulty-file-not-self-contained(skipped)");
                    }
                    gates.take_wanted();
                    return Ok(());
                }
                let elem = fu.lib.elements[pl.decl_index].clone();
                FaultyFile::Semantic(chunks_of(&fu.lib, gates), pl.decl_index, k, decl_name(&elem), elem, pl.marker.clone(), pl.site_class.clone())
            }
        }
    };
    // the faulty file's text, and optional same-name companion
    let (ftext, fclass, code, same_name): (String, &str, Option<&'static str>, Option<String>) = match &faulty {
        FaultyFile::Lexical(s) => (s.clone(), "lexical", None, None),
        FaultyFile::Syntax(s) => (s.clone(), "syntax", None, None),
        FaultyFile::Semantic(chunks, idx, kind, name, elem, marker, site_class) if site_class.ends_with(".value-of-other-enumeration") && marker.is_some() && choice.flag() => {
            // the value belongs to ANOTHER enumeration: that enumeration's declaration is moved out of
            // the faulty file into a file of its own.  Alone the faulty file fails (value not in the
            // variable's enumeration); adding the file that declares the other enumeration must not
            // make the value acceptable
            let m = marker.clone().unwrap().to_ascii_lowercase();
            let other = (0..chunks.len()).find(|&c| c != *idx && chunks[c].starts_with("TYPE") && chunks[c].to_ascii_lowercase().split(|ch: char| !(ch.is_ascii_alphanumeric() || ch == '_')).any(|w| w == m));
            let _ = (name, elem);
            match other {
                Some(o) => {
                    let text: String = (0..chunks.len()).filter(|&c| c != o).map(|c| chunks[c].clone()).collect();
                    if counting {
                        stats.class("set.semantic.other-enumeration-in-its-own-file");
                    }
                    (text, "semantic", Some(kind.code()), Some(chunks[o].clone()))
                }
                None => (chunks.concat(), "semantic", Some(kind.code()), None),
            }
        }
        FaultyFile::Semantic(chunks, idx, kind, name, elem, _, _) => {
            // position of the faulty declaration inside its file: rotate the chunks
            let mut order: Vec<usize> = (0..chunks.len()).collect();
            let rot = choice.below(chunks.len().max(1));
            order.rotate_left(rot);
            let text: String = order.iter().map(|&c| chunks[c].clone()).collect();
            let sn = match (name, choice.below(5)) {
                (Some(n), 1) if gates.want("SAME_NAME_COMPANION") => Some(valid_same_name(n, elem, 0)),
                (Some(n), 2) | (Some(n), 4) if gates.want("SAME_NAME_COMPANION") => Some(valid_same_name(n, elem, 1 + choice.below(8))),
                (Some(_), 3) if gates.want("SAME_NAME_COMPANION") => Some(chunks[*idx].clone()),
                _ => None,
            };
            (text, "semantic", Some(kind.code()), sn)
        }
    };
    // a comment header in front of the faulty file: description markers of the OSCAT library
    // convention (complete, reversed, opened and never closed, opened again after a complete
    // block), comment-like text inside comments.  A comment declares nothing and cures nothing
    let ftext = if choice.ratio(1, 4) && gates.want("COMMENT_HEADER_BEFORE_FAULTY_FILE") {
        const HEADERS: &[&str] = &[
            "(*@KEY@:DESCRIPTION*)\n",
            "(*@KEY@:END_DESCRIPTION*)\n",
            "(*@KEY@:DESCRIPTION*)\nversion 1.0, some text ; END_VAR\n(*@KEY@:END_DESCRIPTION*)\n",
            "(*@KEY@:END_DESCRIPTION*)\n(*@KEY@:DESCRIPTION*)\n",
            "(*@KEY@:DESCRIPTION*)\nv1\n(*@KEY@:END_DESCRIPTION*)\n(*@KEY@:DESCRIPTION*)\n",
            "(*@KEY@:DESCRIPTION*)(*@KEY@:DESCRIPTION*)\n(*@KEY@:END_DESCRIPTION*)\n",
            "(* (* looks nested *)\n",
            "(* { *)\n",
            "(* } *) (* ' *) (* \" *)\n",
            "(**)\n",
            "(* header *)",
        ];
        let h = *choice.pick(HEADERS);
        if counting {
            stats.class("faulty-file.comment-header");
        }
        // (behind the file only when the planted junk is not an unclosed comment, which the
        // header's `*)` would close)
        if choice.ratio(1, 5) && !ftext.contains("(* never closed") {
            format!("{}{}", ftext, h)
        } else {
            format!("{}{}", h, ftext)
        }
    } else {
        ftext
    };
    // F alone must fail (otherwise the case is not a C03 case)
    let alone = project_verdict(&[ftext.clone()]).map_err(|(k, d)| Failure::new("alone", &k, d, json!({"files": [ftext]})))?;
    if alone.0 {
        // the set that consists of the faulty file only is a set too ("whatever other files
        // accompany it" includes none); the planted shapes are the ones C02 verifies one by one
        gates.take_wanted();
        return Err(Failure::new("set", "error-masked", format!("the faulty file ({}) alone checks OK", fclass), json!({"files": [ftext], "kind": fclass})));
    }
    if let Some(c) = code {
        if !alone.1.iter().any(|x| x == c) {
            // C02's business
            if counting {
                stats.class("faulty-file-alone-other-code(skipped)");
            }
            gates.take_wanted();
            return Ok(());
        }
    }
    let mut files: Vec<String> = companions.clone();
    if let Some(sn) = &same_name {
        files.push(sn.clone());
    } else if choice.ratio(1, 4) && gates.want("UNSUPPORTED_FEATURE_COMPANION") {
        // a companion need not be valid for the set to have to fail: declarations that the pinned
        // tree answers with "not implemented" (P9999) - a rule that gives up on one declaration
        // must not thereby let the faulty one pass
        const UNSUPPORTED: &[&str] = &[
            "PROGRAM kx_p1\nVAR CONSTANT\nlim : ARRAY[1..3] OF INT := [1, 2, 3];\nEND_VAR\nEND_PROGRAM\n",
            "TYPE\nkx_st : STRUCT\na : INT;\nEND_STRUCT;\nEND_TYPE\nFUNCTION_BLOCK kx_fb\nVAR CONSTANT\nc : kx_st := (a := 1);\nEND_VAR\nEND_FUNCTION_BLOCK\n",
            "TYPE\nkx_si : INT := 5;\nEND_TYPE\n",
            "TYPE\nkx_s2 : STRUCT\na : INT;\nEND_STRUCT;\nEND_TYPE\nPROGRAM kx_p3\nVAR\ns : kx_s2;\nEND_VAR\ns.a := 1;\nEND_PROGRAM\n",
            "FUNCTION_BLOCK kx_inner\nVAR_INPUT\ni : INT;\nEND_VAR\nEND_FUNCTION_BLOCK\nFUNCTION_BLOCK kx_outer\nVAR CONSTANT\nf : kx_inner;\nEND_VAR\nEND_FUNCTION_BLOCK\n",
        ];
        let k = 1 + choice.below(2);
        for _ in 0..k {
            let u = (*choice.pick(UNSUPPORTED)).to_string();
            if !files.contains(&u) {
                files.push(u);
            }
        }
        if counting {
            stats.class("set.with-unsupported-feature-companion");
        }
    }
    files.push(ftext.clone());
    let n = files.len();
    let fidx = n - 1;
    let perms = permutations(n, 24, &mut choice);
    for perm in &perms {
        let arranged: Vec<String> = perm.iter().map(|&i| files[i].clone()).collect();
        let reps = if same_name.is_some() { 4 } else { 1 };
        for _ in 0..reps {
            let (ok, codes) = project_verdict(&arranged).map_err(|(k, d)| Failure::new("set", &k, d, json!({"files": arranged})))?;
            if counting {
                stats.case(n >= 2, hash_str(&arranged.join("\u{1}")));
                stats.class(&format!("set.{}{}", fclass, if same_name.is_some() { ".same-name" } else { "" }));
            }
            if ok {
                return Err(Failure::new(
                    "set",
                    "error-masked",
                    format!(
                        "the set checks OK although file #{} is faulty ({}; alone it fails with {:?}){}",
                        perm.iter().position(|&i| i == fidx).unwrap(),
                        fclass,
                        alone.1,
                        if same_name.is_some() { "; a companion declares the same name" } else { "" }
                    ),
                    json!({"files": arranged, "faulty_index": perm.iter().position(|&i| i == fidx), "kind": fclass, "alone_codes": alone.1}),
                ));
            }
            if same_name.is_some() {
                let c = code.unwrap_or("");
                if !codes.iter().any(|x| x == c || x == "P0019" || x == "P0020") {
                    return Err(Failure::new(
                        "set",
                        "same-name-collapsed",
                        format!("two declarations share a name; the failure {:?} contains neither the fault's code {} nor a duplicate-name code", codes, c),
                        json!({"files": arranged, "kind": fclass, "alone_codes": alone.1}),
                    ));
                }
            }
        }
    }
    // the same project object over time: the set is first analysed with a harmless text in the faulty
    // file's place (a project that lives in an editor is analysed again and again), then that document
    // is changed to the faulty text - the set as it stands now contains the faulty file, so it fails
    if same_name.is_none() {
        let arranged = files.clone();
        let r = crate::panicx::catch(|| {
            let mut p = FileBackedProject::new();
            for (i, t) in arranged.iter().enumerate() {
                let text = if i == fidx { "(* nothing yet *)\n".to_string() } else { t.clone() };
                p.change_text_document(&FileId::from_string(&crate::drive::set_file_name(i)), text);
            }
            let first = p.semantic().is_ok();
            p.change_text_document(&FileId::from_string(&crate::drive::set_file_name(fidx)), arranged[fidx].clone());
            let second = p.semantic().is_ok();
            // (and a third time, unchanged: the answer does not wear off)
            let third = p.semantic().is_ok();
            (first, second, third)
        })
        .map_err(|(loc, msg)| Failure::new("set-history", "panic", format!("Project::semantic: {} {}", loc, msg), json!({"files": arranged})))?;
        if counting {
            stats.class("set.history.faulty-text-arrives-after-an-analysis");
        }
        if r.1 || r.2 {
            return Err(Failure::new(
                "set-history",
                "error-masked",
                format!("a project analysed once (ok={}) whose file #{} is then changed to the faulty text ({}) checks OK (second analysis ok={}, third ok={})", r.0, fidx, fclass, r.1, r.2),
                json!({"files": arranged, "faulty_index": fidx, "kind": fclass}),
            ));
        }
    }
    // the binary: files and directory
    if counting && cli_budget.fetch_sub(1, std::sync::atomic::Ordering::Relaxed) > 0 {
        let dir = Scratch::new("c03");
        let mut paths = vec![];
        for (i, tx) in files.iter().enumerate() {
            paths.push(dir.write(&crate::drive::set_file_name(i), tx.as_bytes()).to_string_lossy().to_string());
        }
        for rep in 0..3 {
            let mut args = vec!["check".to_string()];
            if rep == 2 {
                args.push(dir.path.to_string_lossy().to_string());
            } else {
                let mut ps = paths.clone();
                if rep == 1 {
                    ps.reverse();
                }
                args.extend(ps);
            }
            let out = run_cli(&args, None);
            stats.class("cli.check-run");
            if out.timed_out {
                stats.inconclusive += 1;
                continue;
            }
            if out.status == Some(0) || out.stdout.lines().any(|l| l.trim() == "OK") {
                return Err(Failure::new(
                    "cli",
                    "error-masked",
                    format!("`ironplcc {}` exits {:?} / prints OK although one file is faulty ({})", if rep == 2 { "check <dir>" } else { "check f1 f2 .." }, out.status, fclass),
                    json!({"files": files, "kind": fclass, "stdout": out.stdout}),
                ));
            }
        }
    }
    if counting {
        stats.absorb_gates(gates);
        if stats.samples.len() < 3 && n >= 2 {
            stats.samples.push(json!({"faulty_kind": fclass, "code": code, "files": files, "orders_checked": perms.len()}));
        }
    } else {
        gates.take_wanted();
    }
    Ok(())
}

/// "Wrong cure" grid (deterministic): a faulty file whose fault names something that does not exist
/// in the way it is used, plus a valid companion that declares that name in a way that must NOT
/// cure the fault (another enumeration, another scope, another configuration).  The faulty file
/// alone fails with the code; the set must fail with that code in every file order and as one file.
fn cure_grid() -> Vec<(&'static str, &'static str, String, String)> {
    let fb_level = "TYPE\ncg_level : (cg_info, cg_warn);\nEND_TYPE\n";
    vec![
        ("prefixed value of another enumeration", "P0014", format!("{}FUNCTION_BLOCK cg_user\nVAR\ncg_x : cg_level := cg_color#cg_red;\nEND_VAR\nEND_FUNCTION_BLOCK\n", fb_level), "TYPE\ncg_color : (cg_red, cg_green);\nEND_TYPE\n".to_string()),
        ("value of another enumeration", "P0014", format!("{}FUNCTION_BLOCK cg_user\nVAR\ncg_x : cg_level := cg_red;\nEND_VAR\nEND_FUNCTION_BLOCK\n", fb_level), "TYPE\ncg_color : (cg_red, cg_green);\nEND_TYPE\n".to_string()),
        ("value of another enumeration in a structure element", "P0014", format!("{}TYPE\ncg_s : STRUCT\ncg_e : cg_level := cg_red;\nEND_STRUCT;\nEND_TYPE\n", fb_level), "TYPE\ncg_color : (cg_red, cg_green);\nEND_TYPE\n".to_string()),
        ("variable of another function block", "P0015", "FUNCTION_BLOCK cg_user\nVAR\ncg_y : INT;\nEND_VAR\ncg_y := cg_other;\nEND_FUNCTION_BLOCK\n".to_string(), "FUNCTION_BLOCK cg_owner\nVAR\ncg_other : INT;\nEND_VAR\ncg_other := 1;\nEND_FUNCTION_BLOCK\n".to_string()),
        ("global variable without VAR_EXTERNAL", "P0015", "PROGRAM cg_user\nVAR\ncg_y : INT;\nEND_VAR\ncg_y := cg_glob;\nEND_PROGRAM\n".to_string(), "CONFIGURATION cg_conf\nVAR_GLOBAL\ncg_glob : INT := 1;\nEND_VAR\nRESOURCE cg_res ON cg_cpu\nPROGRAM cg_inst : cg_user;\nEND_RESOURCE\nEND_CONFIGURATION\n".to_string()),
        ("instance of another program", "P0021", "FUNCTION_BLOCK cg_timer\nVAR_INPUT\ncg_in : INT;\nEND_VAR\nEND_FUNCTION_BLOCK\nPROGRAM cg_user\nVAR\ncg_y : INT;\nEND_VAR\ncg_tmr(cg_in := 1);\nEND_PROGRAM\n".to_string(), "FUNCTION_BLOCK cg_timer2\nVAR_INPUT\ncg_in : INT;\nEND_VAR\nEND_FUNCTION_BLOCK\nPROGRAM cg_owner\nVAR\ncg_tmr : cg_timer2;\nEND_VAR\ncg_tmr(cg_in := 2);\nEND_PROGRAM\n".to_string()),
        ("instance taken by reference in a function", "P0021", "FUNCTION_BLOCK cg_timer\nVAR_INPUT\ncg_in : INT;\nEND_VAR\nEND_FUNCTION_BLOCK\nPROGRAM cg_user\nVAR\ncg_y : INT;\nEND_VAR\ncg_tmr(cg_in := 1);\nEND_PROGRAM\n".to_string(), "FUNCTION_BLOCK cg_timer2\nVAR_INPUT\ncg_in : INT;\nEND_VAR\nEND_FUNCTION_BLOCK\nFUNCTION cg_owner : INT\nVAR_IN_OUT\ncg_tmr : cg_timer2;\nEND_VAR\ncg_tmr(cg_in := 2);\ncg_owner := 1;\nEND_FUNCTION\n".to_string()),
        ("task of another configuration", "P0011", "PROGRAM cg_prog\nVAR\ncg_y : INT;\nEND_VAR\ncg_y := 1;\nEND_PROGRAM\nCONFIGURATION cg_conf\nRESOURCE cg_res ON cg_cpu\nPROGRAM cg_inst WITH cg_fast : cg_prog;\nEND_RESOURCE\nEND_CONFIGURATION\n".to_string(), "CONFIGURATION cg_conf2\nRESOURCE cg_res2 ON cg_cpu\nTASK cg_fast(INTERVAL := T#10ms, PRIORITY := 1);\nPROGRAM cg_inst2 WITH cg_fast : cg_prog;\nEND_RESOURCE\nEND_CONFIGURATION\n".to_string()),
        ("constant initialised elsewhere", "P0016", "FUNCTION_BLOCK cg_user\nVAR CONSTANT\ncg_k : INT;\nEND_VAR\nEND_FUNCTION_BLOCK\n".to_string(), "FUNCTION_BLOCK cg_owner\nVAR CONSTANT\ncg_k : INT := 5;\nEND_VAR\nEND_FUNCTION_BLOCK\n".to_string()),
        // declarations WITHOUT any variable of their own, next to declarations whose variables are named
        // like the faulty declaration or like the undeclared name, of several types (a transform that
        // keeps per-declaration tables must not carry them from one declaration to the next)
        ("function without variables; a companion's enumeration variable is named like the function", "P0015", "FUNCTION cg_f : INT\ncg_f := cg_missing;\nEND_FUNCTION\n".to_string(), format!("{}FUNCTION_BLOCK cg_owner\nVAR\ncg_f : cg_level := cg_info;\nEND_VAR\nEND_FUNCTION_BLOCK\n", fb_level)),
        ("function without variables; a companion's integer variable is named like the function", "P0015", "FUNCTION cg_f : INT\ncg_f := cg_missing;\nEND_FUNCTION\n".to_string(), "FUNCTION_BLOCK cg_owner\nVAR\ncg_f : INT := 1;\nEND_VAR\nEND_FUNCTION_BLOCK\n".to_string()),
        ("function without variables; a companion's enumeration variable is named like the undeclared name", "P0015", "FUNCTION cg_f : INT\ncg_f := cg_missing;\nEND_FUNCTION\n".to_string(), format!("{}PROGRAM cg_owner\nVAR\ncg_missing : cg_level := cg_warn;\nEND_VAR\nEND_PROGRAM\n", fb_level)),
        ("program without variables; a companion's variable is named like the undeclared target", "P0015", "PROGRAM cg_p\ncg_q := 1;\nEND_PROGRAM\n".to_string(), format!("{}FUNCTION_BLOCK cg_owner\nVAR\ncg_q : cg_level := cg_info;\ncg_p : INT;\nEND_VAR\nEND_FUNCTION_BLOCK\n", fb_level)),
        ("function block without variables; a companion function is named like the undeclared name", "P0015", "FUNCTION_BLOCK cg_b\ncg_g := cg_g + 1;\nEND_FUNCTION_BLOCK\n".to_string(), "FUNCTION cg_g : INT\nVAR_INPUT\ncg_i : INT;\nEND_VAR\ncg_g := cg_i;\nEND_FUNCTION\n".to_string()),
        // a constant global with a non-constant external: a companion configuration that has a PLAIN
        // global of the same name (at configuration or at resource level) cures nothing
        (
            "constant global; a companion configuration has a plain global of that name",
            "P0018",
            "FUNCTION_BLOCK cg_fb\nVAR_EXTERNAL\ncg_lim : INT;\nEND_VAR\nEND_FUNCTION_BLOCK\nPROGRAM cg_prog\nVAR\ncg_i : cg_fb;\nEND_VAR\nEND_PROGRAM\nCONFIGURATION cg_conf\nVAR_GLOBAL CONSTANT\ncg_lim : INT := 5;\nEND_VAR\nRESOURCE cg_res ON cg_cpu\nPROGRAM cg_inst : cg_prog;\nEND_RESOURCE\nEND_CONFIGURATION\n".to_string(),
            "PROGRAM cg_prog2\nVAR\ncg_y : INT;\nEND_VAR\ncg_y := 1;\nEND_PROGRAM\nCONFIGURATION cg_conf2\nVAR_GLOBAL\ncg_lim : INT := 1;\nEND_VAR\nRESOURCE cg_res2 ON cg_cpu\nPROGRAM cg_inst2 : cg_prog2;\nEND_RESOURCE\nEND_CONFIGURATION\n".to_string(),
        ),
        (
            "constant global; a companion configuration has a plain global of that name in its resource",
            "P0018",
            "FUNCTION_BLOCK cg_fb\nVAR_EXTERNAL\ncg_lim : INT;\nEND_VAR\nEND_FUNCTION_BLOCK\nPROGRAM cg_prog\nVAR\ncg_i : cg_fb;\nEND_VAR\nEND_PROGRAM\nCONFIGURATION cg_conf\nVAR_GLOBAL CONSTANT\ncg_lim : INT := 5;\nEND_VAR\nRESOURCE cg_res ON cg_cpu\nPROGRAM cg_inst : cg_prog;\nEND_RESOURCE\nEND_CONFIGURATION\n".to_string(),
            "PROGRAM cg_prog2\nVAR\ncg_y : INT;\nEND_VAR\ncg_y := 1;\nEND_PROGRAM\nCONFIGURATION cg_conf2\nRESOURCE cg_res2 ON cg_cpu\nVAR_GLOBAL\ncg_lim : INT := 1;\nEND_VAR\nPROGRAM cg_inst2 : cg_prog2;\nEND_RESOURCE\nEND_CONFIGURATION\n".to_string(),
        ),
        // a standard function block that is "valid but not implemented" (P0029) is not made
        // implemented by a TYPE that happens to carry its name
        ("standard function block type; a companion declares a structure of that name", "P0029", "FUNCTION_BLOCK cg_user\nVAR\ncg_t : TON;\nEND_VAR\nEND_FUNCTION_BLOCK\n".to_string(), "TYPE\nTON : STRUCT\ncg_m : INT;\nEND_STRUCT;\nEND_TYPE\n".to_string()),
        ("standard function block type; a companion declares an enumeration of that name in another case", "P0029", "PROGRAM cg_user\nVAR\ncg_c : CTU;\nEND_VAR\nEND_PROGRAM\n".to_string(), "TYPE\nctu : (cg_a, cg_b);\nEND_TYPE\n".to_string()),
        ("standard function block type; a companion declares a string type of that name", "P0029", "FUNCTION_BLOCK cg_user\nVAR\ncg_r : R_TRIG;\nEND_VAR\nEND_FUNCTION_BLOCK\n".to_string(), "TYPE\nR_Trig : STRING[8];\nEND_TYPE\n".to_string()),
        ("unknown type that is a function block elsewhere", "P0022", "FUNCTION_BLOCK cg_user\nVAR\ncg_v : cg_missing;\nEND_VAR\nEND_FUNCTION_BLOCK\n".to_string(), "FUNCTION_BLOCK cg_owner\nVAR\ncg_missing : INT;\nEND_VAR\nEND_FUNCTION_BLOCK\n".to_string()),
    ]
}

fn run_cure_grid(rep: &mut Report) {
    let cells = cure_grid();
    let n = cells.len();
    let out = run_items(&cells, 4, |(name, code, faulty, companion), stats| {
        let fail = |kind: &str, detail: String, files: Vec<String>| Failure::new("cure-grid", kind, format!("{}: {}", name, detail), json!({"files": files, "kind": "cure-grid", "code": code}));
        // precondition: the faulty file alone fails with the code, the companion alone is accepted
        let alone = project_verdict(&[faulty.clone()]).map_err(|(k, d)| fail(&k, d, vec![faulty.clone()]))?;
        let comp = project_verdict(&[companion.clone()]).map_err(|(k, d)| fail(&k, d, vec![companion.clone()]))?;
        if alone.0 || !alone.1.iter().any(|c| c == code) || !(comp.0 || comp.1.iter().all(|c| c == "P9999")) {
            stats.case(false, hash_str(name));
            stats.class("cure-grid.precondition-not-met(skipped)");
            stats.notes.push(format!("cure grid cell skipped ({}): faulty alone ok={} codes {:?}; companion alone ok={} codes {:?}", name, alone.0, alone.1, comp.0, comp.1));
            return Ok(());
        }
        let sets: Vec<Vec<String>> = vec![vec![faulty.clone(), companion.clone()], vec![companion.clone(), faulty.clone()], vec![format!("{}{}", faulty, companion)], vec![format!("{}{}", companion, faulty)]];
        for files in sets {
            for _ in 0..2 {
                let (ok, codes) = project_verdict(&files).map_err(|(k, d)| fail(&k, d, files.clone()))?;
                stats.case(true, hash_str(&format!("{}{}", name, files.join("\u{1}"))));
                stats.class("cure-grid.set");
                if ok || !codes.iter().any(|c| c == code) {
                    return Err(fail("error-masked", format!("alone the file fails with {:?}; next to a valid companion that declares the name elsewhere the set gives ok={} codes {:?}", alone.1, ok, codes), files));
                }
            }
        }
        Ok(())
    });
    rep.add(out);
    rep.extra.insert("cure_grid_cells".into(), json!(n));
}

pub fn run(ctx: &Ctx) -> i32 {
    let clock = Clock::start();
    let mut rep = Report::new(
        "C03",
        ctx.tier,
        ctx.seed,
        "fault_enumeration",
        "faulty unit F (file that does not tokenize / file with a syntax error / unit with one self-contained planted semantic fault, the faulty declaration at every rotation position of its file) among 0..4 valid companion files with disjoint names, optionally plus a companion that re-declares the faulty declaration's name (valid same kind, different kind, identical copy): ALL file orders (<= 4 files exhaustive, 24 sampled beyond). Project::semantic() on an in-memory project must fail (same-name sets: with the fault's code or P0019/P0020; 4 fresh projects each because file order inside the project is hash-seeded); `ironplcc check f..` in both argument orders and `check <dir>` must exit non-zero without printing OK (sample). Plus the 'wrong cure' grid: faults that name something a valid companion declares elsewhere (another enumeration, another scope, another configuration) must still fail with their code in both file orders and as one file. Non-trivial: >= 1 companion; distinct by the ordered file texts.",
    );
    let gates = ctx.gates_for("C03");
    let off = gates.off_list();
    run_cure_grid(&mut rep);
    let cases = ctx.tier.pick(15_000, 300_000);
    let cli_budget = std::sync::atomic::AtomicI64::new(ctx.tier.pick(100, 3000));
    let out = run_tapes("C03", ctx.seed, ctx.threads, cases, 900, |tape, stats, counting| {
        let g = Gates::with_off(off.clone());
        check_tape(tape, &g, stats, counting, &cli_budget)
    });
    rep.add(out);
    crate::fuzzrun::tape_campaign(ctx, &mut rep, "C03", &gates);
    rep.replay_witnesses(&ctx.findings, &|w| witness(w));
    rep.extra.insert("gates_off".into(), json!(off));
    rep.assumptions = vec!["faults whose diagnosis needs another declaration ('undeclared' codes P0012/P0015/P0021/P0022 by construction of the fault) are exempt as the property says; only self-contained fault kinds are planted".into()];
    rep.wall_s = clock.secs();
    rep.finish()
}

/// witness {"kind":"set_must_fail","files":[..]} | {"kind":"same_name","files":[..],"code":"P0003"}
pub fn witness(w: &Value) -> Result<(), String> {
    let files: Vec<String> = w["files"].as_array().map(|a| a.iter().filter_map(|x| x.as_str().map(String::from)).collect()).unwrap_or_default();
    // every order, several fresh projects
    let n = files.len();
    let mut t = Tape::empty();
    for perm in permutations(n, 24, &mut t) {
        let arranged: Vec<String> = perm.iter().map(|&i| files[i].clone()).collect();
        for _ in 0..6 {
            let (ok, codes) = project_verdict(&arranged).map_err(|(k, d)| format!("{}: {}", k, d))?;
            if ok {
                return Err(format!("order {:?}: the set checks OK", perm));
            }
            if w["kind"] == "same_name" {
                let c = w["code"].as_str().unwrap_or("");
                if !codes.iter().any(|x| x == c || x == "P0019" || x == "P0020") {
                    return Err(format!("order {:?}: codes {:?} contain neither {} nor a duplicate-name code", perm, codes, c));
                }
            }
        }
    }
    Ok(())
}

pub fn replay(ctx: &Ctx, v: &Value) -> i32 {
    let files = v["inputs"]["files"].clone();
    let kind = if v["kind"] == "same-name-collapsed" { "same_name" } else { "set_must_fail" };
    let w = if v["check"] == "witness" { v["inputs"].clone() } else { json!({"kind": kind, "files": files, "code": v["inputs"]["alone_codes"][0]}) };
    match witness(&w) {
        Ok(()) => {
            println!("replay: property holds on this input");
            0
        }
        Err(e) => {
            println!("VIOLATION property=C03 replay={}", ctx.replay_path.clone().unwrap_or_default());
            eprintln!("{}", e);
            1
        }
    }
}

/// one tape through the in-process oracle (used by the coverage-guided `tapes` fuzz target)
pub fn fuzz_one(tape: &[u8], gates: &Gates) -> Result<(), Failure> {
    let mut s = Stats::default();
    let zero = std::sync::atomic::AtomicI64::new(0);
    check_tape(tape, gates, &mut s, false, &zero)
}

//! C08 – letter case, layout and comments never change what a program means.
//!
//! Metamorphic: the same lexeme stream (same model, same production choices) is
//! laid out twice – canonically and with per-keyword / per-identifier case
//! choices and random trivia at every joint.  Both texts must parse to equal
//! libraries (derived equality ignores positions and identifier case) and
//! `analyze` must report the same multiset of problem codes.

use crate::gates::Gates;
use crate::gen_syntax::Gen;
use crate::lexeme::{layout, Class, Lexeme, SpellOpts, TriviaKind};
use crate::printer::Printer;
use crate::report::Report;
use crate::runner::*;
use crate::tape::Tape;
use crate::Ctx;
use ironplc_analyzer::stages::analyze;
use ironplc_dsl::common::Library;
use ironplc_dsl::core::FileId;
use ironplc_parser::options::ParseOptions;
use ironplc_parser::parse_program;
use serde_json::{json, Value};

pub fn parse(text: &str, name: &str) -> Result<Result<Library, String>, (String, String)> {
    let fid = FileId::from_string(name);
    crate::panicx::catch(|| parse_program(text, &fid, &ParseOptions::default()))
        .map(|r| r.map_err(|d| format!("{} {} at {}..{}", d.code, d.primary.message.chars().take(200).collect::<String>(), d.primary.location.start, d.primary.location.end)))
}

pub fn codes(lib: &Library) -> Result<Vec<String>, (String, String)> {
    crate::panicx::catch(|| match analyze(&[lib]) {
        Ok(()) => vec![],
        Err(ds) => {
            let mut v: Vec<String> = ds.iter().map(|d| d.code.clone()).collect();
            v.sort();
            v
        }
    })
}

pub fn opts_for(gates: &Gates) -> SpellOpts {
    let mut o = SpellOpts::wild();
    o.formfeed = gates.want("TRIVIA_FORM_FEED");
    o.tight_trivia = gates.want("TRIVIA_AT_TIGHT_JOINTS");
    o.textkw_case = gates.want("TEXT_KEYWORD_CASE");
    o.star_comments = gates.want("COMMENT_ENDING_IN_STAR_RUN");
    o.line_comments = gates.want("TRIVIA_LINE_COMMENT");
    o.touch = gates.want("LEXEMES_MAY_TOUCH");
    o
}

pub fn compare_texts(canon: &str, respelled: &str) -> Result<(), (String, String)> {
    let a = match parse(canon, "canon.st") {
        Ok(Ok(l)) => l,
        // canonical spelling not accepted: C01's business, not a C08 case
        Ok(Err(_)) => return Ok(()),
        Err((loc, msg)) => return Err(("panic".into(), format!("canonical text: {} {}", loc, msg))),
    };
    let b = match parse(respelled, "respelled.st") {
        Ok(Ok(l)) => l,
        Ok(Err(e)) => return Err(("respelled-rejected".into(), format!("canonical spelling parses, re-spelled text is rejected: {}", e))),
        Err((loc, msg)) => return Err(("panic".into(), format!("respelled text: {} {}", loc, msg))),
    };
    if a != b {
        return Err(("library-differs".into(), crate::astwalk::debug_diff_ci(&a, &b)));
    }
    let ca = codes(&a);
    let cb = codes(&b);
    match (ca, cb) {
        (Ok(x), Ok(y)) => {
            if x != y {
                return Err(("verdict-differs".into(), format!("codes canonical {:?} vs re-spelled {:?}", x, y)));
            }
        }
        (Err(_), Err(_)) => {} // same crash on both: C04's business
        (x, y) => return Err(("verdict-differs".into(), format!("analysis panics on one spelling only: {:?} vs {:?}", x.is_ok(), y.is_ok()))),
    }
    Ok(())
}

pub struct Pair {
    pub canon: String,
    pub respelled: String,
    pub kw_changed: usize,
    pub id_changed: usize,
    pub nonblank_trivia: usize,
    pub lexemes: Vec<Lexeme>,
    pub spelled: Vec<String>,
}

pub fn build_pair(tape: &[u8], gates: &Gates, opts: &SpellOpts, valid: bool) -> Pair {
    let (lexemes, rest): (Vec<Lexeme>, Vec<u8>) = if valid {
        let mut t = Tape::new(tape);
        let unit = crate::gen_valid::gen_unit(&mut t, gates, &crate::gen_valid::Profile::default());
        let lib = crate::gen_valid::lower(&unit);
        let mut p = Printer::new(gates, t.rest());
        p.library(&lib);
        let rest = p.t.rest().to_vec();
        (p.finish(), rest)
    } else {
        let mut g = Gen::new(gates, Tape::new(tape));
        let lib = g.library(3);
        let mut p = Printer::new(gates, g.t.rest());
        p.library(&lib);
        let rest = p.t.rest().to_vec();
        (p.finish(), rest)
    };
    // the optional ';' after END_IF: the canonical text writes every one, the re-spelled text
    // writes or omits each occurrence independently
    let is_end_if = |l: &Lexeme| l.text == "END_IF" && l.class == Class::Keyword;
    let mut canon_lex: Vec<Lexeme> = Vec::with_capacity(lexemes.len() + 8);
    for (i, l) in lexemes.iter().enumerate() {
        canon_lex.push(l.clone());
        if is_end_if(l) && lexemes.get(i + 1).map(|n| n.text != ";").unwrap_or(true) {
            canon_lex.push(Lexeme { text: ";".into(), class: Class::Punct, join: crate::lexeme::Join::Tight, mark: None });
        }
    }
    let mut lt = Tape::new(&rest);
    let mut end_if_toggled = 0usize;
    let mut lexemes: Vec<Lexeme> = Vec::with_capacity(canon_lex.len());
    let mut i = 0;
    while i < canon_lex.len() {
        lexemes.push(canon_lex[i].clone());
        if is_end_if(&canon_lex[i]) && lt.ratio(1, 2) {
            // omit this END_IF's semicolon (gated: directly after another END_IF without one)
            let after_bare_end_if = lexemes.len() >= 2 && is_end_if(&lexemes[lexemes.len() - 2]);
            if !after_bare_end_if || gates.want("END_IF_WITHOUT_SEMICOLON_AFTER_END_IF") {
                i += 1; // skip the ';'
                end_if_toggled += 1;
            }
        }
        i += 1;
    }
    if end_if_toggled > 0 {
        gates.hit("c08.end_if.semicolon-omitted");
    }
    let (canon, _) = layout(&canon_lex, &SpellOpts::canonical(), &mut Tape::empty());
    let (resp, spelled) = layout(&lexemes, opts, &mut lt);
    let mut kw_changed = 0;
    let mut id_changed = 0;
    for (lx, sp) in lexemes.iter().zip(spelled.iter()) {
        if &lx.text != sp {
            match lx.class {
                Class::Ident => id_changed += 1,
                _ => kw_changed += 1,
            }
        }
    }
    let nonblank_trivia = resp.pieces.iter().filter(|p| matches!(p.trivia, Some(TriviaKind::Comment) | Some(TriviaKind::Newline))).count();
    Pair { canon: canon.text, respelled: resp.text, kw_changed, id_changed, nonblank_trivia, lexemes, spelled }
}

fn check_tape(tape: &[u8], gates: &Gates, stats: &mut Stats, counting: bool, valid: bool) -> Result<(), Failure> {
    let opts = opts_for(gates);
    let pair = build_pair(tape, gates, &opts, valid);
    if counting {
        let nt = pair.kw_changed >= 1 && pair.id_changed >= 1 && pair.nonblank_trivia >= 1;
        stats.case(nt, hash_str(&pair.respelled));
        stats.absorb_gates(gates);
        stats.class(if valid { "model.valid-program" } else { "model.syntactic" });
        // keyword census: which keywords were spelled in lower / mixed case
        for (lx, sp) in pair.lexemes.iter().zip(pair.spelled.iter()) {
            if matches!(lx.class, Class::Keyword | Class::TypeKw | Class::WordOp) && &lx.text != sp {
                *stats.productions.entry(format!("kwcase.{}", lx.text)).or_insert(0) += 1;
            }
        }
        let r = pair.respelled.clone();
        stats.sample(3, || json!(r));
    } else {
        gates.take_hits();
        gates.take_wanted();
    }
    compare_texts(&pair.canon, &pair.respelled)
        .map_err(|(kind, detail)| Failure::new(if valid { "respell-valid" } else { "respell-syntactic" }, &kind, detail, json!({"canonical": pair.canon, "respelled": pair.respelled})))
}

pub fn run(ctx: &Ctx) -> i32 {
    let clock = Clock::start();
    let mut rep = Report::new(
        "C08",
        ctx.tier,
        ctx.seed,
        "exploration",
        "one lexeme stream (C01 syntactic generator and C02 valid-program generator) laid out canonically and re-spelled: independent letter case per keyword occurrence and per identifier occurrence, random trivia (blanks, tabs, LF, CRLF, comments incl. multi-line / nested-looking / non-ASCII) at every joint where IEC permits white space, optional ';' after END_IF. Oracle: both parse, libraries equal (derived ==), same multiset of analyze() codes. Non-trivial: >=1 keyword and >=1 identifier re-cased and >=1 comment or line break inserted; distinct by hash of the re-spelled text.",
    );
    let gates = ctx.gates_for("C08");
    let off = gates.off_list();
    let cases = ctx.tier.pick(150_000, 2_000_000);
    for valid in [false, true] {
        let out = run_tapes(if valid { "C08v" } else { "C08s" }, ctx.seed, ctx.threads, cases, 1200, |tape, stats, counting| {
            let g = Gates::with_off(off.clone());
            check_tape(tape, &g, stats, counting, valid)
        });
        rep.add(out);
    }
    // keyword census health: every keyword the generators can emit must have been re-cased at least once
    let censused = rep.stats.productions.keys().filter(|k| k.starts_with("kwcase.")).count();
    rep.extra.insert("keywords_recased".into(), json!(censused));
    crate::fuzzrun::tape_campaign(ctx, &mut rep, "C08", &gates);
    rep.replay_witnesses(&ctx.findings, &|w| witness(w));
    rep.extra.insert("gates_off".into(), json!(off));
    rep.wall_s = clock.secs();
    rep.finish()
}

/// witness {"kind":"same_meaning","a":canonical,"b":respelled}
pub fn witness(w: &Value) -> Result<(), String> {
    let a = w["a"].as_str().ok_or("witness without a")?;
    let b = w["b"].as_str().ok_or("witness without b")?;
    // the canonical text must parse, otherwise the witness is stale
    match parse(a, "a.st") {
        Ok(Ok(_)) => {}
        _ => return Err("canonical witness text no longer parses".into()),
    }
    compare_texts(a, b).map_err(|(k, d)| format!("{}: {}", k, d))
}

pub fn replay(ctx: &Ctx, v: &Value) -> i32 {
    let a = v["inputs"]["canonical"].as_str().or(v["inputs"]["a"].as_str()).unwrap_or("");
    let b = v["inputs"]["respelled"].as_str().or(v["inputs"]["b"].as_str()).unwrap_or("");
    match compare_texts(a, b) {
        Ok(()) => {
            println!("replay: property holds on this input");
            0
        }
        Err((k, d)) => {
            println!("VIOLATION property=C08 replay={}", ctx.replay_path.clone().unwrap_or_default());
            eprintln!("{}: {}", k, d);
            1
        }
    }
}

/// one tape through the in-process oracle, both generators (used by the coverage-guided `tapes` fuzz target)
pub fn fuzz_one(tape: &[u8], gates: &Gates) -> Result<(), Failure> {
    let mut s = Stats::default();
    check_tape(tape, gates, &mut s, false, false)?;
    check_tape(tape, gates, &mut s, false, true)
}

pub mod c01;

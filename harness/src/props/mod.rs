pub mod c01;
pub mod c02;
pub mod c03;
pub mod c04;
pub mod c05;
pub mod c06;
pub mod c07;
pub mod c08;
pub mod c09;
pub mod c10;
pub mod c11;
pub mod c12;
pub mod c13;
pub mod c14;
pub mod c15;

use crate::gates::Gates;
use crate::runner::Failure;
use crate::Ctx;
use serde_json::Value;

/// properties whose tape oracle runs entirely in-process: these also get a coverage-guided
/// libFuzzer campaign over choice tapes in the thorough tier (`fuzzrun.rs`, `fuzz/tapes`)
pub const TAPE_FUZZABLE: &[&str] = &["C01", "C02", "C03", "C05", "C06", "C08", "C09", "C10"];

pub fn fuzz_one(prop: &str, tape: &[u8], gates: &Gates) -> Result<(), Failure> {
    let r = match prop {
        "C01" => c01::fuzz_one(tape, gates),
        "C02" => c02::fuzz_one(tape, gates),
        "C03" => c03::fuzz_one(tape, gates),
        "C05" => c05::fuzz_one(tape, gates),
        "C06" => c06::fuzz_one(tape, gates),
        "C08" => c08::fuzz_one(tape, gates),
        "C09" => c09::fuzz_one(tape, gates),
        "C10" => c10::fuzz_one(tape, gates),
        _ => Ok(()),
    };
    gates.take_hits();
    gates.take_wanted();
    r
}

pub fn run(id: &str, ctx: &Ctx) -> i32 {
    match id {
        "C01" => c01::run(ctx),
        "C02" => c02::run(ctx),
        "C03" => c03::run(ctx),
        "C04" => c04::run(ctx),
        "C05" => c05::run(ctx),
        "C06" => c06::run(ctx),
        "C07" => c07::run(ctx),
        "C08" => c08::run(ctx),
        "C09" => c09::run(ctx),
        "C10" => c10::run(ctx),
        "C11" => c11::run(ctx),
        "C12" => c12::run(ctx),
        "C13" => c13::run(ctx),
        "C14" => c14::run(ctx),
        "C15" => c15::run(ctx),
        _ => {
            eprintln!("unknown property {}", id);
            2
        }
    }
}

pub fn replay(id: &str, ctx: &Ctx, v: &Value) -> i32 {
    match id {
        "C01" => c01::replay(ctx, v),
        "C02" => c02::replay(ctx, v),
        "C03" => c03::replay(ctx, v),
        "C04" => c04::replay(ctx, v),
        "C05" => c05::replay(ctx, v),
        "C06" => c06::replay(ctx, v),
        "C07" => c07::replay(ctx, v),
        "C08" => c08::replay(ctx, v),
        "C09" => c09::replay(ctx, v),
        "C10" => c10::replay(ctx, v),
        "C11" => c11::replay(ctx, v),
        "C12" => c12::replay(ctx, v),
        "C13" => c13::replay(ctx, v),
        "C14" => c14::replay(ctx, v),
        "C15" => c15::replay(ctx, v),
        _ => {
            eprintln!("unknown property {}", id);
            2
        }
    }
}

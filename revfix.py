#!/usr/bin/env python3
"""developer aid (never used by a check): reverse-fix sensitivity matrix.
usage: revfix.py <box> [finding ids...]     (box made by mkbox.sh)
For every `fixed` entry of known_findings.json: undo its commit(s) in <box>/repo (reverse patch), run the
property's quick check in <box>/verif, record exit status / number of VIOLATION lines / whether the
fixed witness itself reported, restore the box.  Writes /verif/seeded/reverse-fix-matrix.json."""
import json,subprocess,sys,time,os
box=sys.argv[1]
repo=box+'/repo'; ver=box+'/verif'
ONLY=set(sys.argv[2:])
# later commits that touch the same lines are undone together with the fix (newest first)
ALSO={'KF-C04-01':['9d34644','cf06b08'],'KF-C09-08':['21bcd7c','3ef5099','5655cc9'],'KF-C04-04':['21bcd7c','3ef5099','5655cc9'],'KF-C09-10':['21bcd7c','3ef5099'],'KF-C08-03':['3d15d91','12432c4'],'KF-C10-18':['ae68f6e','8a5e8ec'],'KF-C10-14':['c48641a','ae68f6e','9405992'],'KF-C02-07':['1dc7e3b','fadd40e','d811ef2'],'KF-C02-08':['1dc7e3b','fadd40e'],'KF-C05-06':['88aa787','b24652c'],'KF-C02-10':['9048362','6b28e90','112b0a8','e5bdc9a'],'KF-C02-11':['9048362','6b28e90','112b0a8'],'KF-C02-12':['9048362','6b28e90'],'KF-C02-13':['9048362']}
def sh(cmd,cwd=None,timeout=3600):
    p=subprocess.run(cmd,shell=True,cwd=cwd,capture_output=True,text=True,timeout=timeout)
    return p.returncode,p.stdout,p.stderr
kf=json.load(open('/verif/known_findings.json'))['findings']
out='/verif/seeded/reverse-fix-matrix.json'
rows=[]
if ONLY and os.path.exists(out):
    rows=[r for r in json.load(open(out))['rows'] if r['finding'] not in ONLY]
seen=set()
for f in kf:
    if f.get('status')!='fixed' or not f.get('commit'): continue
    if ONLY and f['id'] not in ONLY: continue
    key=(f['commit'],f['property'])
    if key in seen: continue
    seen.add(key)
    c=f['commit']; prop=f['property']
    sh("git checkout -q -- . ; git reset -q",cwd=repo)
    chain=ALSO.get(f['id'], list(reversed(c.split())))
    rc=0
    for cc in chain:
        rc,o,e=sh("git diff %s^ %s | git apply -R --whitespace=nowarn"%(cc,cc),cwd=repo)
        if rc!=0: break
    if rc!=0:
        rows.append({'finding':f['id'],'commit':c,'property':prop,'result':'reverse patch does not apply (later commits touch the same lines)'})
        sh("git checkout -q -- . ; git reset -q",cwd=repo)
        print(f['id'],c,'SKIP (does not apply)',flush=True); continue
    t=time.time()
    rc,o,e=sh("./check %s --tier quick"%prop,cwd=ver)
    viol=[l for l in o.splitlines() if l.startswith('VIOLATION')]
    wit=[l for l in (o+e).splitlines() if 'fixed-finding-returned' in l or f['id'] in l]
    summ=[l for l in (o+e).splitlines() if l.startswith('[%s] tier'%prop)]
    rows.append({'finding':f['id'],'commit':c,'property':prop,'undone':chain,'exit':rc,'violations':len(viol),'witness_reported':bool(wit),'summary':(summ[0] if summ else (e.strip().splitlines()[-1] if e.strip() else ''))[:300],'seconds':round(time.time()-t,1)})
    print(f['id'],c,prop,'exit',rc,'violations',len(viol),'witness',bool(wit),flush=True)
    sh("git checkout -q -- . ; git reset -q",cwd=repo)
    sh("rm -f %s/replays/*.json"%ver)
rows.sort(key=lambda r:r['finding'])
json.dump({'about':'each fix: commit of /repo undone in an isolated box (mkbox.sh); the quick check of the property must report it','rows':rows},open(out,'w'),indent=1)
caught=sum(1 for r in rows if r.get('exit')==1)
print('caught',caught,'of',len([r for r in rows if 'exit' in r]),'applicable;',len(rows),'rows')

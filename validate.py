#!/usr/bin/env python3
# developer aid (run with python3-vt): validate MANIFEST.json and evidence/*.json against the schemas
import json,jsonschema,glob,sys
jsonschema.validate(json.load(open('/verif/MANIFEST.json')),json.load(open('/root/.vp/MANIFEST.schema.json')))
print('manifest ok')
s=json.load(open('/root/.vp/EVIDENCE.schema.json'))
for p in sorted(glob.glob('/verif/evidence/*.json')):
    jsonschema.validate(json.load(open(p)),s); print('ok',p)

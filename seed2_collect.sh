#!/bin/bash
# developer aid (round 2): confirm a sub-agent seed in its worktree, then copy its deliverables.
#   usage: seed2_collect.sh <Cxx> <name> <demo command...>
id=$1; name=$2; shift 2
line=$(/verif/confirm2.sh ${SEEDDIR:-/tmp/seed2}/$id "$@")
echo "$line"
d=/verif/seeded/$name
mkdir -p $d
rsync -a --exclude target --exclude '*.log' --max-size=200k ${SEEDDIR:-/tmp/seed2}/$id/_out/ $d/
echo "$line" > $d/confirm.txt
echo "$*" > $d/demo_cmd.txt

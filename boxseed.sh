#!/bin/bash
# developer aid: evaluate a collected seed in the isolated box (mkbox.sh) instead of /repo.
#   usage: boxseed.sh <box> <name> <prop> [checks]
B=$1; n=$2; p=$3; c=${4:-$p}
mkdir -p $B/verif/seeded/$n
cp /verif/seeded/$n/patch.diff $B/verif/seeded/$n/patch.diff
(cd $B/verif && python3 seedtest.py $n $B/verif/seeded/$n/patch.diff $p --checks $c 2>&1 | tail -4)
cp $B/verif/seeded/$n/result.json /verif/seeded/$n/result.json 2>/dev/null || true

#!/bin/bash
# developer aid: evaluate a collected seed in the isolated box (mkbox.sh) instead of /repo.
#   usage: boxseed.sh <box> <name> <prop> [checks]
# patch.diff is the change as delivered (against the /repo commit of its round); when a later fix:
# commit touches the same lines, patch_rebased.diff is the same change against the newer tree
B=$1; n=$2; p=$3; c=${4:-$p}
mkdir -p $B/verif/seeded/$n
P=/verif/seeded/$n/patch.diff
if ! git -C $B/repo apply --check $P 2>/dev/null && [ -f /verif/seeded/$n/patch_rebased.diff ]; then P=/verif/seeded/$n/patch_rebased.diff; fi
cp $P $B/verif/seeded/$n/patch.diff
(cd $B/verif && python3 seedtest.py $n $B/verif/seeded/$n/patch.diff $p --checks $c 2>&1 | tail -4)
cp $B/verif/seeded/$n/result.json /verif/seeded/$n/result.json 2>/dev/null || true

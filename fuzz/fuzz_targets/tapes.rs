#![no_main]
//! libFuzzer target over choice tapes: the bytes are a tape for the harness' generators and the
//! oracle of the property named by VERIF_FUZZ_PROP runs inside the target (structure-aware,
//! coverage-guided search for C01 C02 C03 C05 C06 C08 C09 C10).

use ironplc_verif::gates::Gates;
use libfuzzer_sys::fuzz_target;
use std::sync::{Once, OnceLock};

static INIT: Once = Once::new();
static PROP: OnceLock<String> = OnceLock::new();
static OFF: OnceLock<Vec<String>> = OnceLock::new();

fuzz_target!(|data: &[u8]| {
    // libfuzzer-sys installs a hook that aborts on every panic; the oracles need to catch them
    INIT.call_once(ironplc_verif::panicx::install_hook);
    let prop = PROP.get_or_init(|| std::env::var("VERIF_FUZZ_PROP").unwrap_or_else(|_| "C01".into()));
    let off = OFF.get_or_init(|| std::env::var("VERIF_FUZZ_GATES_OFF").map(|s| s.split(',').filter(|x| !x.is_empty()).map(String::from).collect()).unwrap_or_default());
    let gates = Gates::with_off(off.clone());
    if let Err(f) = ironplc_verif::props::fuzz_one(prop, data, &gates) {
        eprintln!("{} violation [{} / {}]: {}", prop, f.check, f.kind, f.detail.chars().take(600).collect::<String>());
        std::process::abort();
    }
});

#![no_main]
//! libFuzzer target for C04 (plus the C05 tiling invariant): the semantic oracle is inside the
//! target.  The input bytes are used twice: decoded as text like the CLI would, and as a choice
//! tape for the harness' structured input generator (structure-aware fuzzing).

use ironplc_verif::gates::Gates;
use ironplc_verif::props::{c04, c05};
use ironplc_verif::tape::Tape;
use libfuzzer_sys::fuzz_target;
use std::sync::Once;

static INIT: Once = Once::new();

fn oscat_known() -> bool {
    static KNOWN: std::sync::OnceLock<bool> = std::sync::OnceLock::new();
    *KNOWN.get_or_init(|| ironplc_verif::report::load_findings().iter().any(|f| f.id == "KF-C05-04" && f.status == "known"))
}

fn judge(text: &str, what: &str) {
    if text.len() > 64 * 1024 {
        return;
    }
    if let Err((stage, loc, msg)) = c04::pipeline(text) {
        eprintln!("C04 violation ({}): {} panicked at {}: {}", what, stage, loc, msg);
        std::process::abort();
    }
    if let Err((kind, detail)) = c05::check_tiling(text) {
        // columns after form feed / known findings are not judged here: only hard invariants
        // "token-text-oscat-inside-token" is known finding KF-C05-04 (tolerated while it is listed as known)
        if kind == "panic" || kind == "token-span" || kind == "overlap" || kind == "gap" || kind == "token-text" || (kind == "token-text-oscat-inside-token" && !oscat_known()) {
            eprintln!("C05 invariant violated ({}): {}: {}", what, kind, detail);
            std::process::abort();
        }
    }
}

fuzz_target!(|data: &[u8]| {
    // libfuzzer-sys installs a hook that aborts on every panic; the oracle needs to catch them
    INIT.call_once(ironplc_verif::panicx::install_hook);
    let text = match std::str::from_utf8(data) {
        Ok(s) => s.to_string(),
        Err(_) => data.iter().map(|&b| b as char).collect(),
    };
    judge(&text, "raw bytes");
    // constructs behind known findings stay switched off, as in the check itself
    static OFF: std::sync::OnceLock<Vec<String>> = std::sync::OnceLock::new();
    let off = OFF.get_or_init(|| ironplc_verif::report::gates_off(&ironplc_verif::report::load_findings(), "C04"));
    let gates = Gates::with_off(off.clone());
    let (gen, fam) = c04::gen_input(&mut Tape::new(data), &gates);
    gates.take_hits();
    gates.take_wanted();
    judge(&gen, fam);
});

#!/usr/bin/env python3
# developer aid: write the sub-agent prompts of a seeding round.
#   usage: seedprompts.py <root>      (e.g. /tmp/seed8; worktrees <root>/C01..C15 must exist)
# Each prompt holds only the property text, the list of changes already explored for it
# (seeded/explored.json) and the rules of the exercise - nothing from /verif.
import json,sys
root=sys.argv[1]
explored=json.load(open('/verif/seeded/explored.json'))
props={}
for l in open('/verif/properties.jsonl'):
    d=json.loads(l); props[d['id']]=d
extra={'C10':" Note: the renderer on this tree already has a number of known round-trip weaknesses that are pinned by the repository's own rendered-output tests; those are not what is wanted - the breakage must be NEW (round-trips correctly before your change, not after).",
 'C11':" (LSP notes: `ironplcc lsp --stdio` speaks JSON-RPC with Content-Length framing; send initialize and initialized first.)",
 'C12':" (LSP notes: `ironplcc lsp --stdio` speaks JSON-RPC with Content-Length framing; send initialize and initialized first.)",
 'C15':" (LSP notes: `ironplcc lsp --stdio` speaks JSON-RPC with Content-Length framing; send initialize and initialized first; the request is textDocument/semanticTokens/full.)"}
for id,d in props.items():
    prop="ID: %s\nTitle: %s\nStatement: %s\nQuantifies over: %s\nObserved at: %s\n"%(d['id'],d['title'],d['statement'],d['quantifier']['text'],'; '.join(d['anchors']['observe_at']))
    ex='; '.join('(%s) %s'%(chr(97+i),e) for i,e in enumerate(explored[id]))
    txt=f"""You are working in a scratch git worktree of the open-source "ironplc" repository (a Rust parser / semantic analyzer / source re-renderer / LSP server for IEC 61131-3 Structured Text) at {root}/{id} (the Rust workspace is {root}/{id}/compiler). Work ONLY inside {root}/{id}. Do NOT read, list or use anything under /verif, /repo, /tmp/box1 or any other /tmp/seed* directory. Do NOT use `git stash` (it is shared between worktrees); to test without your change use `git diff -- compiler > {root}/{id}/_out/patch.diff; git apply -R {root}/{id}/_out/patch.diff; ...; git apply {root}/{id}/_out/patch.diff`.

There is no network. Other jobs share this machine: always pass `-j 4` to cargo. Build: `cd {root}/{id}/compiler && CARGO_NET_OFFLINE=true cargo build --offline -j 4`. Existing tests: `CARGO_NET_OFFLINE=true cargo test --workspace --no-fail-fast --offline -j 4`. The CLI binary is compiler/target/debug/ironplcc (subcommands: check, echo, tokenize, lsp --stdio).{extra.get(id,'')}

Here is a semantic property that users of ironplc rely on:

{prop}
YOUR TASK: make a small, realistic change to the ironplc source code that BREAKS this property, while the workspace still compiles without errors and the ENTIRE existing test suite still passes. The change must look like something a developer could plausibly commit (a refactoring slip, a tidy-up with a wrong assumption, a performance shortcut, a copy/paste error, an off-by-one, a wrong default, a half-finished feature) - not sabotage, and it must need something SPECIFIC in order to manifest: a particular construct, combination, ordering, size, history or input shape; most inputs must still behave correctly. Read the code that implements the behaviour first and choose the place yourself. Prefer a corner of the behaviour that a test generator built around the obvious cases would be unlikely to visit.

These changes have ALREADY been explored; do something clearly different from all of them (a different mechanism in a different part of the code): {ex}.

Then write a DEMONSTRATION that FAILS (non-zero exit) with your change and PASSES (exit 0) without it, and verify both directions yourself: a shell or python3 script driving the built binary on crafted input files under _out/, or a Rust integration test file kept under _out/ together with a script that copies it into the right crate's tests/ directory, runs it and removes it again.

DELIVER in {root}/{id}/_out/: patch.diff (git diff of the source change only); the demonstration file(s); notes.md containing: what the change is, why it breaks the property, EXACTLY what is needed for it to manifest, the one-line command that runs the demonstration from the worktree root (write it on a line of its own starting with `DEMO: `), and the commands you ran with their results (build ok; existing tests pass with the change; demonstration fails with the change; demonstration passes without it). Leave the worktree with the change applied and with your demonstration files only under _out/. Finish with a brief summary that includes the one-line demonstration command."""
    open('%s/%s.prompt.txt'%(root,id),'w').write(txt)
print('ok')

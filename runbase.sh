#!/bin/bash
# developer aid: run the repository's baseline test suite and print a one-line summary
set -o pipefail; cd /repo/compiler && cargo test --workspace --no-fail-fast --offline 2>&1 | awk '/^test result:/{ if ($3=="ok.") ok++; else bad++; p+=$4; f+=$6 } /^test .* FAILED/{print} END{printf "baseline: %d suites ok, %d suites failed, %d tests passed, %d failed\n", ok, bad, p, f; if (bad>0 || f>0 || p<149) exit 1}'

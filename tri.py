#!/usr/bin/env python3
# developer aid: summarise replay files (not used by any check)
import json,sys,glob
for p in sorted(glob.glob('/verif/replays/*.json')):
    if '/KF-' in p: continue
    v=json.load(open(p))
    print('==',p.split('/')[-1],v['check'],v['kind'])
    d=v['detail']
    print('\n'.join(d.split('\n')[:int(sys.argv[1]) if len(sys.argv)>1 else 3])[:600])
    t=v['inputs'].get('text') if isinstance(v['inputs'],dict) else None
    if t: print('--text--\n'+t[:500])

#!/bin/bash
# developer aid: run the quick check of each collected seed of a round in a box (mkbox.sh).
#   usage: roundeval.sh <box> <result-file-name> <round, e.g. r9> [only-these-names...]
# writes seeded/<name>/<result-file-name> (copied from the box) and a summary line per seed
B=$1; suf=$2; r=$3; shift 3
cd /verif
names="$@"; [ -z "$names" ] && names=$(ls -d seeded/*-$r-* | xargs -n1 basename)
for n in $names; do
  p=${n:0:3}
  ./boxseed.sh $B $n $p $p > /tmp/roundeval_$(basename $B)_$n.log 2>&1
  cp $B/verif/seeded/$n/result.json seeded/$n/$suf
  echo "$n $(python3 -c "import json;d=json.load(open('seeded/$n/$suf'));print({k:(v['exit'],v['violations'],v['seconds']) for k,v in d['checks'].items()})")"
done
echo done

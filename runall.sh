#!/bin/bash
# developer aid: every check once in the given tier (fuzz campaigns included), summary lines only.
# usage: runall.sh [quick|thorough] [seed]
cd "$(dirname "$0")"
./build.sh || exit 2
for p in C01 C02 C03 C04 C05 C06 C07 C08 C09 C10 C11 C12 C13 C14 C15; do
  out=$(VERIF_SEED=${2:-1} ./check $p --tier ${1:-quick} 2>&1); rc=$?
  echo "$p exit=$rc $(echo "$out" | grep "^\[$p\] tier" | sed 's/.*evaluations/evaluations/')"
  if [ $rc -ne 0 ]; then echo "$out" | grep -v KNOWN | head -30; fi
done

#!/bin/bash
# developer aid: confirm each sub-agent seed in its own scratch worktree:
#  with the patch: workspace builds, the repository's tests pass, the demonstration FAILS
#  without it:     the demonstration PASSES
declare -A DEMO=( [C01]="sh _out/run_demo.sh" [C02]="sh _out/run_demo_cli.sh" [C03]="sh _out/demo/run_demo.sh" [C04]="sh _out/demo.sh" [C05]="sh _out/demo.sh" [C06]="sh _out/demo.sh" [C07]="sh _out/demo.sh" [C08]="sh _out/demo.sh" [C09]="sh _out/run_demo.sh" [C10]="sh _out/demo.sh" [C11]="python3 _out/demo_c11.py" [C12]="python3 _out/demo_lsp_unopened_tokens.py" [C13]="python3 _out/demo.py" [C14]="python3 _out/demo_encoding.py" [C15]="python3 _out/demo_semantic_tokens.py" )
export CARGO_NET_OFFLINE=true
for id in ${@:-C01 C02 C03 C04 C05 C06 C07 C08 C09 C10 C11 C12 C13 C14 C15}; do
  wt=/tmp/seed/$id
  cd $wt || continue
  git checkout -q -- . ; git clean -fdq compiler/*/tests 2>/dev/null
  git apply --whitespace=nowarn _out/patch.diff || { echo "$id: patch does not apply"; continue; }
  (cd compiler && cargo build --offline -q 2>/dev/null)
  t=$(cd compiler && cargo test --workspace --no-fail-fast --offline 2>&1 | awk '/^test result:/{ if ($3=="ok.") ok++; else bad++; p+=$4; f+=$6 } END{printf "suites_ok=%d suites_failed=%d passed=%d failed=%d", ok,bad,p,f}')
  ${DEMO[$id]} >/tmp/seed/$id.demo_with.log 2>&1; with=$?
  git clean -fdq compiler/*/tests 2>/dev/null
  git apply -R --whitespace=nowarn _out/patch.diff
  (cd compiler && cargo build --offline -q 2>/dev/null)
  ${DEMO[$id]} >/tmp/seed/$id.demo_without.log 2>&1; without=$?
  git clean -fdq compiler/*/tests 2>/dev/null
  echo "$id: tests_with_change[$t] demo_with_change_exit=$with demo_without_change_exit=$without"
done

#!/usr/bin/env python3
"""developer aid (never used by a check): evaluate a seeded change.
usage: seedtest.py <name> <patch> <prop> [--checks C01,C08] [--confirm-wt /tmp/seed/C01]
 - optionally confirms in the scratch worktree that the repository's own tests pass with the change
 - applies the patch to /repo, runs the quick checks, records what each printed, and ALWAYS restores /repo
 - writes /verif/seeded/<name>/result.json
"""
import subprocess,sys,json,os,time,shutil
RELATED={'C01':['C01','C08','C10','C05'],'C02':['C02','C03','C06'],'C03':['C03','C06','C13'],'C04':['C04'],'C05':['C05','C15','C11'],'C06':['C06','C03','C11'],'C07':['C07','C02'],'C08':['C08','C01'],'C09':['C09','C01','C04'],'C10':['C10'],'C11':['C11','C12'],'C12':['C12','C11'],'C13':['C13','C03'],'C14':['C14'],'C15':['C15','C05']}
name,patch,prop=sys.argv[1:4]
checks=RELATED[prop]
wt=None
a=sys.argv[4:]
while a:
    if a[0]=='--checks': checks=a[1].split(','); a=a[2:]
    elif a[0]=='--confirm-wt': wt=a[1]; a=a[2:]
    else: a=a[1:]
out={'name':name,'property':prop,'patch':patch,'checks':{}}
def sh(cmd,cwd=None,timeout=3600):
    p=subprocess.run(cmd,shell=True,cwd=cwd,capture_output=True,text=True,timeout=timeout)
    return p.returncode,p.stdout,p.stderr
if wt:
    rc,o,e=sh("CARGO_NET_OFFLINE=true cargo test --workspace --no-fail-fast --offline 2>&1 | awk '/^test result:/{ if ($3==\"ok.\") ok++; else bad++; p+=$4; f+=$6 } END{printf \"%d %d %d %d\", ok,bad,p,f}'",cwd=wt+'/compiler')
    out['baseline_with_change']=o.strip()
    print('baseline with change (suites ok, suites failed, passed, failed):',o.strip())
st=sh("git -C /repo status --porcelain")[1].strip()
if st:
    print('REFUSING: /repo working tree is not clean:\n'+st); sys.exit(2)
rc,o,e=sh("git -C /repo apply --whitespace=nowarn "+patch)
if rc!=0:
    print('patch does not apply:',e); sys.exit(2)
try:
    for c in checks:
        t=time.time()
        rc,o,e=sh("./check %s --tier quick"%c,cwd='/verif')
        viol=[l for l in o.splitlines() if l.startswith('VIOLATION')]
        summ=[l for l in (o+e).splitlines() if l.startswith('[%s]'%c)]
        out['checks'][c]={'exit':rc,'violations':len(viol),'first':(summ[0][:600] if summ else ''),'seconds':round(time.time()-t,1)}
        print(c,'exit',rc,'violations',len(viol),(summ[0][:300] if summ else ''))
finally:
    sh("git -C /repo checkout -- .")
    sh("git -C /repo clean -fdq compiler docs")
    sh("rm -f /verif/replays/*.json")
    print('restored /repo:',sh("git -C /repo status --porcelain")[1].strip() or 'clean')
d='/verif/seeded/'+name
os.makedirs(d,exist_ok=True)
json.dump(out,open(d+'/result.json','w'),indent=1)
